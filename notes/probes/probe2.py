import sys, numpy, tempfile, shutil, os
from pathlib import Path
sys.path.insert(0,'/repo')
from pyvaporation import *
from pyvaporation.experiments import IdealExperiment, IdealExperiments
mix=Mixtures.H2O_EtOH
exps=[IdealExperiment('a',323.15,Components.H2O,Permeance(0.036),19944),IdealExperiment('b',323.15,Components.EtOH,Permeance(0.0000282),110806)]
tmp=Path(tempfile.mkdtemp(prefix='pvprobe'))
mem=Membrane(name='m',ideal_experiments=IdealExperiments(exps),path=tmp)
pv=Pervaporation(mem,mix)
# C18: coarse step
cond=Conditions(membrane_area=5.0, initial_feed_temperature=333.15, initial_feed_amount=1.0, initial_feed_composition=Composition(0.3,'weight'))
for dt in (0.1,0.3,0.6,1.0,3.0):
    try:
        m=pv.ideal_non_isothermal_process(conditions=cond, number_of_steps=4, delta_hours=dt)
        print('dt',dt,'mass',[round(float(v),3) for v in m.feed_mass],'T',[round(float(v),1) for v in m.feed_temperature],'x',[round(float(c.p),3) for c in m.feed_compositions])
    except Exception as e: print('dt',dt,'raised',type(e).__name__,e)
# C09 roundtrip in permeate pressure mode
x=Composition(0.3,'weight')
for mode in ({}, {'permeate_temperature':290.0}, {'permeate_pressure':5.0}):
    J=pv.calculate_partial_fluxes(333.15,x,1e-10,first_component_permeance=Permeance(0.03),second_component_permeance=Permeance(0.002),**mode)
    dc=DiffusionCurve(mixture=mix,membrane_name='m',feed_temperature=333.15,feed_compositions=[x],partial_fluxes=[J],**mode)
    print(mode,[p.value for p in dc.permeances[0]])
# C17 save/load
cond=Conditions(membrane_area=0.05, initial_feed_temperature=333.15, initial_feed_amount=1.0, initial_feed_composition=Composition(0.3,'weight'), permeate_temperature=280.0)
m=pv.ideal_non_isothermal_process(conditions=cond, number_of_steps=3, delta_hours=0.1)
for safe in (False,True):
    before=set(os.listdir(tmp/'results')) if (tmp/'results').exists() else set()
    m.save(tmp,is_safe=safe)
    new=list(set(os.listdir(tmp/'results'))-before)[0]
    l=ProcessModel.load(tmp/'results'/new,is_safe=safe)
    print('safe',safe,'types',type(l.feed_temperature).__name__,type(l.permeate_temperature).__name__,l.permeate_temperature, type(l.time).__name__, type(l.comments).__name__)
    print(' T',list(l.feed_temperature)==list(m.feed_temperature),' mass',list(l.feed_mass)==list(m.feed_mass),' fluxes',l.partial_fluxes==m.partial_fluxes,' perm',[ (a[0].value,a[1].value) for a in l.permeances]==[(a[0].value,a[1].value) for a in m.permeances], 'cond heat', list(l.permeate_condensation_heat)==list(m.permeate_condensation_heat), 'ic', l.initial_conditions==m.initial_conditions, 'fits', l.permeance_fits)
shutil.rmtree(tmp)
