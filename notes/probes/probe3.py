import sys, numpy
sys.path.insert(0,'/repo')
from pyvaporation import *
from pyvaporation.experiments import IdealExperiment, IdealExperiments
mix=Mixtures.H2O_EtOH
x=Composition(0.3,'weight'); T=333.15
pf=get_partial_pressures(T,mix,x)
P1=0.3/pf[0]; P2=0.7/pf[1]
exps=[IdealExperiment('a',T,Components.H2O,Permeance(P1),20000),IdealExperiment('b',T,Components.EtOH,Permeance(P2),20000)]
pv=Pervaporation(Membrane(name='m',ideal_experiments=IdealExperiments(exps)),mix)
cond=Conditions(membrane_area=2.0, initial_feed_temperature=T, initial_feed_amount=1.0, initial_feed_composition=x)
for f in (pv.ideal_isothermal_process, pv.ideal_non_isothermal_process):
    m=f(conditions=cond, number_of_steps=4, delta_hours=1.0)
    print(f.__name__,'mass',[round(float(v),3) for v in m.feed_mass],'T',[round(float(v),1) for v in m.feed_temperature],'x',[round(float(c.p),3) for c in m.feed_compositions])
# molar initial composition: non-ideal FR
