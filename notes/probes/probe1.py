import sys, numpy, copy
sys.path.insert(0, '/repo')
from pyvaporation import *
from pyvaporation.mixtures.mixture import calculate_activity_coefficients
from pyvaporation.experiments import IdealExperiment, IdealExperiments
mix = Mixtures.H2O_EtOH
def mk_membrane(ea=True):
    exps=[IdealExperiment(name='a',temperature=323.15,component=Components.H2O,permeance=Permeance(0.036),activation_energy=19944 if ea else None),
          IdealExperiment(name='b',temperature=323.15,component=Components.EtOH,permeance=Permeance(0.0000282),activation_energy=110806 if ea else None)]
    return Membrane(name='m', ideal_experiments=IdealExperiments(exps))
mem = mk_membrane()
pv = Pervaporation(mem, mix)
# C04 Gibbs-Duhem numeric
def gd(ct, x, T, mixture=mix, h=1e-6):
    f=lambda x: numpy.log(calculate_activity_coefficients(T, mixture, Composition(x,'molar'), ct))
    d=(f(x+h)-f(x-h))/(2*h)
    return x*d[0]+(1-x)*d[1]
for ct in ('NRTL','UNIQUAC'):
    print(ct, [float(gd(ct,x,333.15)) for x in (0.1,0.3,0.5,0.7,0.9)])
# C08 model choice honoured?
x=Composition(0.3,'weight')
print('cpf NRTL', pv.calculate_partial_fluxes(333.15,x,calculation_type='NRTL'))
print('cpf UNIQ', pv.calculate_partial_fluxes(333.15,x,calculation_type='UNIQUAC'))
print('pc NRTL', pv.calculate_permeate_composition(333.15,x,calculation_type='NRTL'))
print('pc UNIQ', pv.calculate_permeate_composition(333.15,x,calculation_type='UNIQUAC'))
# C03 heat
cond=Conditions(membrane_area=0.05, initial_feed_temperature=333.15, initial_feed_amount=1.0, initial_feed_composition=x, permeate_temperature=280.0)
a=pv.ideal_isothermal_process(number_of_steps=3, delta_hours=0.1, conditions=cond)
b=pv.ideal_non_isothermal_process(number_of_steps=3, delta_hours=0.1, conditions=cond)
print('evap iso', a.feed_evaporation_heat[0], 'noniso', b.feed_evaporation_heat[0])
print('cond iso', a.permeate_condensation_heat[0], 'noniso', b.permeate_condensation_heat[0])
print('flux', a.partial_fluxes[0], b.partial_fluxes[0])
# C16 fit mutates
from pyvaporation.optimizer.optimizer import Measurement
ms = Measurements([Measurement(x=0.1*i, t=320.0, p=0.01*(1+i)) for i in range(1,8)])
from pyvaporation.optimizer.optimizer import Measurement
n0=len(ms)
f1=fit(ms, n=1, m=0, include_zero=True)
print('len before', n0, 'after', len(ms))
