import sys, numpy, math, time
sys.path.insert(0, sys.argv[1] if len(sys.argv)>1 else '/repo')
from pyvaporation import *
from pyvaporation.experiments import IdealExperiment, IdealExperiments
from pyvaporation.utils import R
mix=Mixtures.H2O_EtOH
exps=IdealExperiments([IdealExperiment('a',323.15,Components.H2O,Permeance(0.036091),19944),IdealExperiment('b',323.15,Components.EtOH,Permeance(0.0000282),110806)])
m0=Membrane(ideal_experiments=exps,name='rom')
# composition-dependent synthetic curve (permeances vary with x) at Tc
Tc=323.15
xs=[i/10 for i in range(1,10)]
perms=[(Permeance(0.03*math.exp(0.8*x)),Permeance(3e-5*math.exp(1.5*x))) for x in xs]
curve=DiffusionCurve(mixture=mix,membrane_name='rom',feed_temperature=Tc,feed_compositions=[Composition(x,'weight') for x in xs],permeances=perms)
cs=DiffusionCurveSet('c',[curve])
pv=Pervaporation(Membrane(ideal_experiments=exps,diffusion_curve_sets=[cs],name='rom'),mix)
xw=0.3
xm=Composition(xw,'weight').to_molar(mix).p
t=time.time()
for T0 in (Tc, 333.15):
  for comp in (Composition(xw,'weight'),Composition(xm,'molar')):
    cond=Conditions(membrane_area=0.05,initial_feed_temperature=T0,initial_feed_amount=1.0,initial_feed_composition=comp)
    a=pv.non_ideal_isothermal_process(conditions=cond,diffusion_curve_set=cs,number_of_steps=4,delta_hours=0.2,n_first=1,n_second=1)
    b=pv.non_ideal_non_isothermal_process(conditions=cond,diffusion_curve_set=cs,number_of_steps=4,delta_hours=0.2,n_first=1,n_second=1)
    f1,f2=a.permeance_fits
    print('T0',T0,comp.type,'iso P0',a.permeances[0][0].value,'f1(x0w,T0)',f1(xw,T0),'P1',a.permeances[1][0].value,'f1(x0)*',f1(a.feed_compositions[0].p,T0), '| noniso P1',b.permeances[1][0].value,'f(x1,T1)',b.permeance_fits[0](b.feed_compositions[1].p,b.feed_temperature[1]))
    # Arrhenius check: f'(x,T) == f_c(x,Tc)*exp(-Ea/R(1/T-1/Tc))
    g=b.permeance_fits[0]
    print('   arrh', g(0.5,340.)/g(0.5,Tc), math.exp(-19944/R*(1/340.-1/Tc)))
    # mass balance residuals
    for mdl in (a,b):
        res=max(abs(mdl.feed_mass[k+1]-(mdl.feed_mass[k]-sum(mdl.partial_fluxes[k])*0.05*0.2)) for k in range(3))
        res2=max(abs(mdl.feed_mass[k+1]*mdl.feed_compositions[k+1].p-(mdl.feed_mass[k]*mdl.feed_compositions[k].p-mdl.partial_fluxes[k][0]*0.05*0.2)) for k in range(3))
        print('   massres',res,res2, len(mdl.time),len(mdl.permeances),len(mdl.feed_mass))
dc=pv.non_ideal_diffusion_curve(cs,333.15,Composition(xm,'molar'),0.05,5,n_first=1,n_second=1)
dcw=pv.non_ideal_diffusion_curve(cs,333.15,Composition(xw,'weight'),0.05,5,n_first=1,n_second=1)
print('curve molar vs weight P0', dc.permeances[0][0].value, dcw.permeances[0][0].value, 'P1', dc.permeances[1][0].value, dcw.permeances[1][0].value, dc.feed_compositions[0], dcw.feed_compositions[0])
print('elapsed',time.time()-t)
