import z3, time
def prove(name, pre, goal, to=60):
    s=z3.Solver(); s.set('timeout',to*1000); s.add(*pre); s.add(z3.Not(goal))
    t=time.time(); r=s.check(); print(name, 'proved' if r==z3.unsat else r, round(time.time()-t,2))
    if r==z3.sat: print(s.model())
M1,M2,w,w2=z3.Reals('M1 M2 w w2')
tm=lambda w:(w/M1)/(w/M1+(1-w)/M2)
tw=lambda x:(M1*x)/(M1*x+M2*(1-x))
pre=[M1>0,M2>0,w>=0,w<=1]
prove('roundtrip w->x->w', pre, tw(tm(w))==w)
prove('roundtrip x->w->x', pre, tm(tw(w))==w)
prove('range', pre, z3.And(tm(w)>=0, tm(w)<=1, tw(w)>=0, tw(w)<=1))
prove('fix0', [M1>0,M2>0], z3.And(tm(0)==0, tm(1)==1, tw(0)==0, tw(1)==1))
prove('mono tm', pre+[w2>=0,w2<=1,w<w2], tm(w)<tm(w2))
prove('mono tw', pre+[w2>=0,w2<=1,w<w2], tw(w)<tw(w2))
prove('ratio', pre+[w>0,w<1], tm(w)/(1-tm(w)) == (w/(1-w))*M2/M1)
# mass balance step
p,m,J1,J2,A,dt=z3.Reals('p m J1 J2 A dt')
d1=J1*A*dt; d2=J2*A*dt; mn=m-d1-d2; pn=(p*m-d1)/mn
prove('massbal', [mn!=0], z3.And(pn*mn==p*m-d1, mn==m-(J1+J2)*A*dt))
# mutated: wrong mass
pn_bad=(p*m-d1)/m
prove('massbal-mut', [mn!=0,m!=0], pn_bad*mn==p*m-d1)
# Arrhenius with exp UF + axioms instantiated
EXP=z3.Function('exp',z3.RealSort(),z3.RealSort())
Ea,R,T,Ti,Tj,C=z3.Reals('Ea R T Ti Tj C')
Pi=C*EXP(-Ea/(R*Ti)); Pj=C*EXP(-Ea/(R*Tj))
ai=-Ea/R*(1/T-1/Ti); aj=-Ea/R*(1/T-1/Tj)
u=-Ea/(R*Ti); v=-Ea/(R*Tj)
ax=[EXP(u)*EXP(ai)==EXP(u+ai), EXP(v)*EXP(aj)==EXP(v+aj)]
prove('arrh indep', [R>0,T>0,Ti>0,Tj>0]+ax, Pi*EXP(ai)==Pj*EXP(aj))
# scaling: k*a/(k*a+k*b)
a,b,k=z3.Reals('a b k')
prove('scale', [k>0,a+b!=0], (k*a)/(k*a+k*b)==a/(a+b))
# cooling heat additivity
ca,cb,cc,cd,t0,t1,t2=z3.Reals('ca cb cc cd t0 t1 t2')
CH=lambda x,y: ca*(x-y)+cb*(x**2-y**2)/2+cc*(x**3-y**3)/3+cd*(x**4-y**4)/4
prove('ch add', [], CH(t0,t1)+CH(t1,t2)==CH(t0,t2))
prove('ch anti', [], CH(t0,t1)==-CH(t1,t0))
# self-cooling scaling
Q,cp=z3.Reals('Q cp')
prove('cool scale',[k>0,cp*m!=0], T-(k*Q)/(cp*(k*m))==T-Q/(cp*m))
