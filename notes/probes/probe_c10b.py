import sys
sys.path.insert(0,'/repo')
import numpy
from pyvaporation import *
from pyvaporation.pervaporation.pervaporation import Pervaporation, get_permeate_composition_from_fluxes
from pyvaporation.mixtures.mixture import get_partial_pressures
def trace(mixname,T,x,pT,P1,P2,prec,ct,n=40):
    mix=getattr(Mixtures,mixname); pv=Pervaporation(Membrane(name='m'),mix)
    comp=Composition(x,'weight')
    init=numpy.multiply((P1,P2),get_partial_pressures(T,mix,comp,ct))
    y=get_permeate_composition_from_fluxes(init)
    ds=[]
    for i in range(n):
        fl=pv.get_partial_fluxes_from_permeate_composition(Permeance(P1),Permeance(P2),y,comp,T,pT,None,ct)
        try:
            yn=get_permeate_composition_from_fluxes(fl)
        except Exception as e:
            print('raise',e); break
        ds.append((float(yn.p), float(abs(yn.p-y.p))))
        y=yn
    print(mixname, ds[-6:])
trace('EtOH_ETBE', 361.3707740795923, 0.266797899336345, 313.5374508793685, 0.0035230646275480155, 4.105470621201918e-06, 3.864988098083973e-07,'UNIQUAC', n=20000)
trace('MeOH_Toluene', 301.3458640913272, 0.6482094052630578, 191.6131208256988, 0.0028515157633149475, 8.46203575555787e-05, 1.4280364947197366e-05,'UNIQUAC', n=20000)
