import sys, numpy, math, random, tempfile, shutil, os, itertools
from pathlib import Path
sys.path.insert(0,'/repo')
from pyvaporation import *
from pyvaporation.experiments import IdealExperiment, IdealExperiments
from pyvaporation.utils import R
rnd=random.Random(3)
# ---- C12
comp=Components.H2O
def mem(exps): return Membrane(name='m', ideal_experiments=IdealExperiments(exps))
bad=0
for trial in range(300):
    n=rnd.randint(2,6); Ea=rnd.uniform(-60000,120000); C=rnd.uniform(-5,2)
    Ts=rnd.sample([273+ i*3.1 for i in range(40)], n)
    stated = rnd.random()<0.5
    exps=[IdealExperiment('e%d'%i, T, comp, Permeance(math.exp(C-Ea/(R*T))), Ea if stated else None) for i,T in enumerate(Ts)]
    m=mem(exps)
    if not stated:
        ea=m.calculate_activation_energy(comp)
        if abs(ea-Ea)>1e-6*max(1,abs(Ea)): bad+=1; print('Ea',ea,Ea)
    Tq=rnd.uniform(260,420)
    p=m.get_permeance(Tq,comp).value
    exp=math.exp(C-Ea/(R*Tq))
    if abs(p-exp)>1e-8*exp: bad+=1; print('perm',p,exp,stated)
    T0=Ts[0]
    if abs(m.get_permeance(T0,comp).value-exps[0].permeance.value)>0: bad+=1; print('at exp')
print('C12 bad',bad)
m1=mem([IdealExperiment('a',300.,comp,Permeance(0.1),None)])
try: m1.get_permeance(310.,comp); print('C12/C19 single exp no Ea: NO RAISE')
except ValueError as e: print('single exp raises ValueError ok')
# selectivity
m2=mem([IdealExperiment('a',300.,Components.H2O,Permeance(0.1),20000.),IdealExperiment('b',300.,Components.EtOH,Permeance(0.01),30000.)])
sm=m2.get_ideal_selectivity(320.,Components.H2O,Components.EtOH,'molar'); sw=m2.get_ideal_selectivity(320.,Components.H2O,Components.EtOH,'weight')
print('sel ratio', sm/sw, Components.EtOH.molecular_weight/Components.H2O.molecular_weight)
# ---- C19 all entry points with both perm T and P
mix=Mixtures.H2O_EtOH
pv=Pervaporation(m2,mix)
x=Composition(0.3,'weight')
cond=Conditions(membrane_area=0.05, initial_feed_temperature=320., initial_feed_amount=1., initial_feed_composition=x, permeate_temperature=280., permeate_pressure=2.)
mem_p=Membrane.load(Path('/repo/tests/default_membranes/Pervap_4101'))
dcs=mem_p.diffusion_curve_sets[0]
pv2=Pervaporation(mem_p, dcs.diffusion_curves[0].mixture)
print('4101 mixture', dcs.diffusion_curves[0].mixture.name, len(dcs.diffusion_curves))
def ex(name,f):
    try: f(); print(' ',name,'NO RAISE')
    except Exception as e: print(' ',name,type(e).__name__)
ex('gpf', lambda: pv.get_partial_fluxes_from_permeate_composition(Permeance(.1),Permeance(.1),x,x,320.,280.,2.))
ex('cpf', lambda: pv.calculate_partial_fluxes(320.,x,permeate_temperature=280.,permeate_pressure=2.))
ex('cpc', lambda: pv.calculate_permeate_composition(320.,x,permeate_temperature=280.,permeate_pressure=2.))
ex('csf', lambda: pv.calculate_separation_factor(320.,x,permeate_temperature=280.,permeate_pressure=2.))
ex('idc', lambda: pv.ideal_diffusion_curve(320.,[x],permeate_temperature=280.,permeate_pressure=2.))
ex('iip', lambda: pv.ideal_isothermal_process(3,0.1,cond))
ex('inip', lambda: pv.ideal_non_isothermal_process(cond,3,0.1))
ex('pure', lambda: m2.get_estimated_pure_component_flux(320.,Components.H2O,280.,2.))
ex('dc', lambda: DiffusionCurve(mixture=mix,membrane_name='m',feed_temperature=320.,feed_compositions=[x],partial_fluxes=[(1.,.1)],permeate_temperature=280.,permeate_pressure=2.))
ex('dc none', lambda: DiffusionCurve(mixture=mix,membrane_name='m',feed_temperature=320.,feed_compositions=[x]))
ex('mixture', lambda: Mixture(name='q',first_component=Components.H2O,second_component=Components.EtOH))
