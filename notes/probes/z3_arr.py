import z3, time
def prove(name, pre, goal, to=60):
    s=z3.Solver(); s.set('timeout',to*1000); s.add(*pre); s.add(z3.Not(goal))
    t=time.time(); r=s.check(); print(name, 'proved' if r==z3.unsat else r, round(time.time()-t,2))
EXP=z3.Function('exp',z3.RealSort(),z3.RealSort())
Ea,R,T,Ti,Tj,C=z3.Reals('Ea R T Ti Tj C')
u=-Ea/(R*Ti); v=-Ea/(R*Tj)
ai=-Ea/R*(1/T-1/Ti); aj=-Ea/R*(1/T-1/Tj)
# step 1: exponent identity
prove('exponent eq', [R>0,T>0,Ti>0,Tj>0], u+ai==v+aj)
# step 2: with fresh vars for exps and the merged-exponent equal
e_u,e_ai,e_v,e_aj,e_s=z3.Reals('e_u e_ai e_v e_aj e_s')
prove('product eq', [e_u*e_ai==e_s, e_v*e_aj==e_s], C*e_u*e_ai==C*e_v*e_aj)
