import sys, random
sys.path.insert(0,'/repo')
import numpy
numpy.seterr(all='ignore')
from pyvaporation import *
from pyvaporation.pervaporation.pervaporation import Pervaporation
class TooMany(Exception): pass
cnt=[0]
orig=Pervaporation.get_partial_fluxes_from_permeate_composition
def wrapped(self,*a,**k):
    cnt[0]+=1
    if cnt[0]>20000: raise TooMany()
    return orig(self,*a,**k)
Pervaporation.get_partial_fluxes_from_permeate_composition=wrapped
mixes=[getattr(Mixtures,n) for n in dir(Mixtures) if not n.startswith('_')]
rnd=random.Random(1)
found=[]
N=int(sys.argv[1]); ct=sys.argv[2]
errs=0
for i in range(N):
    mix=rnd.choice(mixes)
    T=rnd.uniform(273,400); x=rnd.uniform(0.001,0.999)
    pT=rnd.uniform(120,T)
    P1=10**rnd.uniform(-6,0); P2=10**rnd.uniform(-6,0)
    prec=10**rnd.uniform(-8,-3)
    pv=Pervaporation(Membrane(name='m'),mix)
    cnt[0]=0
    try:
        pv.calculate_partial_fluxes(T,Composition(x,'weight'),prec,permeate_temperature=pT,first_component_permeance=Permeance(P1),second_component_permeance=Permeance(P2),calculation_type=ct)
    except TooMany:
        found.append((mix.name,T,x,pT,P1,P2,prec)); 
        if len(found)>=3: break
    except Exception as e:
        errs+=1
print('tried',i+1,'errs',errs,'nonterminating',len(found))
for f in found: print(f)
