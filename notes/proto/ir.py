"""Feasibility prototype: term IR with differentiation, float evaluation and z3 emission."""
from fractions import Fraction
import math, z3

class T:
    __slots__ = ("op", "a")
    def __init__(s, op, *a): s.op = op; s.a = a
    # arithmetic
    def __add__(s, o): return mk('+', s, lift(o))
    def __radd__(s, o): return mk('+', lift(o), s)
    def __sub__(s, o): return mk('-', s, lift(o))
    def __rsub__(s, o): return mk('-', lift(o), s)
    def __mul__(s, o): return mk('*', s, lift(o))
    def __rmul__(s, o): return mk('*', lift(o), s)
    def __truediv__(s, o): return mk('/', s, lift(o))
    def __rtruediv__(s, o): return mk('/', lift(o), s)
    def __neg__(s): return mk('-', lift(0), s)
    def __pow__(s, n): return power(s, n)
    def __rpow__(s, b): return power(lift(b), s)
    def __repr__(s): return show(s)

def lift(v):
    if isinstance(v, T): return v
    if isinstance(v, bool): raise TypeError("bool in arithmetic")
    if isinstance(v, int): return T('c', Fraction(v))
    if isinstance(v, float): return T('c', Fraction(repr(v)))   # decimal literal taken exactly
    if isinstance(v, Fraction): return T('c', v)
    raise TypeError(type(v))
def var(n): return T('v', n)
def isc(t, v=None): return t.op == 'c' and (v is None or t.a[0] == v)
def mk(op, a, b):
    if isc(a) and isc(b):
        x, y = a.a[0], b.a[0]
        if op == '+': return lift(x + y)
        if op == '-': return lift(x - y)
        if op == '*': return lift(x * y)
        if op == '/' and y != 0: return lift(x / y)
    if op == '+' and isc(a, 0): return b
    if op in '+-' and isc(b, 0): return a
    if op == '*' and (isc(a, 0) or isc(b, 0)): return lift(0)
    if op == '*' and isc(a, 1): return b
    if op in '*/' and isc(b, 1): return a
    return T(op, a, b)
def power(b, n):
    if isinstance(n, T) and isc(n) and n.a[0].denominator == 1: n = int(n.a[0])
    if isinstance(n, int):
        if n == 0: return lift(1)
        if n < 0: return lift(1) / power(b, -n)
        r = b
        for _ in range(n - 1): r = r * b
        return r
    return exp(log(b) * lift(n))          # b**u := exp(log(b)*u), b>0 side condition recorded by caller
def exp(u):
    u = lift(u)
    if isc(u, 0): return lift(1)
    if u.op == 'log': return u.a[0]
    return T('exp', u)
def log(u):
    u = lift(u)
    if isc(u, 1): return lift(0)
    if u.op == 'exp': return u.a[0]
    return T('log', u)
def app(name, *args): return T('app', name, *[lift(a) for a in args])
def show(t):
    if t.op == 'app': return f"{t.a[0]}({', '.join(show(x) for x in t.a[1:])})"
    if t.op == 'c': return str(t.a[0])
    if t.op == 'v': return t.a[0]
    if t.op in ('exp', 'log'): return f"{t.op}({show(t.a[0])})"
    return f"({show(t.a[0])} {t.op} {show(t.a[1])})"
def dep(t, x):
    if t.op == 'c': return False
    if t.op == 'v': return t.a[0] == x
    if t.op == 'app': return any(dep(a, x) for a in t.a[1:])
    return any(dep(a, x) for a in t.a)
def D(t, x):
    o = t.op
    if not dep(t, x): return lift(0)
    if o == 'v': return lift(1)
    if o == '+': return D(t.a[0], x) + D(t.a[1], x)
    if o == '-': return D(t.a[0], x) - D(t.a[1], x)
    if o == '*': return D(t.a[0], x) * t.a[1] + t.a[0] * D(t.a[1], x)
    if o == '/':
        if not dep(t.a[1], x): return D(t.a[0], x) / t.a[1]
        return (D(t.a[0], x) * t.a[1] - t.a[0] * D(t.a[1], x)) / (t.a[1] * t.a[1])
    if o == 'exp': return t * D(t.a[0], x)
    if o == 'log': return D(t.a[0], x) / t.a[0]
    raise ValueError(o)
def ev(t, env):
    o = t.op
    if o == 'c': return float(t.a[0])
    if o == 'v': return env[t.a[0]]
    if o == 'app': return env[t.a[0]](*[ev(x, env) for x in t.a[1:]])
    if o == 'exp': return math.exp(ev(t.a[0], env))
    if o == 'log': return math.log(ev(t.a[0], env))
    a, b = ev(t.a[0], env), ev(t.a[1], env)
    return a + b if o == '+' else a - b if o == '-' else a * b if o == '*' else a / b
def atoms(t, acc):
    """transcendental atoms (outermost), in order of discovery"""
    if t.op in ('exp', 'log'):
        acc.setdefault(show(t), t)
        atoms(t.a[0], acc)
    elif t.op == 'app':
        for a in t.a[1:]: atoms(a, acc)
    elif t.op not in ('c', 'v'):
        for a in t.a: atoms(a, acc)
    return acc
class Z:
    """z3 emission; exp/log atoms become fresh reals constrained by the instantiated axiom schema"""
    def __init__(s): s.vars = {}; s.at = {}; s.side = []; s.ufs = {}
    def v(s, n):
        if n not in s.vars: s.vars[n] = z3.Real(n)
        return s.vars[n]
    def __call__(s, t):
        o = t.op
        if o == 'c': return z3.RealVal(str(t.a[0]))
        if o == 'v': return s.v(t.a[0])
        if o == 'app':
            name, args = t.a[0], t.a[1:]
            key = (name, len(args))
            if key not in s.ufs: s.ufs[key] = z3.Function(name, *([z3.RealSort()] * (len(args) + 1)))
            return s.ufs[key](*[s(x) for x in args]) if args else s.v(name)
        if o in ('exp', 'log'):
            k = show(t)
            if k not in s.at:
                a = z3.Real(f"@{o}{len(s.at)}")
                s.at[k] = a
                if o == 'exp': s.side.append(a > 0)
            return s.at[k]
        a, b = s(t.a[0]), s(t.a[1])
        return a + b if o == '+' else a - b if o == '-' else a * b if o == '*' else a / b
def prove(name, pre, goal_builder, timeout=120):
    """pre / goal given as callables on a Z instance so that atoms are shared"""
    import time
    zz = Z(); g = goal_builder(zz); p = [f(zz) for f in pre]
    s = z3.Solver(); s.set('timeout', timeout * 1000)
    s.add(*p); s.add(*zz.side); s.add(z3.Not(g))
    t0 = time.time(); r = s.check()
    print(f"{name}: {'discharged' if r == z3.unsat else r} ({time.time() - t0:.2f}s)")
    return r, (s.model() if r == z3.sat else None)
