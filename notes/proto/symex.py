"""Feasibility prototype: symbolic execution of the real PyVaporation source (ast) into the term IR.

Path enumeration by re-execution with a decision oracle.  Only what the leaf functions need.
"""
import ast, os, sys
from fractions import Fraction
import z3
from ir import T, lift, var, exp, log, power, show, Z, mk

REPO = os.environ.get("PVC_REPO", "/repo")

# ---------------------------------------------------------------- boolean terms
class B:
    def __init__(s, op, *a): s.op = op; s.a = a
    def z3(s, zz):
        o = s.op
        if o == 'cmp':
            k, a, b = s.a; a, b = zz(lift(a)), zz(lift(b))
            return {'<': a < b, '<=': a <= b, '>': a > b, '>=': a >= b, '==': a == b, '!=': a != b}[k]
        if o == 'not': return z3.Not(s.a[0].z3(zz))
        if o == 'and': return z3.And(*[x.z3(zz) for x in s.a])
        if o == 'or': return z3.Or(*[x.z3(zz) for x in s.a])
        if o == 'lit': return z3.BoolVal(s.a[0])
    def __repr__(s):
        if s.op == 'cmp': return f"({s.a[1]} {s.a[0]} {s.a[2]})"
        return f"{s.op}{s.a}"
def bnot(b): return (not b) if isinstance(b, bool) else B('not', b)

# ---------------------------------------------------------------- values
class Obj:
    def __init__(s, cls, fields): s.cls = cls; s.f = fields
    def __repr__(s): return f"{s.cls}({s.f})"
class Vec:                      # numpy array of terms (1-d)
    def __init__(s, xs): s.xs = list(xs)
class Raised(Exception):
    def __init__(s, exc, msg=""): s.exc = exc; s.msg = msg
class Ret(Exception):
    def __init__(s, v): s.v = v
class NeedDecision(Exception): pass

# ---------------------------------------------------------------- source index
class Source:
    def __init__(s, repo=REPO):
        s.mods = {}
        root = os.path.join(repo, "pyvaporation")
        for d, _, fs in os.walk(root):
            for f in fs:
                if f.endswith(".py"):
                    p = os.path.join(d, f)
                    s.mods[os.path.relpath(p, repo)] = ast.parse(open(p).read(), p)
        s.classes = {}; s.funcs = {}; s.consts = {}
        for path, m in s.mods.items():
            for n in m.body:
                if isinstance(n, ast.ClassDef):
                    s.classes[n.name] = (path, n)
                elif isinstance(n, ast.FunctionDef):
                    s.funcs[n.name] = (path, n)
                elif isinstance(n, ast.Assign) and len(n.targets) == 1 and isinstance(n.targets[0], ast.Name) \
                        and isinstance(n.value, ast.Constant):
                    s.consts[n.targets[0].id] = n.value.value
    def method(s, cls, name):
        for n in s.classes[cls][1].body:
            if isinstance(n, ast.FunctionDef) and n.name == name: return n
        return None
    def class_consts(s, cls):
        out = {}
        for n in s.classes[cls][1].body:
            if isinstance(n, ast.AnnAssign) and isinstance(n.value, ast.Constant): out[n.target.id] = n.value.value
        return out
    def attrs_fields(s, cls):
        """(name, default_ast|None, validator_ast|None, converter_ast|None) in declaration order"""
        out = []
        for n in s.classes[cls][1].body:
            if isinstance(n, ast.AnnAssign):
                d = v = c = None; has = False
                if n.value is not None:
                    if isinstance(n.value, ast.Call) and ast.unparse(n.value.func) == "attr.ib":
                        for k in n.value.keywords:
                            if k.arg == "default": d = k.value; has = True
                            if k.arg == "validator": v = k.value
                            if k.arg == "converter": c = k.value
                    else:
                        d = n.value; has = True
                out.append((n.target.id, d if has else None, v, c, has))
        return out

# ---------------------------------------------------------------- executor
class Exec:
    def __init__(s, src, oracle, pc_check=None):
        s.src = src; s.oracle = list(oracle); s.taken = []; s.pc = []; s.defined = []   # defined: denominators
    # --- forking
    def decide(s, c):
        if isinstance(c, bool): return c
        if isinstance(c, B) and c.op == 'lit': return c.a[0]
        i = len(s.taken)
        d = s.oracle[i] if i < len(s.oracle) else True
        s.taken.append(d)
        s.pc.append(c if d else bnot(c))
        return d
    # --- calls
    def call_function(s, fdef, args, kwargs, self_obj=None):
        env = {}
        params = [a.arg for a in fdef.args.args]
        defaults = fdef.args.defaults
        dstart = len(params) - len(defaults)
        pos = ([self_obj] if self_obj is not None else []) + list(args)
        for i, p in enumerate(params):
            if i < len(pos): env[p] = pos[i]
            elif p in kwargs: env[p] = kwargs[p]
            elif i >= dstart: env[p] = s.eval(defaults[i - dstart], {})
            else: raise TypeError(f"missing arg {p} for {fdef.name}")
        try:
            s.block(fdef.body, env)
        except Ret as r:
            return r.v
        return None
    def construct(s, cls, args, kwargs):
        fields = s.src.attrs_fields(cls)
        vals = {}
        for i, (name, d, v, c, has) in enumerate(fields):
            if i < len(args): x = args[i]
            elif name in kwargs: x = kwargs[name]
            elif has: x = s.eval(d, {})
            else: raise TypeError(f"{cls}: missing {name}")
            if c is not None: x = s.apply(s.eval(c, {}), [x], {})
            vals[name] = x
        o = Obj(cls, vals)
        for (name, d, v, c, has) in fields:
            if v is not None: s.apply(s.eval(v, {}), [o, name, vals[name]], {})
        pi = s.src.method(cls, "__attrs_post_init__")
        if pi is not None: s.call_function(pi, [], {}, self_obj=o)
        return o
    def apply(s, f, args, kwargs):
        if isinstance(f, tuple) and f[0] == 'lambda':
            _, lam, cenv = f
            env = dict(cenv)
            for p, a in zip([a.arg for a in lam.args.args], args): env[p] = a
            return s.eval(lam.body, env)
        if isinstance(f, tuple) and f[0] == 'func': return s.call_function(f[1], args, kwargs)
        if isinstance(f, tuple) and f[0] == 'method': return s.call_function(f[1], args, kwargs, self_obj=f[2])
        if isinstance(f, tuple) and f[0] == 'class': return s.construct(f[1], args, kwargs)
        if isinstance(f, tuple) and f[0] == 'builtin': return f[1](s, *args, **kwargs)
        raise TypeError(f"cannot call {f}")
    # --- statements
    def block(s, stmts, env):
        for st in stmts: s.stmt(st, env)
    def stmt(s, st, env):
        if isinstance(st, ast.Expr):
            if isinstance(st.value, ast.Constant): return          # docstring
            s.eval(st.value, env); return
        if isinstance(st, ast.Return): raise Ret(s.eval(st.value, env) if st.value else None)
        if isinstance(st, ast.Assign):
            v = s.eval(st.value, env)
            for t in st.targets: s.assign(t, v, env)
            return
        if isinstance(st, ast.AnnAssign):
            if st.value is not None: s.assign(st.target, s.eval(st.value, env), env)
            return
        if isinstance(st, ast.If):
            if s.decide(s.truth(s.eval(st.test, env))): s.block(st.body, env)
            else: s.block(st.orelse, env)
            return
        if isinstance(st, ast.Raise):
            e = st.exc
            name = e.func.id if isinstance(e, ast.Call) else ast.unparse(e)
            raise Raised(name)
        if isinstance(st, ast.Pass): return
        if isinstance(st, ast.Try):
            handlers = [ast.unparse(h.type) if h.type is not None else 'BaseException' for h in st.handlers]
            try:
                s.block(st.body, env)
            except Raised as r:
                for h, hn in zip(st.handlers, handlers):
                    if hn != '()' and (hn == r.exc or hn in ('Exception', 'BaseException')):
                        s.block(h.body, env); break
                else: raise
            return
        if isinstance(st, ast.Assert):
            if not s.decide(s.truth(s.eval(st.test, env))): raise Raised("AssertionError")
            return
        raise NotImplementedError(ast.dump(st)[:80])
    def assign(s, t, v, env):
        if isinstance(t, ast.Name): env[t.id] = v
        elif isinstance(t, ast.Attribute): s.eval(t.value, env).f[t.attr] = v
        elif isinstance(t, ast.Tuple):
            xs = v.xs if isinstance(v, Vec) else v
            for tt, vv in zip(t.elts, xs): s.assign(tt, vv, env)
        else: raise NotImplementedError(ast.dump(t))
    # --- truthiness
    def truth(s, v):
        if isinstance(v, (bool, B)): return v
        if v is None: return False
        raise NotImplementedError(f"truth of {v}")
    # --- expressions
    def eval(s, e, env):
        if isinstance(e, ast.Constant):
            return e.value
        if isinstance(e, ast.Name):
            if e.id in env: return env[e.id]
            if e.id in s.src.consts: return s.src.consts[e.id]
            if e.id in s.src.classes: return ('class', e.id)
            if e.id in s.src.funcs: return ('func', s.src.funcs[e.id][1])
            if e.id in BUILTINS: return ('builtin', BUILTINS[e.id])
            if e.id == 'numpy': return 'numpy'
            raise NameError(e.id)
        if isinstance(e, ast.Attribute):
            b = s.eval(e.value, env)
            if b == 'numpy': return ('builtin', NUMPY[e.attr])
            if isinstance(b, Obj):
                if e.attr in b.f: return b.f[e.attr]
                m = s.src.method(b.cls, e.attr)
                if m is None: raise AttributeError(f"{b.cls}.{e.attr}")
                if any(ast.unparse(d) == 'property' for d in m.decorator_list):
                    return s.call_function(m, [], {}, self_obj=b)
                return ('method', m, b)
            if isinstance(b, tuple) and b[0] == 'class':
                return s.src.class_consts(b[1])[e.attr]
            raise AttributeError(f"{b}.{e.attr}")
        if isinstance(e, ast.BinOp):
            return s.binop(e.op, s.eval(e.left, env), s.eval(e.right, env))
        if isinstance(e, ast.UnaryOp):
            v = s.eval(e.operand, env)
            if isinstance(e.op, ast.USub):
                if isinstance(v, (int, float)) and not isinstance(v, bool): return -v
                return Vec([-lift(x) for x in v.xs]) if isinstance(v, Vec) else -lift(v)
            if isinstance(e.op, ast.Not): return bnot(s.truth(v))
            raise NotImplementedError
        if isinstance(e, ast.Compare):
            left = s.eval(e.left, env); res = []
            for op, r in zip(e.ops, e.comparators):
                right = s.eval(r, env); res.append(s.compare(op, left, right)); left = right
            if len(res) == 1: return res[0]
            if all(isinstance(x, bool) for x in res): return all(res)
            return B('and', *[x if isinstance(x, B) else B('lit', x) for x in res])
        if isinstance(e, ast.BoolOp):
            vals = [s.truth(s.eval(v, env)) for v in e.values]
            if all(isinstance(v, bool) for v in vals):
                return all(vals) if isinstance(e.op, ast.And) else any(vals)
            vals = [v if isinstance(v, B) else B('lit', v) for v in vals]
            return B('and' if isinstance(e.op, ast.And) else 'or', *vals)
        if isinstance(e, ast.IfExp):
            return s.eval(e.body, env) if s.decide(s.truth(s.eval(e.test, env))) else s.eval(e.orelse, env)
        if isinstance(e, ast.Call):
            f = s.eval(e.func, env)
            args = [s.eval(a, env) for a in e.args]
            kwargs = {k.arg: s.eval(k.value, env) for k in e.keywords}
            return s.apply(f, args, kwargs)
        if isinstance(e, ast.Tuple): return tuple(s.eval(x, env) for x in e.elts)
        if isinstance(e, ast.List): return [s.eval(x, env) for x in e.elts]
        if isinstance(e, ast.Dict): return {s.eval(k, env): s.eval(v, env) for k, v in zip(e.keys, e.values)}
        if isinstance(e, ast.Lambda): return ('lambda', e, dict(env))
        if isinstance(e, ast.Subscript):
            b = s.eval(e.value, env); i = s.eval(e.slice, env)
            if isinstance(b, Vec): return b.xs[i]
            if isinstance(b, dict):
                if i not in b: raise Raised("KeyError")
                return b[i]
            return b[i]
        raise NotImplementedError(ast.dump(e)[:100])
    def binop(s, op, a, b):
        if isinstance(a, Vec) or isinstance(b, Vec):
            n = len(a.xs) if isinstance(a, Vec) else len(b.xs)
            ax = a.xs if isinstance(a, Vec) else [a] * n
            bx = b.xs if isinstance(b, Vec) else [b] * n
            return Vec([s.binop(op, x, y) for x, y in zip(ax, bx)])
        if isinstance(op, ast.Mod) and isinstance(a, str): return "<str>"
        a, b = lift(a), lift(b)
        if isinstance(op, ast.Add): return a + b
        if isinstance(op, ast.Sub): return a - b
        if isinstance(op, ast.Mult): return a * b
        if isinstance(op, ast.Div):
            s.defined.append(b)
            if b.op != 'c': s.pc.append(B('cmp', '!=', b, lift(0)))      # den == 0 is an abnormal exit (DESIGN 2.1(6))
            return a / b
        if isinstance(op, ast.Pow): return power(a, b)
        raise NotImplementedError(op)
    def compare(s, op, a, b):
        if isinstance(op, (ast.Is, ast.IsNot)):
            r = (a is b) if (a is None or b is None) else (a is b)
            return r if isinstance(op, ast.Is) else not r
        conc = lambda v: isinstance(v, (str, int, float, bool, type(None))) and not isinstance(v, T)
        if isinstance(a, (str, type(None))) or isinstance(b, (str, type(None))):
            r = (a == b)
            return r if isinstance(op, ast.Eq) else (not r)
        k = {ast.Lt: '<', ast.LtE: '<=', ast.Gt: '>', ast.GtE: '>=', ast.Eq: '==', ast.NotEq: '!='}[type(op)]
        if conc(a) and conc(b):
            return {'<': a < b, '<=': a <= b, '>': a > b, '>=': a >= b, '==': a == b, '!=': a != b}[k]
        return B('cmp', k, lift(a), lift(b))

def _np_exp(s, x): return Vec([exp(lift(v)) for v in x.xs]) if isinstance(x, Vec) else exp(lift(x))
def _np_log(s, x): return Vec([log(lift(v)) for v in x.xs]) if isinstance(x, Vec) else log(lift(x))
def _np_array(s, x): return Vec(x)
def _np_multiply(s, a, b):
    return s.binop(ast.Mult(), a if not isinstance(a, (list, tuple)) else Vec(a), b if not isinstance(b, (list, tuple)) else Vec(b))
NUMPY = {'exp': _np_exp, 'log': _np_log, 'array': _np_array, 'multiply': _np_multiply}
BUILTINS = {'float': lambda s, x: x, 'getattr': lambda s, o, n: (o.f[n] if isinstance(o, Obj) else s.src.class_consts(o[1])[n])}

def paths(src, runner, max_paths=256):
    """enumerate all paths of runner(exec) -> list of (pc, outcome, exec)"""
    out = []; stack = [[]]
    while stack:
        oracle = stack.pop()
        ex = Exec(src, oracle)
        try:
            res = ('return', runner(ex))
        except Raised as r:
            res = ('raise', r.exc)
        # schedule siblings for decisions beyond the oracle
        for i in range(len(oracle), len(ex.taken)):
            stack.append(ex.taken[:i] + [not ex.taken[i]])
        out.append((ex.pc, res, ex))
        if len(out) > max_paths: raise RuntimeError("too many paths")
    return out
def feasible(pc, pre=()):
    zz = Z(); s = z3.Solver(); s.set('timeout', 10000)
    for c in pc:
        if isinstance(c, B): s.add(c.z3(zz))
        elif c is False: return False
    for p in pre: s.add(p(zz))
    s.add(*zz.side)
    return s.check() != z3.unsat
