"""Feasibility prototype, part 2: append-only loop recurrences, sequences, calls by contract (UF)."""
import ast, hashlib
from ir import T, lift, var, app, show, Z, mk
from symex import *

class Opaque:
    def __repr__(s): return "<opaque>"
OPAQUE = Opaque()

class Seq:
    """list of symbolic length: element i is fn(i)"""
    def __init__(s, n, fn): s.n = n; s.fn = fn
class Grow:
    """list inside the generic iteration k of an append-only loop"""
    def __init__(s, name, init):
        s.name = name; s.init = list(init); s.app = []; s.reads = {}
class Post:
    """list after the loop: len0 + N*a elements, minus pops"""
    def __init__(s, name, len0, n, a): s.name = name; s.len0 = len0; s.n = n; s.a = a; s.pops = 0
    def length(s): return lift(s.len0 - s.pops) + s.n * s.a

def offset(t, k='k'):
    """t == k + c  ->  c (int) else None"""
    t = lift(t)
    if t.op == 'v' and t.a[0] == k: return 0
    if t.op in '+-' and t.a[0].op == 'v' and t.a[0].a[0] == k and t.a[1].op == 'c' and t.a[1].a[0].denominator == 1:
        c = int(t.a[1].a[0]); return c if t.op == '+' else -c
    return None
def flatten(v):
    if isinstance(v, T): return [v]
    if v is None: return [lift(-777)]
    if isinstance(v, bool): return [lift(int(v))]
    if isinstance(v, (int, float)): return [lift(v)]
    if isinstance(v, str): return [lift(int(hashlib.md5(v.encode()).hexdigest()[:6], 16))]
    if isinstance(v, Obj): return [x for f in v.f.values() for x in flatten(f)]
    if isinstance(v, (tuple, list)): return [x for f in v for x in flatten(f)]
    if isinstance(v, Opaque): return []
    raise TypeError(type(v))
def template(v, prefix):
    """symbolic element with the shape of v"""
    if isinstance(v, T): return var(prefix)
    if isinstance(v, Obj): return Obj(v.cls, {n: template(x, f"{prefix}.{n}") for n, x in v.f.items()})
    if isinstance(v, tuple): return tuple(template(x, f"{prefix}.{i}") for i, x in enumerate(v))
    return v
def same_shape(a, b):
    if isinstance(a, T) or isinstance(b, T): return (isinstance(a, (T, int, float)) and isinstance(b, (T, int, float)))
    if isinstance(a, Obj): return isinstance(b, Obj) and a.cls == b.cls and all(same_shape(a.f[n], b.f[n]) for n in a.f)
    if isinstance(a, tuple): return isinstance(b, tuple) and len(a) == len(b) and all(same_shape(x, y) for x, y in zip(a, b))
    return a == b

class LExec(Exec):
    CONTRACTS = {}
    def __init__(s, src, oracle):
        super().__init__(src, oracle); s.recurrence = None; s.loopinfo = None
    def bind(s, fdef, args, kwargs, self_obj):
        env = {}
        params = [a.arg for a in fdef.args.args]
        defaults = fdef.args.defaults; dstart = len(params) - len(defaults)
        pos = ([self_obj] if self_obj is not None else []) + list(args)
        for i, p in enumerate(params):
            if i < len(pos): env[p] = pos[i]
            elif p in kwargs: env[p] = kwargs[p]
            elif i >= dstart: env[p] = s.eval(defaults[i - dstart], {})
            else: raise TypeError(p)
        return env
    def apply(s, f, args, kwargs):
        if isinstance(f, Opaque): return OPAQUE
        if isinstance(f, tuple) and f[0] == 'ufmethod':
            return app(f"{f[1].f['name']}.{f[2]}", *[x for a in args for x in flatten(a)])
        if isinstance(f, tuple) and f[0] == 'method' and f[1].name in s.CONTRACTS:
            return s.CONTRACTS[f[1].name](s, s.bind(f[1], args, kwargs, f[2]))
        if isinstance(f, tuple) and f[0] == 'lmethod':
            _, lst, name = f
            if name == 'append':
                if isinstance(lst, Grow): lst.app.append(args[0])
                else: lst.append(args[0])
                return None
            if name == 'pop':
                assert args == [-1]
                if isinstance(lst, Post): lst.pops += 1; return OPAQUE
                return lst.pop(-1)
        return super().apply(f, args, kwargs)
    def eval(s, e, env):
        if isinstance(e, ast.JoinedStr): return "<str>"
        if isinstance(e, ast.Name) and e.id == 'datetime': return OPAQUE
        if isinstance(e, ast.Attribute):
            b = s.eval(e.value, env)
            if isinstance(b, Opaque): return OPAQUE
            if isinstance(b, (list, Grow, Post)): return ('lmethod', b, e.attr)
            if isinstance(b, Obj) and b.cls == 'UFObj': return ('ufmethod', b, e.attr)
            return super().eval(ast.Attribute(value=_Lit(b), attr=e.attr, ctx=e.ctx), env)
        if isinstance(e, _Lit): return e.v
        if isinstance(e, ast.ListComp):
            g = e.generators[0]; it = s.eval(g.iter, env)
            if isinstance(it, tuple) and it[0] == 'range':
                n = it[1]; tgt = g.target.id
                if isinstance(n, int): return [s.eval(e.elt, {**env, tgt: i}) for i in range(n)]
                return Seq(n, lambda i, e=e, env=env, tgt=tgt: s.eval(e.elt, {**env, tgt: i}))
            if isinstance(it, list): return [s.eval(e.elt, {**env, g.target.id: v}) for v in it]
            raise NotImplementedError("listcomp")
        if isinstance(e, ast.Subscript):
            b = s.eval(e.value, env)
            if isinstance(b, (Seq, Grow, Post)):
                i = s.eval(e.slice, env)
                return s.index(b, i)
        return super().eval(e, env)
    def index(s, b, i):
        if isinstance(b, Seq): return b.fn(i)
        if isinstance(b, Grow):
            c = offset(i)
            if c is None: raise NotImplementedError(f"index {i} of growing list {b.name}")
            j = c - len(b.init)
            if 0 <= j < len(b.app): return b.app[j]
            if j >= len(b.app): raise Raised("IndexError")
            if c not in b.reads:
                shape = b.init[0] if b.init else None
                if shape is None: raise NotImplementedError(f"read of {b.name}[k{c:+d}] before any append, no template")
                b.reads[c] = template(shape, f"{b.name}[k{c:+d}]")
            return b.reads[c]
        raise NotImplementedError
    def binop(s, op, a, b):
        if isinstance(a, Opaque) or isinstance(b, Opaque): return OPAQUE
        if isinstance(a, str) and isinstance(b, str): return "<str>"
        if isinstance(op, ast.Mult) and isinstance(a, list) and not isinstance(b, list):
            if isinstance(b, int): return a * b
            assert len(a) == 1; return Seq(lift(b), lambda i, v=a[0]: v)
        return super().binop(op, a, b)
    def stmt(s, st, env):
        if isinstance(st, ast.For):
            it = s.eval(st.iter, env)
            if isinstance(it, tuple) and it[0] == 'range' and not isinstance(it[1], int):
                return s.generic_loop(st, env, it[1])
            if isinstance(it, tuple) and it[0] == 'range': it = range(it[1])
            if isinstance(it, list) or isinstance(it, range):
                for v in it:
                    s.assign(st.target, v, env); s.block(st.body, env)
                return
            raise NotImplementedError("for over " + repr(it))
        return super().stmt(st, env)
    def generic_loop(s, st, env, n):
        grown = sorted({c.func.value.id for c in ast.walk(st) if isinstance(c, ast.Call) and isinstance(c.func, ast.Attribute)
                        and c.func.attr == 'append' and isinstance(c.func.value, ast.Name)})
        # frame check: no other mutation of lists inside the body
        for c in ast.walk(st):
            if isinstance(c, (ast.Assign, ast.AugAssign)):
                for t in (c.targets if isinstance(c, ast.Assign) else [c.target]):
                    assert not isinstance(t, ast.Subscript), "item assignment inside loop"
            if isinstance(c, ast.Call) and isinstance(c.func, ast.Attribute) and c.func.attr in ('pop', 'insert', 'extend', 'remove', 'clear', 'sort'):
                raise AssertionError("list mutation other than append inside loop")
        init = {L: env[L] for L in grown}
        for L in grown: env[L] = Grow(L, init[L])
        s.assign(st.target, var('k'), env)
        s.pc.append(B('cmp', '>=', var('k'), lift(0))); s.pc.append(B('cmp', '<', var('k'), n))
        s.block(st.body, env)
        s.recurrence = {L: env[L] for L in grown}
        for L in grown:
            g = env[L]
            if g.init and g.app: assert same_shape(g.init[0], g.app[0]), f"shape of {L} changes"
            env[L] = Post(L, len(g.init), n, len(g.app))

class _Lit(ast.AST):
    _fields = ()
    def __init__(s, v): s.v = v

def _len(s, x):
    if isinstance(x, Seq): return x.n
    if isinstance(x, Post): return x.length()
    if isinstance(x, Grow): raise NotImplementedError("len of growing list")
    return len(x)
def _range(s, n): return ('range', n if isinstance(n, int) else lift(n))
def _sum(s, xs):
    r = lift(0)
    for x in xs: r = r + lift(x)
    return r
BUILTINS.update({'len': _len, 'range': _range, 'sum': _sum})
