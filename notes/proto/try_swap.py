"""Feasibility: relabelling symmetry of the real NRTL/UNIQUAC activity coefficients (C06 leaf lemma)."""
import sys, os
sys.path.insert(0, os.path.dirname(__file__))
from ir import *
from symex import *
from try_leaf import component, src
def acts(model, swapped, two_alpha):
    if not swapped:
        nr = Obj('NRTLParameters', dict(g12=var('g12'), g21=var('g21'), alpha12=var('al12'), alpha21=var('al21') if two_alpha else None, a12=var('a12'), a21=var('a21')))
        uq = Obj('UNIQUACParameters', dict(alpha_12=var('ua12'), alpha_21=var('ua21'), beta_12=var('ub12'), beta_21=var('ub21'), z=var('z')))
        m = Obj('Mixture', dict(name='mix', first_component=component('1', 'antoine'), second_component=component('2', 'antoine'), nrtl_params=nr, uniquac_params=uq))
        p = var('x1')
    else:
        nr = Obj('NRTLParameters', dict(g12=var('g21'), g21=var('g12'), alpha12=var('al21') if two_alpha else var('al12'), alpha21=var('al12') if two_alpha else None, a12=var('a21'), a21=var('a12')))
        uq = Obj('UNIQUACParameters', dict(alpha_12=var('ua21'), alpha_21=var('ua12'), beta_12=var('ub21'), beta_21=var('ub12'), z=var('z')))
        m = Obj('Mixture', dict(name='mix', first_component=component('2', 'antoine'), second_component=component('1', 'antoine'), nrtl_params=nr, uniquac_params=uq))
        p = 1 - var('x1')
    def runner(ex):
        comp = ex.construct('Composition', [], dict(p=p, type='molar'))
        return ex.call_function(src.funcs['calculate_activity_coefficients'][1], [], dict(temperature=var('T'), mixture=m, composition=comp, calculation_type=model))
    pre_x = [lambda zz: zz.v('x1') > 0, lambda zz: zz.v('x1') < 1]
    rets = [p for p in paths(src, runner) if p[1][0] == 'return' and feasible(p[0], pre_x)]
    assert len(rets) == 1
    return rets[0][1][1]
for model, two in (('NRTL', False), ('NRTL', True), ('UNIQUAC', False)):
    g = acts(model, False, two); h = acts(model, True, two)
    pre = [lambda zz: zz.v('x1') > 0, lambda zz: zz.v('x1') < 1, lambda zz: zz.v('T') > 0] + [(lambda zz, n=n: zz.v(n) > 0) for n in ('r1', 'r2', 'q1', 'q2', 'p1', 'p2', 'z')]
    prove(f"C06.swap.gamma1[{model},two_alpha={two}]", pre, lambda zz: zz(log(g[0])) == zz(log(h[1])), timeout=120)
    prove(f"C06.swap.gamma2[{model},two_alpha={two}]", pre, lambda zz: zz(log(g[1])) == zz(log(h[0])), timeout=120)
