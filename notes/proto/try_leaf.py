"""Feasibility run: real-source leaf functions -> IR -> obligations (C13, C15, C14, C04)."""
import sys, time, os
sys.path.insert(0, os.path.dirname(__file__))
import z3
from ir import *
from symex import *

src = Source()
R = lift(src.consts['R'])

def component(tag, vp_type):
    return Obj('Component', dict(
        name=f"comp{tag}", molecular_weight=var(f"M{tag}"),
        vapour_pressure_constants=Obj('VaporPressureConstants', dict(a=var(f"vpa{tag}"), b=var(f"vpb{tag}"), c=var(f"vpc{tag}"), type=vp_type)),
        heat_capacity_constants=Obj('HeatCapacityConstants', dict(a=var(f"ca{tag}"), b=var(f"cb{tag}"), c=var(f"cc{tag}"), d=var(f"cd{tag}"))),
        uniquac_constants=Obj('UNIQUACConstants', dict(r=var(f"r{tag}"), q_geometric=var(f"q{tag}"), q_interaction=var(f"p{tag}")))))

def run_method(cls, name, self_obj, *args, **kw):
    return paths(src, lambda ex: ex.call_function(src.method(cls, name), list(args), kw, self_obj=self_obj))
def run_func(name, *args, **kw):
    return paths(src, lambda ex: ex.call_function(src.funcs[name][1], list(args), kw))
def only_return(ps):
    r = [p for p in ps if p[1][0] == 'return' and feasible(p[0])]
    assert len(r) == 1, ps
    return r[0][1][1]

print("== C13 Clausius-Clapeyron (heat[kJ/mol]*1000 == R*T^2*dlnPsat/dT) on the real get_vapor_pressure/get_vaporisation_heat")
Tt = var('T')
for vp in ('antoine', 'frost'):
    c = component('1', vp)
    P = only_return(run_method('Component', 'get_vapor_pressure', c, Tt))
    H = only_return(run_method('Component', 'get_vaporisation_heat', c, Tt))
    lhs = H * 1000; rhs = R * Tt * Tt * D(log(P), 'T')
    pre = [lambda zz: zz.v('T') > 0, lambda zz: zz.v('T') + zz.v('vpc1') != 0]
    prove(f"C13.cc[{vp}]", pre, lambda zz: zz(lhs) == zz(rhs))
c = component('1', 'antoine')
t0, t1, t2 = var('t0'), var('t1'), var('t2')
CH = lambda a, b: only_return(run_method('Component', 'get_cooling_heat', c, a, b))
CP = lambda a: only_return(run_method('Component', 'get_specific_heat', c, a))
prove("C13.cool.additive", [], lambda zz: zz(CH(t0, t1) + CH(t1, t2)) == zz(CH(t0, t2)))
prove("C13.cool.antisym", [], lambda zz: zz(CH(t0, t1)) == zz(-CH(t1, t0)))
prove("C13.cool.empty", [], lambda zz: zz(CH(t0, t0)) == 0)
prove("C13.cool.derivative", [], lambda zz: zz(D(CH(t0, t1), 't0')) == zz(CP(t0)))

print("== C15 composition conversion on the real Composition.to_molar/to_weight (constructor validator executed)")
mix = Obj('Mixture', dict(name='mix', first_component=component('1', 'antoine'), second_component=component('2', 'antoine'),
                          nrtl_params=None, uniquac_params=None))
def conv(p, typ, meth):
    def runner(ex):
        comp = ex.construct('Composition', [], dict(p=p, type=typ))
        return ex.call_function(src.method('Composition', meth), [mix], {}, self_obj=comp)
    return paths(src, runner)
w = var('w')
preM = [lambda zz: zz.v('M1') > 0, lambda zz: zz.v('M2') > 0]
ps = conv(w, 'weight', 'to_molar')
for pc, res, ex in ps:
    print("   path", pc, "->", res[0], res[1].f['p'] if res[0] == 'return' else res[1], "feasible(M>0):", feasible(pc, preM))
ok = [p for p in ps if p[1][0] == 'return'][0]
x_of_w = ok[1][1].f['p']
def rt(ex):
    c1 = ex.construct('Composition', [], dict(p=w, type='weight'))
    c2 = ex.call_function(src.method('Composition', 'to_molar'), [mix], {}, self_obj=c1)
    return ex.call_function(src.method('Composition', 'to_weight'), [mix], {}, self_obj=c2)
ps = paths(src, rt)
for pc, res, ex in ps:
    if res[0] == 'return':
        prove("C15.roundtrip.w->x->w", preM + [lambda zz, pc=pc: z3.And(*[c.z3(zz) for c in pc])], lambda zz: zz(res[1].f['p']) == zz.v('w'))
    else:
        # inner construction must never raise for admissible input: path infeasible
        r = feasible(pc, preM)
        print("C15.noraise path", [str(c) for c in pc], "feasible:", r)

print("== C04 Gibbs-Duhem on the real calculate_activity_coefficients")
def acts(model, alpha21):
    nr = Obj('NRTLParameters', dict(g12=var('g12'), g21=var('g21'), alpha12=var('al12'), alpha21=alpha21, a12=var('a12'), a21=var('a21')))
    uq = Obj('UNIQUACParameters', dict(alpha_12=var('ua12'), alpha_21=var('ua21'), beta_12=var('ub12'), beta_21=var('ub21'), z=var('z')))
    m = Obj('Mixture', dict(name='mix', first_component=component('1', 'antoine'), second_component=component('2', 'antoine'), nrtl_params=nr, uniquac_params=uq))
    def runner(ex):
        comp = ex.construct('Composition', [], dict(p=var('x1'), type='molar'))
        return ex.call_function(src.funcs['calculate_activity_coefficients'][1], [], dict(temperature=var('T'), mixture=m, composition=comp, calculation_type=model))
    return paths(src, runner)
def generalise(t, table):
    """replace x-independent exp atoms by fresh positive variables (sound generalisation)"""
    if t.op in ('c', 'v'): return t
    if t.op == 'exp' and not dep(t, 'x1'):
        k = show(t)
        if k not in table: table[k] = var(f"E{len(table)}")
        return table[k]
    return T(t.op, *[generalise(a, table) for a in t.a])
def summands(t, sign=1):
    if t.op == '+': return summands(t.a[0], sign) + summands(t.a[1], sign)
    if t.op == '-': return summands(t.a[0], sign) + summands(t.a[1], -sign)
    return [(sign, t)]
def total(parts):
    r = lift(0)
    for sg, t in parts: r = r + t if sg > 0 else r - t
    return r
for model, a21 in (('NRTL', None), ('NRTL', var('al21')), ('UNIQUAC', None)):
    ps = acts(model, a21)
    pre_x = [lambda zz: zz.v('x1') > 0, lambda zz: zz.v('x1') < 1]
    rets = [p for p in ps if p[1][0] == 'return' and feasible(p[0], pre_x)]
    print(f"  {model} alpha21={'given' if a21 is not None else None}: {len(ps)} paths, {len(rets)} feasible normal paths on 0<x1<1")
    assert len(rets) == 1
    g1, g2 = rets[0][1][1]
    table = {}
    l1, l2 = generalise(log(g1), table), generalise(log(g2), table)
    pos = [(lambda zz, n=v.a[0]: zz.v(n) > 0) for v in table.values()]
    pre = pre_x + pos
    if model == 'UNIQUAC':
        pre += [(lambda zz, n=n: zz.v(n) > 0) for n in ('r1', 'r2', 'q1', 'q2', 'p1', 'p2', 'z')]
        # mechanical split of the top-level sums by support: summands mentioning a generalised exp atom (tau) vs not
        names = [v.a[0] for v in table.values()]
        istau = lambda t: any(dep(t, n) for n in names)
        s1, s2 = summands(l1), summands(l2)
        for label, sel in (('combinatorial', lambda t: not istau(t)), ('residual', istau)):
            a = total([p for p in s1 if sel(p[1])]); b = total([p for p in s2 if sel(p[1])])
            gd = var('x1') * D(a, 'x1') + (1 - var('x1')) * D(b, 'x1')
            r, mdl = prove(f"C04.gibbs_duhem[{model}.{label}]", pre, lambda zz: zz(gd) == 0, timeout=300)
            if mdl is not None: print("     counterexample:", {str(d): mdl[d] for d in mdl.decls() if not str(d).startswith('/')})
    else:
        gd = var('x1') * D(l1, 'x1') + (1 - var('x1')) * D(l2, 'x1')
        prove(f"C04.gibbs_duhem[{model},alpha21={'given' if a21 is not None else 'None'}]", pre, lambda zz: zz(gd) == 0)
