"""Feasibility: extract the loop recurrence of the real ideal_non_isothermal_process and prove C01/C03 step facts."""
import sys, os, time
sys.path.insert(0, os.path.dirname(__file__))
import z3
from ir import *
from symex import *
from symex_loop import *
from symex_loop import _len

src = Source()
def component(tag):
    return Obj('Component', dict(
        name=f"comp{tag}", molecular_weight=var(f"M{tag}"),
        vapour_pressure_constants=Obj('VaporPressureConstants', dict(a=var(f"vpa{tag}"), b=var(f"vpb{tag}"), c=var(f"vpc{tag}"), type='antoine')),
        heat_capacity_constants=Obj('HeatCapacityConstants', dict(a=var(f"ca{tag}"), b=var(f"cb{tag}"), c=var(f"cc{tag}"), d=var(f"cd{tag}"))),
        uniquac_constants=None))
mix = Obj('Mixture', dict(name='mix', first_component=component('1'), second_component=component('2'),
                          nrtl_params=Obj('NRTLParameters', dict(g12=var('g12'), g21=var('g21'), alpha12=var('al12'), alpha21=None, a12=var('a12'), a21=var('a21'))),
                          uniquac_params=None))
membrane = Obj('Membrane', dict(name='mem', ideal_experiments=Obj('UFObj', dict(name='exps')), diffusion_curve_sets=None, path=None))
pv = Obj('Pervaporation', dict(membrane=membrane, mixture=mix))

# contracts used at call sites (callee bodies are verified separately)
def c_cpf(ex, b):
    leaves = [x for n in ('feed_temperature', 'composition', 'precision', 'permeate_temperature', 'permeate_pressure',
                          'first_component_permeance', 'second_component_permeance', 'calculation_type') for x in flatten(b[n])]
    leaves += flatten(b['self'].f['mixture'])
    return (app('cpf1', *leaves), app('cpf2', *leaves))
def c_get_permeance(ex, b):
    return Obj('Permeance', dict(value=app('perm', b['temperature'], *flatten(b['component'])), units='kg/(m2*h*kPa)'))
LExec.CONTRACTS = {'calculate_partial_fluxes': c_cpf, 'get_permeance': c_get_permeance}

def run(func, perm_T, program, ctype='weight'):
    cond = Obj('Conditions', dict(membrane_area=var('A'), initial_feed_temperature=var('T0'), initial_feed_amount=var('m0'),
                                  initial_feed_composition=Obj('Composition', dict(p=var('x0'), type=ctype)),
                                  permeate_temperature=var('Tp') if perm_T else None, permeate_pressure=None,
                                  temperature_program=Obj('UFObj', dict(name='tp')) if program else None))
    out = []; stack = [[]]
    while stack:
        oracle = stack.pop()
        ex = LExec(src, oracle)
        try:
            res = ('return', ex.call_function(src.method('Pervaporation', func), [], dict(conditions=cond, number_of_steps=var('N'), delta_hours=var('dt'), precision=var('prec'), calculation_type='NRTL'), self_obj=pv))
        except Raised as r:
            res = ('raise', r.exc)
        for i in range(len(oracle), len(ex.taken)): stack.append(ex.taken[:i] + [not ex.taken[i]])
        out.append((ex.pc, res, ex))
    return out

t0 = time.time()
for func in ('ideal_non_isothermal_process', 'ideal_isothermal_process'):
  for perm_T in (False, True):
    for program in (False, True):
        if func == 'ideal_isothermal_process' and program: continue
        ps = run(func, perm_T, program)
        normal = [p for p in ps if p[1][0] == 'return']
        print(f"== {func} perm_T={perm_T} program={program}: {len(ps)} paths, {len(normal)} normal")
        pc, res, ex = normal[0]
        rec = ex.recurrence; model = res[1]
        g = lambda L: rec[L]
        J = g('partial_fluxes').app[0]
        m_k = g('feed_mass').reads[0]; m_next = g('feed_mass').app[0]
        x_k = g('feed_composition').reads[0].f['p']; x_next = g('feed_composition').app[0].f['p']
        Q = g('feed_evaporation_heat').app[0]
        A, dt = var('A'), var('dt')
        pre = [lambda zz, pc=pc: z3.And(*[c.z3(zz) for c in pc if isinstance(c, B)])]
        prove("  C01.step.total_mass", pre, lambda zz: zz(m_next) == zz(m_k - (J[0] + J[1]) * A * dt))
        prove("  C01.step.component_mass", pre + [lambda zz: zz(m_next) != 0], lambda zz: zz(x_next * m_next) == zz(x_k * m_k - J[0] * A * dt))
        # C03: own latent heat of each component at T_k
        if func == 'ideal_non_isothermal_process':
            T_k = g('feed_temperature').reads[0]
        else:
            T_k = var('T0')
        def h(tag, comp):
            e2 = LExec(src, [])
            return e2.call_function(src.method('Component', 'get_vaporisation_heat'), [T_k], {}, self_obj=comp) / comp.f['molecular_weight'] * 1000
        spec_Q = h('1', mix.f['first_component']) * J[0] * A * dt + h('2', mix.f['second_component']) * J[1] * A * dt
        r, mdl = prove("  C03.step.evaporation_heat", pre + [lambda zz: zz.v('M1') > 0, lambda zz: zz.v('M2') > 0, lambda zz: zz(T_k) > 0], lambda zz: zz(Q) == zz(spec_Q))
        if func == 'ideal_non_isothermal_process':
            T_next = g('feed_temperature').app[0]
            if program:
                print("  T_next =", T_next)
            else:
                def cp(comp):
                    e2 = LExec(src, [])
                    return e2.call_function(src.method('Component', 'get_specific_heat'), [T_k], {}, self_obj=comp) / comp.f['molecular_weight']
                spec_T = T_k - spec_Q / (m_k * (x_k * cp(mix.f['first_component']) + (1 - x_k) * cp(mix.f['second_component'])))
                prove("  C03.step.self_cooling", pre + [lambda zz: zz.v('M1') > 0, lambda zz: zz.v('M2') > 0], lambda zz: zz(T_next) == zz(spec_T))
        # C08: fluxes are the solver applied to the reported state
        print("  J1 =", show(J[0])[:140], "...")
        # lengths after pops
        print("  lengths:", {n: (show(_len(ex, v)) if isinstance(v, (Seq, Post)) else (len(v) if isinstance(v, list) else '-')) for n, v in model.f.items() if isinstance(v, (Seq, Post, list))})
        print("  time[k] =", show(model.f['time'].fn(var('k'))))
print("total", round(time.time() - t0, 1), "s")
