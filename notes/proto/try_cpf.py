"""Feasibility: while-loop cut + lock-step (relational) proof of the swap lemma for the real calculate_partial_fluxes.

copy a: (mixture, x, P1, P2)      copy b: (relabelled mixture, 1-x, P2, P1)      claim: fluxes_b == reversed(fluxes_a)
get_partial_pressures is called by contract (uninterpreted pair gpp1/gpp2 of its argument leaves) and its
already-proved swap lemma is instantiated at the applications that occur.
"""
import sys, os, time, itertools, ast
sys.path.insert(0, os.path.dirname(__file__))
import z3
from ir import *
from symex import *
from symex_loop import *
from symex_loop import _len

src = Source()

def component(tag):
    return Obj('Component', dict(name=f"comp{tag}", molecular_weight=var(f"M{tag}"),
        vapour_pressure_constants=Obj('VaporPressureConstants', dict(a=var(f"vpa{tag}"), b=var(f"vpb{tag}"), c=var(f"vpc{tag}"), type='antoine')),
        heat_capacity_constants=Obj('HeatCapacityConstants', dict(a=var(f"ca{tag}"), b=var(f"cb{tag}"), c=var(f"cc{tag}"), d=var(f"cd{tag}"))),
        uniquac_constants=None))
def mixture(swapped):
    a, b = ('2', '1') if swapped else ('1', '2')
    nr = dict(g12=var('g12'), g21=var('g21'), alpha12=var('al12'), alpha21=None, a12=var('a12'), a21=var('a21'))
    if swapped: nr = dict(g12=var('g21'), g21=var('g12'), alpha12=var('al12'), alpha21=None, a12=var('a21'), a21=var('a12'))
    return Obj('Mixture', dict(name='mix', first_component=component(a), second_component=component(b),
                               nrtl_params=Obj('NRTLParameters', nr), uniquac_params=None))
def sigma_leaves(mix_leaves_of):  # not needed: we build sigma(mixture) structurally
    pass

GPP_APPS = []      # (tag, T, mixture Obj, composition Obj, ctype)
def c_gpp(ex, b):
    leaves = flatten(b['temperature']) + flatten(b['mixture']) + flatten(b['composition']) + flatten(b['calculation_type'])
    GPP_APPS.append((b['temperature'], b['mixture'], b['composition'], b['calculation_type'], leaves))
    return (app('gpp1', *leaves), app('gpp2', *leaves))

class WExec(LExec):
    FUNC_CONTRACTS = {'get_partial_pressures': c_gpp}
    def apply(s, f, args, kwargs):
        if isinstance(f, tuple) and f[0] == 'func' and f[1].name in s.FUNC_CONTRACTS:
            return s.FUNC_CONTRACTS[f[1].name](s, s.bind(f[1], args, kwargs, None))
        return super().apply(f, args, kwargs)
    def stmt(s, st, env):
        if isinstance(st, ast.Try):
            # body; handlers by class name ("except ():" matches nothing); else-branch when no exception
            try:
                s.block(st.body, env)
            except Raised as r:
                for h in st.handlers:
                    hn = ast.unparse(h.type) if h.type is not None else 'BaseException'
                    if hn != '()' and (hn == r.exc or hn in ('Exception', 'BaseException')):
                        s.block(h.body, env); return
                raise
            s.block(st.orelse, env)
            return
        return super().stmt(st, env)
def _sum(s, xs):
    r = lift(0)
    for x in (xs.xs if isinstance(xs, Vec) else xs): r = r + lift(x)
    return r
def _abs(s, x): return T('abs', lift(x))
def _max(s, a, b): return T('max', lift(a), lift(b))
BUILTINS.update({'sum': _sum, 'abs': _abs, 'max': _max})
# abs / max in z3 emission and evaluation
_oldcall = Z.__call__
def _zcall(s, t):
    if t.op == 'abs':
        a = s(t.a[0]); return z3.If(a >= 0, a, -a)
    if t.op == 'max':
        a, b = s(t.a[0]), s(t.a[1]); return z3.If(a >= b, a, b)
    return _oldcall(s, t)
Z.__call__ = _zcall

fdef = src.method('Pervaporation', 'calculate_partial_fluxes')
widx = [i for i, st in enumerate(fdef.body) if isinstance(st, ast.While)][0]
wnode = fdef.body[widx]

def enumerate_paths(runner):
    out = []; stack = [[]]
    while stack:
        oracle = stack.pop()
        ex = WExec(src, oracle)
        try:
            res = runner(ex)
        except Raised as r:
            res = ('raise', r.exc)
        except Ret as r:
            res = ('return', r.v)
        for i in range(len(oracle), len(ex.taken)): stack.append(ex.taken[:i] + [not ex.taken[i]])
        out.append((ex.pc, res))
    return out

def copy_inputs(tag, swapped, mode):
    x = var('x')
    pv = Obj('Pervaporation', dict(membrane=Obj('Membrane', dict(name='mem', ideal_experiments=None, diffusion_curve_sets=None, path=None)), mixture=mixture(swapped)))
    P1 = Obj('Permeance', dict(value=var('P1'), units='kg/(m2*h*kPa)')); P2 = Obj('Permeance', dict(value=var('P2'), units='kg/(m2*h*kPa)'))
    return dict(self=pv, feed_temperature=var('T'), composition=Obj('Composition', dict(p=(1 - x) if swapped else x, type='weight')),
                precision=var('prec'), permeate_temperature=var('Tp') if mode == 'temperature' else None,
                permeate_pressure=var('pp') if mode == 'pressure' else None,
                first_component_permeance=P2 if swapped else P1, second_component_permeance=P1 if swapped else P2, calculation_type='NRTL')

def segments(tag, swapped, mode):
    base = copy_inputs(tag, swapped, mode)
    # S1: entry -> loop head
    def s1(ex):
        env = dict(base); ex.block(fdef.body[:widx], env); return ('head', env)
    # S2/S3 from a havoc'd head state
    def from_head(ex):
        env = dict(base)
        env['initial_fluxes'] = OPAQUE
        env['permeate_composition'] = Obj('Composition', dict(p=var(f'y_{tag}'), type='weight'))
        env['d'] = var(f'd_{tag}')
        if ex.decide(ex.truth(ex.eval(wnode.test, env))):
            ex.block(wnode.body, env); return ('head', env)
        ex.block(fdef.body[widx + 1:], env); return ('fallthrough', None)
    return enumerate_paths(s1), enumerate_paths(from_head)

def pcz(pc): return lambda zz: z3.And(*[c.z3(zz) for c in pc if isinstance(c, B)]) if pc else z3.BoolVal(True)
def gpp_swap_instances(zz, pre_z3):
    """(separately proved) swap lemma of get_partial_pressures applied by *rewriting*: once the argument relation
    of a pair of applications is discharged (own tiny obligation), both applications of copy b are mapped onto the
    variables of copy a's applications (Ackermann-style), so the main query is UF-free nonlinear real arithmetic"""
    zz.appmap = {}
    def rep(t):
        k = show(t)
        if k not in zz.appmap: zz.appmap[k] = z3.Real("@app%d" % len(zz.appmap))
        return zz.appmap[k]
    for (Ta, ma, ca, cta, La), (Tb, mb, cb, ctb, Lb) in itertools.product(GPP_APPS, GPP_APPS):
        if ma.f['first_component'].f['name'] == 'comp1' and mb.f['first_component'].f['name'] == 'comp2' and cta == ctb:
            if show(app('gpp1', *Lb)) in zz.appmap: continue
            rel = z3.And(zz(lift(Ta)) == zz(lift(Tb)), zz(lift(cb.f['p'])) == 1 - zz(lift(ca.f['p'])))
            g = z3.Solver(); g.set('timeout', 5000); g.add(*pre_z3); g.add(z3.Not(rel))
            if g.check() == z3.unsat:
                zz.appmap[show(app('gpp1', *Lb))] = rep(app('gpp2', *La))
                zz.appmap[show(app('gpp2', *Lb))] = rep(app('gpp1', *La))
    return []
_old2 = Z.__call__
def _zcall2(s, t):
    if t.op == 'app' and hasattr(s, 'appmap'):
        k = show(t)
        if k not in s.appmap: s.appmap[k] = z3.Real("@app%d" % len(s.appmap))
        return s.appmap[k]
    return _old2(s, t)
Z.__call__ = _zcall2

t0 = time.time(); total = 0
for mode in ('vacuum', 'temperature', 'pressure'):
    GPP_APPS.clear()
    a1, a2 = segments('a', False, mode); b1, b2 = segments('b', True, mode)
    print(f"== mode={mode}: paths S1 a/b = {len(a1)}/{len(b1)}, from-head a/b = {len(a2)}/{len(b2)}, gpp applications: {len(GPP_APPS)}")
    ya, yb, da, db = var('y_a'), var('y_b'), var('d_a'), var('d_b')
    common = [lambda zz: zz.v('M1') > 0, lambda zz: zz.v('M2') > 0]
    inv = [lambda zz: zz(yb) == 1 - zz(ya), lambda zz: zz(db) == zz(da), lambda zz: z3.And(zz(ya) >= 0, zz(ya) <= 1)]
    def check(name, pre, goal):
        global total
        z0 = Z(); p0 = [f(z0) for f in pre]          # first pass (UF form) only to discharge the argument relations
        zz = Z(); zz.appmap = {}
        tmp = Z(); tmp.vars = z0.vars; tmp.at = z0.at; tmp.side = z0.side; tmp.ufs = z0.ufs
        gpp_swap_instances(tmp, p0)
        zz.appmap = {}
        # rebuild the map with fresh representatives in the emission context
        names = {}
        for k, v in tmp.appmap.items():
            names.setdefault(str(v), z3.Real("@g%d" % len(names))); zz.appmap[k] = names[str(v)]
        g = goal(zz); p = [f(zz) for f in pre]
        s = z3.Solver(); s.set('timeout', 60000); s.add(*p); s.add(*zz.side); s.add(z3.Not(g))
        t = time.time(); r = s.check(); total += 1
        cover = ''
        if 'infeasible' not in name:
            c = z3.Solver(); c.set('timeout', 20000); c.add(*p); c.add(*zz.side); cover = f" cover={c.check()}"
        print(f"   {name}: {'discharged' if r == z3.unsat else r} ({time.time() - t:.2f}s){cover}")
    # initiation + control agreement
    for (pa, ra), (pb, rb) in itertools.product(a1, b1):
        kind = (ra[0], rb[0])
        if kind == ('head', 'head'):
            ea, eb = ra[1], rb[1]
            check("init   y_b = 1 - y_a, d equal", common + [pcz(pa), pcz(pb)],
                  lambda zz: z3.And(zz(eb['permeate_composition'].f['p']) == 1 - zz(ea['permeate_composition'].f['p']), zz(lift(eb['d'])) == zz(lift(ea['d']))))
        elif kind[0] != kind[1]:
            check(f"init   control agreement {kind} infeasible", common + [pcz(pa), pcz(pb)], lambda zz: z3.BoolVal(False))
    for (pa, ra), (pb, rb) in itertools.product(a2, b2):
        kind = (ra[0], rb[0])
        if kind == ('head', 'head'):
            ea, eb = ra[1], rb[1]
            yrel = lambda zz: zz(eb['permeate_composition'].f['p']) == 1 - zz(ea['permeate_composition'].f['p'])
            check("pres   y_b = 1 - y_a", common + inv + [pcz(pa), pcz(pb)], yrel)
            check("pres   d equal (given y relation)", common + inv + [yrel], lambda zz: zz(lift(eb['d'])) == zz(lift(ea['d'])))
        elif kind == ('return', 'return'):
            fa, fb = ra[1], rb[1]
            check("exit   fluxes_b == reversed(fluxes_a)", common + inv + [pcz(pa), pcz(pb)],
                  lambda zz: z3.And(zz(fb[0]) == zz(fa[1]), zz(fb[1]) == zz(fa[0])))
            check("exit   SANITY (must fail) fluxes_b == fluxes_a", common + inv + [pcz(pa), pcz(pb)],
                  lambda zz: z3.And(zz(fb[0]) == zz(fa[0]), zz(fb[1]) == zz(fa[1])))
        elif kind[0] != kind[1] or (kind[0] == 'raise' and ra[1] != rb[1]):
            check(f"pres   control agreement {kind} infeasible", common + inv + [pcz(pa), pcz(pb)], lambda zz: z3.BoolVal(False))
print(f"{total} obligations, {time.time() - t0:.1f}s")
