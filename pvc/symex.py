"""pvc symbolic executor: runs the bodies of the real PyVaporation functions (ast) on symbolic values.

Path enumeration by re-execution under a decision oracle; exceptions are path outcomes; calls to functions
under contract are replaced by their contract (modular call rule); append-only loops over a symbolic range are
executed once for a generic index (recurrence extraction); heap objects carry an ownership tag.
See DESIGN.md 2.1-2.8.
"""
import ast, sys, hashlib
from fractions import Fraction
import z3
from . import ir
from .ir import (T, B, lift, var, app, exp, log, power, cmp, eq, ne, band, bor, bnot, blit, tob, ite, tabs, tmax, tmin,
                 TRUE, FALSE, is_num, show, brief)
from .source import Source, Unsupported

sys.setrecursionlimit(max(sys.getrecursionlimit(), 20000))


# ================================================================================================ values
class Obj:
    """attrs record / plain instance"""
    __slots__ = ("cls", "f", "owner", "tag")

    def __init__(s, cls, fields, owner='fresh', tag=None):
        s.cls = cls; s.f = fields; s.owner = owner; s.tag = tag

    def __repr__(s): return "%s(%s)" % (s.cls, ", ".join("%s=%r" % kv for kv in s.f.items()))


class PList:
    """python list with concrete length"""
    __slots__ = ("items", "owner", "tag")

    def __init__(s, items, owner='fresh', tag=None): s.items = list(items); s.owner = owner; s.tag = tag
    def __repr__(s): return "PList%r" % (s.items,)


class Seq:
    """list of symbolic length n whose element i is fn(i)  (comprehension over range(n), [x]*n, external symbolic list)"""
    __slots__ = ("n", "fn", "owner", "tag", "conds", "parts")

    def __init__(s, n, fn, owner='fresh', tag=None): s.n = n; s.fn = fn; s.owner = owner; s.tag = tag; s.conds = None; s.parts = None
    def __repr__(s): return "Seq(len=%s)" % (s.n,)


class Grow:
    """list inside the generic iteration k of an append-only loop"""
    __slots__ = ("name", "init", "app", "reads", "owner", "tag", "len0_sym")

    def __init__(s, name, init, owner='fresh'):
        s.name = name; s.init = list(init); s.app = []; s.reads = {}; s.owner = owner; s.tag = None

    def __repr__(s): return "Grow(%s)" % s.name


class Post:
    """list after the loop: len0 + n*a elements, minus trailing pops"""
    __slots__ = ("name", "len0", "n", "a", "pops", "owner", "tag", "grow", "conds", "pure")

    def __init__(s, name, len0, n, a, grow, owner='fresh'):
        s.name = name; s.len0 = len0; s.n = n; s.a = a; s.pops = 0; s.owner = owner; s.tag = None; s.grow = grow
        s.conds = None; s.pure = False

    def length(s): return lift(s.len0 - s.pops) + s.n * s.a
    def __repr__(s): return "Post(%s)" % s.name


class PDict(dict):
    """dict with an ownership tag (module-level constants are 'global')"""
    owner = 'fresh'; tag = None; holder = None


class Vec:
    """small numpy array of terms (1-d)"""
    __slots__ = ("xs",)

    def __init__(s, xs): s.xs = list(xs)
    def __repr__(s): return "Vec%r" % (s.xs,)


class Opaque:
    """value the model does not interpret (strings built at run time, datetime, paths)"""
    def __init__(s, what="opaque"): s.what = what
    def __repr__(s): return "<%s>" % s.what


NAN = Opaque("NaN")        # the not-a-number cell of the persistence model (pvc.iomodel); compares unequal to everything


class Fn:
    """callable value: kind in lambda/func/method/class/builtin/bound_builtin"""
    __slots__ = ("kind", "node", "env", "self", "name", "py")

    def __init__(s, kind, node=None, env=None, self=None, name=None, py=None):
        s.kind = kind; s.node = node; s.env = env; s.self = self; s.name = name; s.py = py

    def __repr__(s): return "Fn(%s %s)" % (s.kind, s.name or getattr(s.node, 'name', ''))


class ModRef:
    def __init__(s, name): s.name = name
    def __repr__(s): return "<module %s>" % s.name


class Raised(Exception):
    def __init__(s, exc, msg="", node=None): s.exc = exc; s.msg = msg; s.node = node
    def __str__(s): return "Raised(%s)" % s.exc


class Ret(Exception):
    def __init__(s, v): s.v = v


class Infeasible(Exception):
    """current path contradicts its own path condition (pruned)"""


# ================================================================================================ feasibility
def z3_check(formulas, timeout_ms=5000):
    from .solve import Z
    zz = Z(); s = z3.Solver(); s.set('timeout', timeout_ms)
    for f in formulas:
        f = tob(f)
        if f is FALSE: return z3.unsat
        s.add(zz.b(f))
    s.add(*zz.side)
    return s.check()


# ================================================================================================ executor
class Exec:
    def __init__(s, src, oracle=(), contracts=None, prune=True):
        s.src = src; s.oracle = list(oracle); s.taken = []; s.pc = []
        s.contracts = contracts or {}
        s.requires = []          # (label, pc snapshot, formula, meta) obligations emitted at call sites
        s.abnormal = []          # (pc snapshot, reason) exits the real-number model cannot follow (division by zero ...)
        s.ext_writes = []        # (pc snapshot, description) writes to caller-owned / global objects
        s.calls = []             # log of contract applications (name, args summary)
        s.loops = []             # recurrence records of generic loops
        s.notes = []
        s.prune = prune
        s.fresh_n = 0
        s.speculative = 0
        s.stack = []             # function names (recursion guard)
        s.while_cut = None       # hook(ex, stmt, env) for `while` statements
        s.assumed = []           # formulas assumed from callee postconditions (subset of pc, for reporting)

    # ------------------------------------------------------------------ path condition
    def decide(s, c, node=None):
        if isinstance(c, bool): return c
        c = tob(c)
        if c.op == 'lit': return c.a[0]
        if s.speculative: raise _NoFork()
        i = len(s.taken)
        if i < len(s.oracle):
            d = s.oracle[i]
        else:
            d = True
            if s.prune:
                # prefer a feasible branch; prune the other if infeasible
                rt = z3_check(s.pc + [c], 2000)
                if rt == z3.unsat:
                    d = False
                    s.taken.append(('forced', d)); s.pc.append(bnot(c)); return d
                rf = z3_check(s.pc + [bnot(c)], 2000)
                if rf == z3.unsat:
                    s.taken.append(('forced', True)); s.pc.append(c); return True
        if isinstance(d, tuple): d = d[1]
        s.taken.append(d)
        s.pc.append(c if d else bnot(c))
        return d

    def assume(s, f, why=None):
        f = tob(f)
        if f is TRUE: return
        s.pc.append(f); s.assumed.append((why, f))

    def require(s, label, f, meta=None):
        f = tob(f)
        s.requires.append((label, list(s.pc), f, dict(meta or {})))

    def fresh(s, base, sort='R'):
        s.fresh_n += 1
        return var("%s!%d" % (base, s.fresh_n), sort)

    def snapshot(s): return list(s.pc)

    # ------------------------------------------------------------------ name resolution
    def lookup(s, name, env, node):
        if name in env: return env[name]
        path = env.get('__path__')
        if path is not None:
            if (path, name) in s.src.funcs: return Fn('func', s.src.funcs[(path, name)], name=name)
            if (path, name) in s.src.consts: return s.module_const(path, name)
        if name in s.src.classes: return Fn('class', name=name)
        if name in s.src.gfuncs:
            f = s.src.func(name)
            return Fn('func', f, name=name)
        if name in s.src.gconsts and len(s.src.gconsts[name]) == 1:
            p, v = s.src.gconsts[name][0]
            return s.module_const(p, name)
        if name in BUILTINS: return Fn('builtin', name=name, py=BUILTINS[name])
        if name in ('numpy', 'optimize', 'pandas', 'joblib', 'json', 'datetime', 'attr', 'typing', 'Path', 'sys', 'math', 'logging', 'warnings'): return ModRef(name)
        if name == '__name__': return 'pyvaporation'
        raise Unsupported("name %s" % name, node, path)

    def module_const(s, path, name):
        """module-level constant; mutable ones (dict/list/set displays) are ONE shared object owned by the module ('global'):
        a write to it is hidden state"""
        node = s.src.consts[(path, name)]
        if isinstance(node, (ast.Dict, ast.List, ast.Set, ast.ListComp, ast.DictComp)):
            cache = s.__dict__.setdefault('_gconst', {})
            if (path, name) not in cache:
                v = s.eval(node, {'__path__': path})
                if isinstance(v, dict):
                    d = PDict(v); d.owner = 'global'; d.tag = "module constant %s" % name; v = d
                elif isinstance(v, PList): v.owner = 'global'; v.tag = "module constant %s" % name
                cache[(path, name)] = v
            return cache[(path, name)]
        return s.eval(node, {'__path__': path})

    # ------------------------------------------------------------------ calls
    def bind(s, fdef, args, kwargs, self_obj=None, cls=None, path=None):
        env = {'__path__': path or s.src.path_of(fdef)}
        a = fdef.args
        if a.vararg or a.kwarg or a.kwonlyargs or a.posonlyargs:
            raise Unsupported("signature of %s" % fdef.name, fdef, env['__path__'])
        params = [p.arg for p in a.args]
        defaults = a.defaults; dstart = len(params) - len(defaults)
        pos = list(args)
        if self_obj is not None: pos = [self_obj] + pos
        elif cls is not None: pos = [Fn('class', name=cls)] + pos
        if len(pos) > len(params): raise Raised('TypeError', "too many positional arguments for %s" % fdef.name)
        for k in kwargs:
            if k not in params: raise Raised('TypeError', "unexpected keyword %s for %s" % (k, fdef.name))
        for i, p in enumerate(params):
            if i < len(pos):
                if p in kwargs: raise Raised('TypeError', "multiple values for %s" % p)
                env[p] = pos[i]
            elif p in kwargs: env[p] = kwargs[p]
            elif i >= dstart: env[p] = s.eval(defaults[i - dstart], {'__path__': env['__path__']})
            else: raise Raised('TypeError', "missing argument %s for %s" % (p, fdef.name))
        return env

    def qualname(s, fdef, self_obj=None, cls=None):
        c = self_obj.cls if isinstance(self_obj, Obj) else cls
        if c is not None:
            # method defined on class c?
            if s.src.method(c, fdef.name) is fdef: return "%s.%s" % (c, fdef.name)
        for cn, (p, cd) in s.src.classes.items():
            if fdef in cd.body: return "%s.%s" % (cn, fdef.name)
        path = s.src.path_of(fdef)
        if len(s.src.gfuncs.get(fdef.name, [])) > 1: return "%s:%s" % (path.split('/')[-1], fdef.name)
        return fdef.name

    def call_function(s, fdef, args, kwargs, self_obj=None, cls=None, inline=False):
        qn = s.qualname(fdef, self_obj, cls)
        env = s.bind(fdef, args, kwargs, self_obj, cls)
        if not inline and qn in s.contracts:
            b = {k: v for k, v in env.items() if k != '__path__'}
            s.calls.append((qn, b))
            return s.contracts[qn](s, b)
        if len(s.stack) > 40: raise Unsupported("call depth (recursion?) at %s" % qn, fdef)
        s.stack.append(qn)
        try:
            s.block(fdef.body, env)
        except Ret as r:
            return r.v
        finally:
            s.stack.pop()
        return None

    def construct(s, cls, args, kwargs):
        qn = "%s.__init__" % cls
        if qn in s.contracts:
            return s.contracts[qn](s, dict(args=args, kwargs=kwargs))
        if not s.src.is_attrs(cls):
            init = s.src.method(cls, '__init__')
            if init is None and not args and not kwargs: return Obj(cls, {})
            raise Unsupported("constructor of non-attrs class %s" % cls)
        fields = s.src.attrs_fields(cls)
        path = s.src.classes[cls][0]
        init_fields = [f for f in fields if f[4] != 'noinit']
        names = [f[0].lstrip('_') for f in init_fields]
        if len(args) > len(init_fields): raise Raised('TypeError', "%s: too many arguments" % cls)
        for k in kwargs:
            if k not in names: raise Raised('TypeError', "%s: unexpected keyword %s" % (cls, k))
        vals = {}
        pos = 0
        for (name, d, v, c, has) in fields:
            if has == 'noinit':
                x = s.eval(d, {'__path__': path}) if d is not None else None
            else:
                if pos < len(args): x = args[pos]
                elif name.lstrip('_') in kwargs: x = kwargs[name.lstrip('_')]
                elif has: x = s.eval(d, {'__path__': path})
                else: raise Raised('TypeError', "%s: missing %s" % (cls, name))
                pos += 1
            if c is not None: x = s.apply(s.eval(c, {'__path__': path}), [x], {})
            vals[name] = x
        o = Obj(cls, vals)
        for (name, d, v, c, has) in fields:
            if v is not None: s.apply(s.eval(v, {'__path__': path}), [o, Opaque('attribute'), vals[name]], {})
        pi = s.src.method(cls, "__attrs_post_init__")
        if pi is not None: s.call_function(pi, [], {}, self_obj=o)
        return o

    def apply(s, f, args, kwargs, node=None):
        if isinstance(f, Opaque): return Opaque(f.what + "()")
        if isinstance(f, ModRef) and f.name == 'Path' and len(args) == 1 and not kwargs:
            from . import iomodel
            return iomodel.to_path(args[0])
        if not isinstance(f, Fn):
            if isinstance(f, Obj):
                m = s.src.method(f.cls, '__call__')
                if m is not None: return s.call_function(m, args, kwargs, self_obj=f)
            raise Unsupported("call of %r" % (f,), node)
        k = f.kind
        if k == 'lambda':
            env = dict(f.env)
            ps = [a.arg for a in f.node.args.args]
            if len(ps) != len(args) or kwargs: raise Unsupported("lambda call arity", f.node)
            for p, a in zip(ps, args): env[p] = a
            return s.eval(f.node.body, env)
        if k == 'closure':
            # nested def: free names are read from the defining environment as it is at call time, writes stay local
            env = dict(f.env)
            env.update(s.bind(f.node, args, kwargs, path=f.env.get('__path__')))
            if len(s.stack) > 40: raise Unsupported("call depth (recursion?) at nested %s" % f.node.name, f.node)
            s.stack.append("<nested %s>" % f.node.name)
            try:
                s.block(f.node.body, env)
            except Ret as r:
                return r.v
            finally:
                s.stack.pop()
            return None
        if k == 'func': return s.call_function(f.node, args, kwargs)
        if k == 'method': return s.call_function(f.node, args, kwargs, self_obj=f.self)
        if k == 'classmethod': return s.call_function(f.node, args, kwargs, cls=f.name)
        if k == 'staticmethod': return s.call_function(f.node, args, kwargs)
        if k == 'class': return s.construct(f.name, args, kwargs)
        if k == 'builtin': return f.py(s, *args, **kwargs)
        if k == 'listmethod': return s.list_method(f.self, f.name, args, kwargs, node)
        raise Unsupported("call kind %s" % k, node)

    # ------------------------------------------------------------------ heap writes
    def note_write(s, target, what):
        owner = getattr(target, 'owner', 'fresh')
        if owner != 'fresh':
            s.ext_writes.append((list(s.pc), "%s of %s object %s" % (what, owner, getattr(target, 'tag', None) or type(target).__name__)))

    def list_method(s, lst, name, args, kwargs, node):
        if name == 'append':
            s.note_write(lst, 'append')
            if isinstance(lst, Grow): lst.app.append(args[0])
            elif isinstance(lst, PList): lst.items.append(args[0])
            else: raise Unsupported("append to %r" % lst, node)
            return None
        if name == 'pop':
            s.note_write(lst, 'pop')
            if args not in ([-1], []): raise Unsupported("pop(%r)" % (args,), node)
            if isinstance(lst, Post):
                lst.pops += 1; return Opaque("popped look-ahead element")
            if isinstance(lst, PList):
                if not lst.items: raise Raised('IndexError')
                return lst.items.pop(-1)
            if isinstance(lst, Seq):
                if not s.decide(cmp('>', lst.n, 0), node): raise Raised('IndexError')
                lst.n = lst.n - 1
                return Opaque("popped element")
            raise Unsupported("pop on %r" % lst, node)
        if name == 'extend' and len(args) == 1 and isinstance(args[0], (PList, tuple, list)) and not kwargs:
            for x in (args[0].items if isinstance(args[0], PList) else args[0]): s.list_method(lst, 'append', [x], {}, node)        # extend by a literal list = appends
            return None
        if name in ('extend', 'insert', 'remove', 'clear', 'sort', 'reverse'):
            s.note_write(lst, name)
            raise Unsupported("list.%s" % name, node)
        if name == 'copy' and isinstance(lst, PList): return PList(lst.items)
        if name == 'tolist': return Seq(lst.n, lst.fn, tag=lst.tag) if isinstance(lst, Seq) else PList(lst.items) if isinstance(lst, PList) else lst
        raise Unsupported("list method %s" % name, node)

    # ------------------------------------------------------------------ statements
    def block(s, stmts, env):
        for st in stmts: s.stmt(st, env)

    def stmt(s, st, env):
        if isinstance(st, ast.Expr):
            if isinstance(st.value, ast.Constant): return          # docstring / string statement
            s.eval(st.value, env); return
        if isinstance(st, ast.FunctionDef):
            if st.decorator_list: raise Unsupported("decorated nested function", st, env.get('__path__'))
            for n in ast.walk(st):
                if isinstance(n, (ast.Nonlocal, ast.Global, ast.Yield, ast.YieldFrom)): raise Unsupported("nonlocal/global/yield in nested function", n, env.get('__path__'))
            env[st.name] = Fn('closure', st, env=env)
            return
        if isinstance(st, ast.Return): raise Ret(s.eval(st.value, env) if st.value is not None else None)
        if isinstance(st, ast.Assign):
            v = s.eval(st.value, env)
            for t in st.targets: s.assign(t, v, env)
            return
        if isinstance(st, ast.AnnAssign):
            if st.value is not None: s.assign(st.target, s.eval(st.value, env), env)
            return
        if isinstance(st, ast.AugAssign):
            cur = s.eval(_load(st.target), env)
            if isinstance(st.op, ast.Add) and isinstance(cur, (PList, Grow, Post)):
                add = s.eval(st.value, env)
                if isinstance(add, (PList, tuple, list)):
                    # `lst += [a, b]` extends the list object in place (aliases keep seeing it): the same as appends
                    for x in (add.items if isinstance(add, PList) else add): s.list_method(cur, 'append', [x], {}, st)
                    return
                raise Unsupported("list += %r" % (add,), st, env.get('__path__'))
            v = s.binop(st.op, cur, s.eval(st.value, env), st)
            s.assign(st.target, v, env)
            return
        if isinstance(st, ast.If):
            if s.decide(s.truth(s.eval(st.test, env), st), st): s.block(st.body, env)
            else: s.block(st.orelse, env)
            return
        if isinstance(st, ast.Raise):
            e = st.exc
            if e is None: raise Unsupported("bare raise", st)
            name = ast.unparse(e.func) if isinstance(e, ast.Call) else ast.unparse(e)
            raise Raised(name, node=st)
        if isinstance(st, ast.Delete):
            # `del lst[-1]` is lst.pop(-1) without using the value; other deletions are outside the subset
            for t in st.targets:
                if isinstance(t, ast.Subscript) and isinstance(t.slice, ast.UnaryOp) and isinstance(t.slice.op, ast.USub) and isinstance(t.slice.operand, ast.Constant) and t.slice.operand.value == 1:
                    s.list_method(s.eval(t.value, env), 'pop', [-1], {}, st)
                else: raise Unsupported("del statement other than `del lst[-1]`", st, env.get('__path__'))
            return
        if isinstance(st, ast.Continue): raise ContinueLoop()
        if isinstance(st, ast.Pass): return
        if isinstance(st, ast.Try):
            if st.finalbody: raise Unsupported("try/finally", st)
            try:
                s.block(st.body, env)
            except Raised as r:
                for h in st.handlers:
                    if _handler_matches(h, r.exc):
                        if h.name: env[h.name] = Opaque("exception")
                        s.block(h.body, env); return
                raise
            s.block(st.orelse, env)
            return
        if isinstance(st, ast.Assert):
            if not s.decide(s.truth(s.eval(st.test, env), st), st): raise Raised("AssertionError", node=st)
            return
        if isinstance(st, ast.With):
            # `with open(...) as f:` of the persistence model: the body runs with f bound; closing has no modelled effect
            for it in st.items:
                v = s.eval(it.context_expr, env)
                if not (isinstance(v, Obj) and v.cls == '$File'): raise Unsupported("with statement on %r" % (v,), st, env.get('__path__'))
                if it.optional_vars is not None: s.assign(it.optional_vars, v, env)
            s.block(st.body, env)
            return
        if isinstance(st, ast.For): return s.for_stmt(st, env)
        if isinstance(st, ast.While):
            if s.while_cut is not None: return s.while_cut(s, st, env)
            raise Unsupported("while loop without a cut/invariant", st, env.get('__path__'))
        if isinstance(st, (ast.Import, ast.ImportFrom)): return
        if isinstance(st, (ast.Global, ast.Nonlocal)): raise Unsupported("global/nonlocal statement (hidden state)", st, env.get('__path__'))
        raise Unsupported("statement %s" % type(st).__name__, st, env.get('__path__'))

    def assign(s, t, v, env):
        if isinstance(t, ast.Name): env[t.id] = v
        elif isinstance(t, ast.Attribute):
            o = s.eval(t.value, env)
            if not isinstance(o, Obj): raise Unsupported("attribute assignment on %r" % (o,), t)
            s.note_write(o, "assignment to .%s" % t.attr)
            o.f[t.attr] = v
        elif isinstance(t, (ast.Tuple, ast.List)):
            xs = v.xs if isinstance(v, Vec) else v.items if isinstance(v, PList) else v
            if not isinstance(xs, (tuple, list)) or len(xs) != len(t.elts): raise Unsupported("unpacking", t)
            for tt, vv in zip(t.elts, xs): s.assign(tt, vv, env)
        elif isinstance(t, ast.Subscript):
            o = s.eval(t.value, env); i = s.eval(t.slice, env)
            if isinstance(o, dict) and getattr(o, 'owner', 'fresh') != 'fresh' and not isinstance(o, Obj):
                # store into a per-instance / module-level dict: recorded for the cache-coherence obligations (props.common.cache_coherence);
                # the stored value is reachable from state that outlives the call from now on (escape): later writes to it are frame writes
                s.__dict__.setdefault('cache_stores', []).append(dict(pc=list(s.pc), contracts=frozenset(k_ for k_ in (s.contracts or {})), tag=getattr(o, 'tag', None), owner=o.owner, key=i, value=v, holder=getattr(o, 'holder', None), cache=o))
                _escape(v)
            else:
                s.note_write(o, "item assignment")
            if isinstance(o, Obj) and o.cls == '$Frame':
                from . import iomodel
                iomodel.frame_set(s, o, i, v, t)
            elif isinstance(o, PList) and isinstance(i, int): o.items[i] = v
            elif isinstance(o, Vec) and isinstance(i, int): o.xs[i] = v
            elif isinstance(o, dict): _dict_store(s, o, i, v, t)
            else: raise Unsupported("item assignment on %r[%r]" % (o, i), t)
        else: raise Unsupported("assignment target", t)

    # ------------------------------------------------------------------ loops
    def for_stmt(s, st, env):
        if st.orelse: raise Unsupported("for/else", st)
        it = s.eval(st.iter, env)
        if isinstance(it, Obj): it = s.iter_obj(it, st)
        if isinstance(it, _Range):
            if isinstance(it.n, int): items = list(range(it.start, it.n))
            else: return s.generic_loop(st, env, it)
        elif isinstance(it, PList): items = list(it.items)
        elif isinstance(it, (list, tuple)): items = list(it)
        elif isinstance(it, Vec): items = list(it.xs)
        elif isinstance(it, Seq):
            # `for v in <list of symbolic length>: out.append(f(v))` is the recurrence loop over range(len(list)) with v = list[k]
            appends = any(isinstance(c, ast.Call) and isinstance(c.func, ast.Attribute) and c.func.attr in ('append', 'extend') and isinstance(c.func.value, ast.Name)
                          and isinstance(env.get(c.func.value.id), PList) for c in ast.walk(st)) or \
                      any(isinstance(c, ast.AugAssign) and isinstance(c.op, ast.Add) and isinstance(c.target, ast.Name) and isinstance(env.get(c.target.id), PList) for c in ast.walk(st))
            if appends: return s.generic_loop(st, env, _Range(0, it.n), elem_seq=it)
            return s.generic_seq_loop(st, env, it)
        elif isinstance(it, (set, frozenset)): items = sorted(it, key=repr)
        else: raise Unsupported("for over %r" % (it,), st)
        for v in items:
            s.assign(st.target, v, env); s.block(st.body, env)

    def iter_obj(s, o, node):
        if o.cls.startswith('$'):
            from . import iomodel
            return iomodel.model_iter(s, o, node)
        gi = s.src.method(o.cls, '__getitem__') if o.cls in s.src.classes else None
        if gi is not None and len(gi.body) == 1 and isinstance(gi.body[0], ast.Return):
            r = gi.body[0].value
            if isinstance(r, ast.Subscript) and isinstance(r.value, ast.Attribute) and isinstance(r.value.value, ast.Name) \
                    and r.value.value.id == 'self' and isinstance(r.slice, ast.Name) and r.slice.id == gi.args.args[1].arg:
                return o.f[r.value.attr]
        raise Unsupported("iteration over %s" % o.cls, node)

    def generic_seq_loop(s, st, env, seq):
        """for v in <list of symbolic length>: body without effects on the surrounding state -> executed once for a
        generic element (any exception is a path outcome)"""
        before = {k: v for k, v in env.items()}
        nw = len(s.ext_writes)
        if not s.decide(cmp('>', seq.n, 0), st): return          # empty list: the loop does nothing
        i = s.fresh("i", 'I')
        s.assume(band(cmp('>=', i, 0), cmp('<', i, seq.n)), 'generic element index')
        el = s.seq_get(seq, i)
        inv = s.read_invariant(el)
        if inv is not None: s.assume(inv, 'class invariant of a list element')
        s.assign(st.target, el, env)
        s.block(st.body, env)
        tgt = {n.id for n in ast.walk(st.target) if isinstance(n, ast.Name)}
        for k, v in env.items():
            if k in tgt: continue
            if k in before and before[k] is not v:
                raise Unsupported("loop over a symbolic-length list updates %s" % k, st, env.get('__path__'))
        if len(s.ext_writes) != nw:
            u = Unsupported("loop over a symbolic-length list writes to the heap: %s" % (s.ext_writes[-1][1],), st, env.get('__path__'))
            u.frame_write = s.ext_writes[-1][1]         # the write itself is certain (every element of a non-empty list): frame-sensitive checks report it
            raise u
        for c in ast.walk(st):
            if isinstance(c, ast.Call) and isinstance(c.func, ast.Attribute) and c.func.attr in _MUTATORS:
                raise Unsupported("mutation inside a loop over a symbolic-length list", st)
        s.loops.append(dict(kind='effect-free', node=st))

    def generic_loop(s, st, env, rng, elem_seq=None):
        """append-only `for step in range(n)` with symbolic n: executed once for generic k in [0, n)"""
        path = env.get('__path__')
        n = rng.n
        start_ = 0
        if rng.start != 0:
            if not isinstance(rng.start, int) or elem_seq is not None: raise Unsupported("range start", st, path)
            start_ = rng.start; n = lift(n) - start_           # iteration k of n - start runs the body with the loop variable k + start
        grown = {c.func.value.id for c in ast.walk(st) if isinstance(c, ast.Call) and isinstance(c.func, ast.Attribute)
                 and c.func.attr in ('append', 'extend') and isinstance(c.func.value, ast.Name)}
        # `lst += [..]` on a list of the enclosing function is an append in disguise (in-place extend), not a rebinding
        aug_lists = {c.target.id for c in ast.walk(st) if isinstance(c, ast.AugAssign) and isinstance(c.op, ast.Add) and isinstance(c.target, ast.Name)
                     and isinstance(c.value, ast.List) and isinstance(env.get(c.target.id), PList)}
        grown = sorted(grown | aug_lists)
        # syntactic frame: inside the loop lists are only read and appended to; no rebinding of outer names
        assigned = set()
        for c in ast.walk(st):
            if isinstance(c, (ast.Assign, ast.AugAssign, ast.AnnAssign)):
                for t in (c.targets if isinstance(c, ast.Assign) else [c.target]):
                    for e in ast.walk(t):
                        if isinstance(e, ast.Subscript) and isinstance(e.ctx, ast.Store): raise Unsupported("item assignment inside a generic loop", c, path)
                        if isinstance(e, ast.Attribute) and isinstance(e.ctx, ast.Store): raise Unsupported("attribute assignment inside a generic loop", c, path)
                        if isinstance(e, ast.Name) and isinstance(e.ctx, ast.Store) and not (isinstance(c, ast.AugAssign) and e.id in aug_lists): assigned.add(e.id)
            if isinstance(c, ast.Call) and isinstance(c.func, ast.Attribute) and c.func.attr == 'extend' and len(c.args) == 1 and isinstance(c.args[0], ast.List): continue
            if isinstance(c, ast.Call) and isinstance(c.func, ast.Attribute) and c.func.attr in _MUTATORS - {'append'}:
                raise Unsupported("list mutation other than append inside a generic loop", c, path)
            if isinstance(c, (ast.For, ast.While)) and c is not st: raise Unsupported("nested loop inside a generic loop", c, path)
            if isinstance(c, (ast.Break, ast.Continue)): raise Unsupported("break/continue inside a generic loop", c, path)
        tgt = {e.id for e in ast.walk(st.target) if isinstance(e, ast.Name)}
        for a in assigned - tgt:
            if a in env: raise Unsupported("generic loop rebinds outer variable %s (not a recurrence over lists)" % a, st, path)
        init = {}
        for L in list(grown):
            v = env.get(L)
            if not isinstance(v, PList):
                grown.remove(L)            # e.g. a precomputed series: an append on it (if it is ever executed) is rejected at that point
                continue
            init[L] = v
        if not s.decide(cmp('>', n, 0), st):
            s.loops.append(dict(kind='recurrence-skipped', node=st, n=n)); return       # zero iterations: lists keep their prefix
        k = var('k', 'I')
        for L in grown: env[L] = Grow(L, init[L].items, owner=init[L].owner)
        s.assume(band(cmp('>=', k, 0), cmp('<', k, n)), 'generic iteration index')
        s.assign(st.target, (k + start_ if start_ else k) if elem_seq is None else s.with_invariant(s.seq_get(elem_seq, k)), env)
        mark = len(s.pc)
        s.block(st.body, env)
        rec = dict(kind='recurrence', node=st, n=n, lists={L: env[L] for L in grown}, pc_mark=mark, locals={a: env.get(a) for a in assigned})
        s.loops.append(rec)
        for L in grown:
            g = env[L]
            if g.init and g.app and not same_shape(g.init[0], g.app[0]):
                if s.contracts.get('__allow_shape_change__'):
                    s.notes.append(dict(shape_change=L, prefix=repr(g.init[0])[:120], body=repr(g.app[0])[:120]))
                else:
                    raise Unsupported("element shape of %s changes between prefix and loop body" % L, st, path)
            for a in g.app[1:]:
                if not same_shape(g.app[0], a): raise Unsupported("element shape of %s differs between appends" % L, st, path)
            env[L] = Post(L, len(g.init), n, len(g.app), g, owner=g.owner)
            # element j of the finished list = the value appended by iteration j (only when no iteration reads an earlier element)
            env[L].conds = list(s.pc[mark:]); env[L].pure = all(not env[L2].grow.reads if isinstance(env[L2], Post) else not env[L2].reads for L2 in grown)
        for a in assigned:
            env.pop(a, None)          # loop locals are not meaningful after the loop (k-dependent)

    # ------------------------------------------------------------------ truthiness
    def truth(s, v, node=None):
        if isinstance(v, (bool, B)): return v
        if v is None: return False
        if isinstance(v, (int, float)): return bool(v)
        if isinstance(v, str): return bool(v)
        if isinstance(v, PList): return bool(v.items)
        if isinstance(v, T): return ne(v, 0)
        if isinstance(v, Obj): return True
        raise Unsupported("truth value of %r" % (v,), node)

    # ------------------------------------------------------------------ expressions
    def eval(s, e, env):
        m = getattr(s, 'e_' + type(e).__name__, None)
        if m is None: raise Unsupported("expression %s" % type(e).__name__, e, env.get('__path__'))
        return m(e, env)

    def e_Constant(s, e, env): return e.value
    def e_Lit(s, e, env): return e.v
    def e_JoinedStr(s, e, env):
        parts = []
        for v in e.values:
            if isinstance(v, ast.Constant): parts.append(v.value); continue
            if isinstance(v, ast.FormattedValue) and v.format_spec is None and v.conversion == -1:
                try: x = s.eval(v.value, env)
                except Unsupported: return Opaque("str")
                if isinstance(x, str): parts.append(x); continue
            return Opaque("str")
        return "".join(parts)
    def e_Name(s, e, env): return s.lookup(e.id, env, e)
    def e_Tuple(s, e, env): return tuple(s.eval(x, env) for x in e.elts)
    def e_List(s, e, env): return PList([s.eval(x, env) for x in e.elts])
    def e_Set(s, e, env): return frozenset(s.eval(x, env) for x in e.elts)
    def e_Lambda(s, e, env): return Fn('lambda', e, env=dict(env))

    def e_Dict(s, e, env):
        return {s.eval(k, env): s.eval(v, env) for k, v in zip(e.keys, e.values)}

    def e_Attribute(s, e, env):
        b = s.eval(e.value, env)
        return s.getattr(b, e.attr, e, env)

    def getattr(s, b, attr, node=None, env=None):
        if isinstance(b, Opaque): return Opaque(b.what + "." + attr)
        if isinstance(b, ModRef):
            if b.name == 'numpy':
                if attr in NUMPY: return Fn('builtin', name='numpy.' + attr, py=NUMPY[attr])
                if attr == 'inf': return INF
                if attr == 'linalg': return ModRef('numpy.linalg')
            if b.name == 'numpy.linalg' and attr == 'lstsq': return Fn('builtin', name='numpy.linalg.lstsq', py=_ext('numpy.linalg.lstsq'))
            if b.name == 'optimize' and attr == 'minimize': return Fn('builtin', name='optimize.minimize', py=_ext('optimize.minimize'))
            if b.name == 'datetime': return Opaque('datetime.' + attr)
            if b.name in ('logging', 'warnings'):
                # diagnostics have no effect on the modelled state: every call is a no-op returning an uninterpreted value
                return Fn('builtin', name=b.name + '.' + attr, py=lambda s_, *a, **k: Opaque(b.name + ' object'))
            if b.name in ('pandas', 'json', 'joblib'):
                from . import iomodel
                r = iomodel.module_attr(s, b.name, attr, node)
                if r is not None: return r
            if b.name == 'sys' and attr == 'float_info': return ModRef('sys.float_info')
            if b.name == 'sys.float_info' and attr in ('epsilon', 'max', 'min'):
                import sys as _sys
                from fractions import Fraction as _Fr
                return lift(_Fr(getattr(_sys.float_info, attr)))
            if b.name == 'math':
                if attr in ('exp', 'log', 'sqrt') and attr in NUMPY: return Fn('builtin', name='math.' + attr, py=NUMPY[attr])
                if attr == 'inf': return INF
            raise Unsupported("%s.%s" % (b.name, attr), node)
        if isinstance(b, Obj) and b.cls.startswith('$'):
            from . import iomodel
            return iomodel.model_attr(s, b, attr, node)
        if isinstance(b, str) and attr in ('startswith', 'endswith'):
            def _sw(s_, x, b=b, attr=attr):
                if not isinstance(x, str): raise Unsupported("str.%s with a non-literal argument" % attr, node)
                return getattr(b, attr)(x)
            return Fn('builtin', name='str.' + attr, py=_sw)
        if isinstance(b, Obj):
            if attr in b.f: return b.f[attr]
            if b.cls == 'Design^T' and attr == 'T': return Obj('Design', dict(cols=b.f['rows']))
            if b.cls in s.src.classes:
                m = s.src.method(b.cls, attr)
                if m is not None:
                    decs = [ast.unparse(d) for d in m.decorator_list]
                    if 'property' in decs: return s.call_function(m, [], {}, self_obj=b)
                    if 'classmethod' in decs: return Fn('classmethod', m, name=b.cls)
                    if 'staticmethod' in decs: return Fn('staticmethod', m, name=b.cls)
                    return Fn('method', m, self=b, name=attr)
                cc = s.src.class_consts(b.cls)
                if attr in cc: return cc[attr]
            raise Raised('AttributeError', "%s.%s" % (b.cls, attr), node)
        if isinstance(b, Fn) and b.kind == 'class':
            cc = s.src.class_consts(b.name)
            if attr in cc: return cc[attr]
            if b.name in s.src.classes:
                # class-level object constant (e.g. Mixtures.H2O_EtOH = Mixture(...)): evaluated once per run, one shared object
                cache = s.__dict__.setdefault('_cconst', {})
                if (b.name, attr) in cache: return cache[(b.name, attr)]
                cpath, cdef = s.src.classes[b.name]
                for n_ in cdef.body:
                    tgt = n_.target if isinstance(n_, ast.AnnAssign) else n_.targets[0] if isinstance(n_, ast.Assign) and len(n_.targets) == 1 else None
                    if isinstance(tgt, ast.Name) and tgt.id == attr and getattr(n_, 'value', None) is not None and not s.src.is_attrs(b.name):
                        v = s.eval(n_.value, {'__path__': cpath})
                        if isinstance(v, Obj): v.owner = 'global'; v.tag = "%s.%s" % (b.name, attr)
                        cache[(b.name, attr)] = v
                        return v
            m = s.src.method(b.name, attr)
            if m is not None:
                decs = [ast.unparse(d) for d in m.decorator_list]
                if 'classmethod' in decs: return Fn('classmethod', m, name=b.name)
                if 'staticmethod' in decs: return Fn('staticmethod', m, name=b.name)
                return Fn('func', m, name=attr)
            raise Raised('AttributeError', "%s.%s" % (b.name, attr), node)
        if isinstance(b, (PList, Grow, Post, Seq)): return Fn('listmethod', self=b, name=attr)
        if isinstance(b, Vec) and attr == 'T': return b
        if isinstance(b, Vec) and attr == 'tolist': return Fn('builtin', name='tolist', py=lambda s_, b=b: PList(b.xs))
        if isinstance(b, Result_) : return b.get(attr)
        raise Unsupported("attribute %s of %r" % (attr, b), node, env.get('__path__') if env else None)

    def e_BinOp(s, e, env):
        return s.binop(e.op, s.eval(e.left, env), s.eval(e.right, env), e)

    def e_UnaryOp(s, e, env):
        v = s.eval(e.operand, env)
        if isinstance(e.op, ast.USub):
            if isinstance(v, (int, float)) and not isinstance(v, bool): return -v
            if isinstance(v, Vec): return Vec([-lift(x) for x in v.xs])
            return -lift(v)
        if isinstance(e.op, ast.Not):
            t = s.truth(v, e)
            return (not t) if isinstance(t, bool) else bnot(t)
        if isinstance(e.op, ast.UAdd): return v
        raise Unsupported("unary op", e)

    def e_Compare(s, e, env):
        left = s.eval(e.left, env); res = []
        for op, r in zip(e.ops, e.comparators):
            right = s.eval(r, env); res.append(s.compare(op, left, right, e)); left = right
        if len(res) == 1: return res[0]
        if all(isinstance(x, bool) for x in res): return all(res)
        return band(*[tob(x) for x in res])

    def e_BoolOp(s, e, env):
        # short-circuit: later operands are only evaluated if needed (they may raise / be undefined)
        is_and = isinstance(e.op, ast.And)
        acc = []
        for v in e.values:
            t = s.truth(s.eval(v, env), e)
            if isinstance(t, bool):
                if is_and and not t: return band(*acc, False) if acc else False
                if not is_and and t: return bor(*acc, True) if acc else True
                continue
            acc.append(t)
        if not acc: return is_and
        return band(*acc) if is_and else bor(*acc)

    def e_IfExp(s, e, env):
        c = s.truth(s.eval(e.test, env), e)
        if isinstance(c, bool): return s.eval(e.body if c else e.orelse, env)
        if c.op == 'lit': return s.eval(e.body if c.a[0] else e.orelse, env)
        # both branches pure numeric -> ite term (no fork)
        try:
            s.speculative += 1
            npc = len(s.pc)
            try:
                a = s.eval(e.body, env); b = s.eval(e.orelse, env)
            finally:
                s.speculative -= 1
            if is_num(a) and is_num(b) and len(s.pc) == npc: return ite(c, a, b)
            del s.pc[npc:]
        except (_NoFork, Raised):
            del s.pc[npc:]
        return s.eval(e.body, env) if s.decide(c, e) else s.eval(e.orelse, env)

    def e_Call(s, e, env):
        f = s.eval(e.func, env)
        args = []
        for a in e.args:
            if isinstance(a, ast.Starred): raise Unsupported("*args", e)
            args.append(s.eval(a, env))
        kwargs = {}
        for k in e.keywords:
            if k.arg is None:
                m_ = s.eval(k.value, env)          # **mapping: a dict with literal string keys
                if not isinstance(m_, dict) or not all(isinstance(q, str) for q in m_): raise Unsupported("**kwargs from %r" % (m_,), e)
                kwargs.update(m_); continue
            kwargs[k.arg] = s.eval(k.value, env)
        return s.apply(f, args, kwargs, e)

    def e_DictComp(s, e, env):
        """{k: v for x in <collection of concrete length>}: unrolled in order; a later entry whose key equals an earlier key on this path
        overwrites it (the executor forks on the key equalities, as for look-ups)"""
        if len(e.generators) != 1 or e.generators[0].ifs: raise Unsupported("dict comprehension form", e)
        g = e.generators[0]; it = s.eval(g.iter, env)
        items = it.items if isinstance(it, PList) else list(it) if isinstance(it, (list, tuple)) else None
        if items is None: raise Unsupported("dict comprehension over a collection of symbolic length", e)
        d = PDict()
        for v in items:
            env2 = dict(env); s.assign(g.target, v, env2)
            k = s.eval(e.key, env2); val = s.eval(e.value, env2)
            _dict_store(s, d, k, val, e)
        return d

    def e_ListComp(s, e, env):
        if len(e.generators) != 1: raise Unsupported("comprehension form", e)
        g = e.generators[0]; it = s.eval(g.iter, env)
        if isinstance(it, Obj): it = s.iter_obj(it, e)
        if g.ifs:
            # filtering comprehension: only over lists of concrete length with conditions that evaluate to concrete booleans
            items = it.items if isinstance(it, PList) else list(it) if isinstance(it, (list, tuple)) else None
            if items is None: raise Unsupported("filtering comprehension over a list of symbolic length", e)
            out = []
            for v in items:
                env2 = dict(env); s.assign(g.target, v, env2)
                keep = True
                for c in g.ifs:
                    t = s.truth(s.eval(c, env2), e)
                    if not isinstance(t, bool): raise Unsupported("filtering comprehension with a symbolic condition", e)
                    keep = keep and t
                if keep: out.append(s.eval(e.elt, env2))
            return PList(out)
        def elt(v):
            env2 = dict(env); s.assign(g.target, v, env2); return s.eval(e.elt, env2)
        if isinstance(it, _Range):
            if isinstance(it.n, int): return PList([elt(i) for i in range(it.start, it.n)])
            if it.start != 0:
                if not isinstance(it.start, int): raise Unsupported("symbolic range start in comprehension", e)
                st_ = it.start
                return s.eager_seq(lift(it.n) - st_, lambda i: elt(lift(i) + st_), e)      # element j of the list is the body at start + j
            return s.eager_seq(it.n, lambda i: elt(i), e)
        if isinstance(it, PList): return PList([elt(v) for v in it.items])
        if isinstance(it, (list, tuple)): return PList([elt(v) for v in it])
        if isinstance(it, Vec): return PList([elt(v) for v in it.xs])
        if isinstance(it, Seq): return s.eager_seq(it.n, lambda i: elt(s.with_invariant(s.seq_get(it, i))), e)
        if isinstance(it, Post): return s.eager_seq(it.length(), lambda i: elt(s.index(it, i, e)), e)
        if isinstance(it, (set, frozenset)): return PList([elt(v) for v in sorted(it, key=repr)])
        raise Unsupported("comprehension over %r" % (it,), e)

    def seq_get(s, seq, i):
        """element i of a symbolic-length list; for lists built by a comprehension the conditions under which every element was
        evaluated normally are instantiated for this index"""
        v = seq.fn(i)
        conds = getattr(seq, 'conds', None)
        if conds:
            for c in conds(i): s.assume(c, 'element of a comprehension was evaluated normally')
        return v

    def eager_seq(s, n, f, node):
        """[f(i) for i in <symbolic range>]: the element is evaluated ONCE, now, for a generic index (heap reads happen at
        creation time, exceptions raised by an element are path outcomes); element j is the substitution instance"""
        if s.speculative: raise _NoFork()
        if not s.decide(cmp('>', n, 0), node): return Seq(lift(0), lambda i: Opaque('element of an empty list'))
        iv = s.fresh("ix", 'I')
        s.assume(band(cmp('>=', iv, 0), cmp('<', iv, n)), 'generic comprehension index')
        mark = len(s.pc)
        proto = f(iv)
        delta = list(s.pc[mark:])
        name = iv.a[0]
        q = Seq(n, lambda i, proto=proto, name=name: subst_value(proto, {name: lift(i)}))
        q.conds = (lambda i, delta=delta, name=name: [ir.subst(c, {name: lift(i)}) for c in delta])
        return q

    def probe_elements(s, n, f, node):
        """a comprehension over a symbolic-length list is built lazily; evaluate its element once for a generic index so
        that an exception raised by an element is a path outcome of the comprehension (if the list is non-empty)"""
        if s.speculative: return
        if not s.decide(cmp('>', n, 0), node): return
        i = s.fresh("j", 'I')
        s.assume(band(cmp('>=', i, 0), cmp('<', i, n)), 'generic comprehension index')
        f(i)

    def with_invariant(s, el):
        inv = s.read_invariant(el)
        if inv is not None: s.assume(inv, 'class invariant of a list element')
        return el

    def e_GeneratorExp(s, e, env):
        r = s.e_ListComp(e, env)
        return r

    def e_Subscript(s, e, env):
        b = s.eval(e.value, env)
        if isinstance(e.slice, ast.Slice):
            lo = s.eval(e.slice.lower, env) if e.slice.lower is not None else None
            hi = s.eval(e.slice.upper, env) if e.slice.upper is not None else None
            if e.slice.step is not None: raise Unsupported("slice step", e)
            return s.slice(b, lo, hi, e)
        i = s.eval(e.slice, env)
        return s.index(b, i, e)

    def slice(s, b, lo, hi, node):
        if isinstance(b, Opaque): return Opaque("str")
        if isinstance(b, str) and all(isinstance(v, (int, type(None))) for v in (lo, hi)): return b[lo:hi]
        if isinstance(b, Post): b = post_as_seq(b, node)
        if isinstance(b, Seq) and hi is None and (lo is None or (isinstance(lo, int) and lo >= 0)):
            lo_ = lo or 0
            if lo_ == 0: return Seq(b.n, b.fn, tag=b.tag)
            # xs[lo:] of a list of symbolic length: max(n - lo, 0) elements, element j is xs[lo + j]
            short = not s.decide(cmp('>=', lift(b.n), lo_), node)
            if short: return PList([])
            q = Seq(lift(b.n) - lo_, lambda i, b=b, lo_=lo_: b.fn(lift(i) + lo_), tag=('slice', b.tag, lo_))
            if b.conds: q.conds = lambda i, b=b, lo_=lo_: b.conds(lift(i) + lo_)
            return q
        xs = b.items if isinstance(b, PList) else b.xs if isinstance(b, Vec) else b if isinstance(b, (list, tuple)) else None
        if xs is None or not all(isinstance(v, (int, type(None))) for v in (lo, hi)): raise Unsupported("slice of %r" % (b,), node)
        r = xs[lo:hi]
        return Vec(r) if isinstance(b, Vec) else PList(r) if isinstance(b, PList) else r

    def index(s, b, i, node=None):
        if isinstance(b, Obj) and b.cls.startswith('$'):
            from . import iomodel
            return iomodel.model_index(s, b, i, node)
        if isinstance(b, Vec):
            if isinstance(i, int): return b.xs[i]
            raise Unsupported("symbolic index into a numpy vector", node)
        if isinstance(b, PList):
            if isinstance(i, int):
                try: return b.items[i]
                except IndexError: raise Raised('IndexError', node=node)
            raise Unsupported("symbolic index %s into a concrete list" % (i,), node)
        if isinstance(b, (tuple, list)):
            if isinstance(i, int):
                try: return b[i]
                except IndexError: raise Raised('IndexError', node=node)
            raise Unsupported("symbolic index into a tuple", node)
        if isinstance(b, dict):
            if isinstance(i, (T, B)) and not b: raise Raised("KeyError", node=node)
            if _has_term(i) and i not in b:
                hit = _dict_find(s, b, i, node)
                if hit is None: raise Raised("KeyError", node=node)
                return hit[1]
            if isinstance(i, (T, B)): raise Unsupported("symbolic dict key", node)
            if i not in b: raise Raised("KeyError", node=node)
            return b[i]
        if isinstance(b, Seq):
            i2 = lift(i) if is_num(i) else None
            if i2 is None: raise Unsupported("index %r" % (i,), node)
            inb = band(cmp('>=', i2, 0), cmp('<', i2, b.n))
            if isinstance(i, int) and i < 0:
                i2 = b.n + i; inb = cmp('>=', i2, 0)
            if not s.decide(inb, node): raise Raised('IndexError', node=node)
            return s.seq_get(b, i2)
        if isinstance(b, Grow): return s.grow_index(b, i, node)
        if isinstance(b, Post):
            i2 = lift(i)
            if not s.decide(band(cmp('>=', i2, 0), cmp('<', i2, b.length())), node): raise Raised('IndexError', node=node)
            if b.a == 1 and b.pops == 0 and b.pure and b.conds is not None:
                if b.len0 > 0:
                    if isinstance(i, int) and i < b.len0: return b.grow.init[i]
                    if not isinstance(i, int) and s.decide(cmp('<', i2, b.len0), node): raise Unsupported("symbolic index into the prefix of %s" % b.name, node)
                j = i2 - b.len0
                for c in b.conds: s.assume(ir.subst(c, {'k': j}), 'the iteration that appended this element completed normally')
                return subst_value(b.grow.app[0], {'k': j})
            return Opaque("%s[%s] after the loop" % (b.name, show(i2)))
        if isinstance(b, Obj):
            gi = s.src.method(b.cls, '__getitem__') if b.cls in s.src.classes else None
            if gi is not None: return s.call_function(gi, [i], {}, self_obj=b)
        if isinstance(b, Opaque): return Opaque(b.what + "[]")
        raise Unsupported("subscript of %r" % (b,), node)

    def grow_index(s, g, i, node):
        c = offset(i)
        if c is None: raise Unsupported("index %s of growing list %s is not step+const" % (i, g.name), node)
        # element index len0-relative: list has len0 + k elements at the head of iteration k (one append per iteration)
        j = c - len(g.init)
        if j >= 0:
            if j < len(g.app): return g.app[j]
            raise Raised("IndexError", "%s[step%+d] read before it is appended" % (g.name, c), node)
        # element k + c with c < len0: appended in an earlier iteration or part of the prefix
        if c < 0:
            # k + c >= 0 needed
            if not s.decide(cmp('>=', var('k', 'I') + c, 0), node): raise Raised('IndexError', node=node)
        if c not in g.reads:
            shape = g.init[0] if g.init else None
            if shape is None: raise Unsupported("read of %s[step%+d] with an empty prefix" % (g.name, c), node)
            g.reads[c] = template(shape, "%s[k%+d]" % (g.name, c))
            inv = s.read_invariant(g.reads[c])
            if inv is not None: s.assume(inv, 'class invariant of an element read from %s' % g.name)
        return g.reads[c]

    def read_invariant(s, v):
        """class invariants of objects read back from lists (established by their constructors, see contracts.invariants)"""
        inv = s.contracts.get('__class_invariants__')
        if inv is None: return None
        fs = []
        def go(x):
            if isinstance(x, Obj):
                f = inv.get(x.cls)
                if f is not None: fs.append(f(x))
                for y in x.f.values(): go(y)
            elif isinstance(x, tuple):
                for y in x: go(y)
        go(v)
        return band(*fs) if fs else None

    # ------------------------------------------------------------------ operators
    def binop(s, op, a, b, node=None):
        if isinstance(a, Obj) and a.cls == '$Path' and isinstance(op, ast.Div):
            from . import iomodel
            return iomodel.path_div(s, a, b)
        if isinstance(a, Opaque) or isinstance(b, Opaque): return Opaque("str")
        if isinstance(a, str) or isinstance(b, str):
            if isinstance(op, ast.Add) and isinstance(a, str) and isinstance(b, str): return a + b
            if isinstance(op, (ast.Add, ast.Mod)): return Opaque("str")
            raise Unsupported("string operator", node)
        if isinstance(a, Obj) or isinstance(b, Obj):
            nm = {ast.Add: '__add__', ast.Mult: '__mul__', ast.Sub: '__sub__', ast.Div: '__truediv__'}.get(type(op))
            if isinstance(a, Obj) and nm and a.cls in s.src.classes and s.src.method(a.cls, nm) is not None:
                return s.call_function(s.src.method(a.cls, nm), [b], {}, self_obj=a)
            raise Unsupported("operator on objects %r %r" % (a, b), node)
        if isinstance(a, Post): a = post_as_seq(a, node)
        if isinstance(b, Post): b = post_as_seq(b, node)
        if isinstance(a, PList) or isinstance(b, PList):
            if isinstance(op, ast.Mult):
                lst, n = (a, b) if isinstance(a, PList) else (b, a)
                if isinstance(n, int): return PList(lst.items * n)
                if len(lst.items) != 1: raise Unsupported("[...]*n with several elements", node)
                v = lst.items[0]
                return Seq(lift(n), lambda i, v=v: v)
            if isinstance(op, ast.Add) and isinstance(a, PList) and isinstance(b, PList): return PList(a.items + b.items)
            if isinstance(op, ast.Add) and isinstance(a, (PList, Seq)) and isinstance(b, (PList, Seq)): return concat(a, b)
            raise Unsupported("list operator", node)
        if isinstance(a, Seq) and isinstance(b, Seq) and isinstance(op, ast.Add): return concat(a, b)
        if isinstance(a, (Vec, tuple, list)) or isinstance(b, (Vec, tuple, list)):
            if isinstance(a, (tuple, list)) and isinstance(b, (tuple, list)) and isinstance(op, ast.Add): return a + b
            ax = a.xs if isinstance(a, Vec) else list(a) if isinstance(a, (tuple, list)) else None
            bx = b.xs if isinstance(b, Vec) else list(b) if isinstance(b, (tuple, list)) else None
            if not (isinstance(a, Vec) or isinstance(b, Vec)): raise Unsupported("tuple arithmetic", node)
            n = len(ax) if ax is not None else len(bx)
            if ax is None: ax = [a] * n
            if bx is None: bx = [b] * n
            if len(ax) != len(bx): raise Raised('ValueError', 'shape mismatch', node)
            return Vec([s.binop(op, x, y, node) for x, y in zip(ax, bx)])
        if isinstance(a, bool) or isinstance(b, bool): raise Unsupported("bool arithmetic", node)
        if a is None or b is None: raise Raised('TypeError', 'None in arithmetic', node)
        if a is INF or b is INF: raise Unsupported("arithmetic on inf", node)
        if isinstance(a, (int, float)) and isinstance(b, (int, float)) and isinstance(op, (ast.Add, ast.Sub, ast.Mult)) \
                and isinstance(a, int) and isinstance(b, int):
            return a + b if isinstance(op, ast.Add) else a - b if isinstance(op, ast.Sub) else a * b
        a, b = lift(a), lift(b)
        if isinstance(op, ast.Add): return a + b
        if isinstance(op, ast.Sub): return a - b
        if isinstance(op, ast.Mult): return a * b
        if isinstance(op, ast.Div):
            s.defined(b, node)
            return a / b
        if isinstance(op, ast.Pow):
            if not (ir.isc(b) and b.a[0].denominator == 1):
                s.assume_positive_base(a, node)
            elif b.a[0] < 0:
                s.defined(a, node)
            return power(a, b)
        raise Unsupported("operator %s" % type(op).__name__, node)

    def defined(s, den, node=None):
        """definedness of a division: den != 0 joins the path condition; the den == 0 exit is recorded as abnormal"""
        den = lift(den)
        if den.op == 'c':
            if den.a[0] == 0: raise Raised('ZeroDivisionError', node=node)
            return
        c = ne(den, 0)
        s.abnormal.append((list(s.pc) + [eq(den, 0)], "division by zero at line %s" % getattr(node, 'lineno', '?')))
        s.pc.append(c)

    def assume_positive_base(s, a, node=None):
        if a.op == 'c':
            if a.a[0] <= 0: raise Unsupported("non-positive base of a real power", node)
            return
        s.abnormal.append((list(s.pc) + [cmp('<=', a, 0)], "non-positive base of a real power at line %s" % getattr(node, 'lineno', '?')))
        s.pc.append(cmp('>', a, 0))

    def compare(s, op, a, b, node=None):
        if (a is NAN or b is NAN) and isinstance(op, (ast.Eq, ast.NotEq, ast.Lt, ast.LtE, ast.Gt, ast.GtE)):
            return isinstance(op, ast.NotEq)
        if isinstance(op, (ast.Is, ast.IsNot)) and isinstance(a, ModRef) and isinstance(b, ModRef):
            return (a.name == b.name) if isinstance(op, ast.Is) else (a.name != b.name)
        if isinstance(op, (ast.Is, ast.IsNot)):
            if isinstance(a, (T, B)) or isinstance(b, (T, B)):
                r = False if (a is None or b is None) else None
                if r is None: raise Unsupported("identity comparison of symbolic values", node)
            else:
                r = a is b if not (isinstance(a, (int, str)) and isinstance(b, (int, str))) else a == b
            return r if isinstance(op, ast.Is) else not r
        if isinstance(op, (ast.In, ast.NotIn)):
            if isinstance(b, dict) and b and _has_term(a) and a not in b:
                hit = _dict_find(s, b, a, node) is not None          # forks: the key equals one of the stored keys, or none of them
                return hit if isinstance(op, ast.In) else not hit
            if isinstance(b, (set, frozenset, tuple, list, dict)) and not isinstance(a, (T, B)):
                r = a in b
                return r if isinstance(op, ast.In) else not r
            if isinstance(b, (set, frozenset, tuple, list)) and isinstance(a, T):
                f = bor(*[eq(a, lift(x)) for x in b if is_num(x)])
                return f if isinstance(op, ast.In) else bnot(f)
            raise Unsupported("membership test", node)
        k = {ast.Lt: '<', ast.LtE: '<=', ast.Gt: '>', ast.GtE: '>=', ast.Eq: '==', ast.NotEq: '!='}.get(type(op))
        if k is None: raise Unsupported("comparison operator", node)
        if a is INF or b is INF:
            if a is INF and b is INF: return k in ('<=', '>=', '==')
            # inf compares above every real
            if b is INF: return k in ('<', '<=', '!=')
            return k in ('>', '>=', '!=')
        if isinstance(a, Opaque) or isinstance(b, Opaque): raise Unsupported("comparison of an opaque value", node)
        if isinstance(a, (str, type(None))) or isinstance(b, (str, type(None))):
            if k not in ('==', '!='): raise Raised('TypeError', node=node)
            if isinstance(a, (T, B)) or isinstance(b, (T, B)): r = False
            else: r = (a == b)
            return r if k == '==' else (not r)
        if isinstance(a, Obj) and isinstance(b, Obj):
            if k not in ('==', '!='): raise Unsupported("ordering of objects", node)
            r = s.obj_eq(a, b)
            return r if k == '==' else (bnot(r) if isinstance(r, B) else not r)
        if isinstance(a, (PList,)) and isinstance(b, PList):
            if k not in ('==', '!='): raise Unsupported("ordering of lists", node)
            if len(a.items) != len(b.items): return k == '!='
            r = band(*[tob(s.compare(ast.Eq(), x, y, node)) for x, y in zip(a.items, b.items)])
            r = r.a[0] if r.op == 'lit' else r
            return r if k == '==' else (bnot(r) if isinstance(r, B) else not r)
        if isinstance(a, bool) and isinstance(b, bool): return (a == b) if k == '==' else (a != b) if k == '!=' else None
        if not (is_num(a) and is_num(b)): raise Unsupported("comparison %r %s %r" % (a, k, b), node)
        if not isinstance(a, T) and not isinstance(b, T):
            return {'<': a < b, '<=': a <= b, '>': a > b, '>=': a >= b, '==': a == b, '!=': a != b}[k]
        r = cmp(k, a, b)
        return r.a[0] if r.op == 'lit' else r

    def obj_eq(s, a, b):
        if a is b: return True
        if a.cls != b.cls: return False
        fs = []
        for n in a.f:
            x, y = a.f[n], b.f.get(n)
            r = s.compare(ast.Eq(), x, y)
            fs.append(tob(r))
        r = band(*fs)
        return r.a[0] if r.op == 'lit' else r


def post_as_seq(p, node=None):
    """the finished list of an append-only loop whose iterations do not read earlier elements, as an element-wise list"""
    if not (p.a == 1 and p.pops == 0 and p.pure and p.conds is not None and p.len0 == 0):
        raise Unsupported("list %s built by a loop cannot be used element-wise here" % p.name, node)
    q = Seq(p.length(), lambda i, p=p: subst_value(p.grow.app[0], {'k': lift(i)}), owner=p.owner, tag=p.tag)
    q.conds = (lambda i, p=p: [ir.subst(c, {'k': lift(i)}) for c in p.conds])
    return q


def _escape(v, seen=None):
    """v becomes reachable from an external container: its mutable parts are external from now on"""
    seen = set() if seen is None else seen
    if id(v) in seen: return
    seen.add(id(v))
    if isinstance(v, Obj):
        if v.owner == 'fresh': v.owner = 'external'; v.tag = v.tag or ('cached ' + v.cls)
        for x in v.f.values(): _escape(x, seen)
    elif isinstance(v, (PList, Seq)):
        if getattr(v, 'owner', 'fresh') == 'fresh':
            v.owner = 'external'
            if not v.tag: v.tag = 'list held by a cached value'
        if isinstance(v, PList):
            for x in v.items: _escape(x, seen)
    elif isinstance(v, PDict):
        if v.owner == 'fresh': v.owner = 'external'
        for x in v.values(): _escape(x, seen)
    elif isinstance(v, (tuple, list)):
        for x in v: _escape(x, seen)


def _key_eq(s, a, b):
    """key a == key b as a formula (tuples component-wise; non-numeric components compared concretely); None if never equal"""
    if isinstance(a, tuple) and isinstance(b, tuple):
        if len(a) != len(b): return None
        fs = []
        for x, y in zip(a, b):
            f = _key_eq(s, x, y)
            if f is None: return None
            fs.append(f)
        return band(*fs)
    if is_num(a) and is_num(b) and not isinstance(a, bool) and not isinstance(b, bool):
        return eq(lift(a), lift(b))
    if isinstance(a, Seq) and isinstance(b, Seq):
        # equal iff same length and the same element at EVERY index: accepted only when that is syntactically evident at a generic index
        j = var('key!j', 'I')
        try:
            la, lb = flatten(a.fn(j)), flatten(b.fn(j))
        except Exception:
            return None
        if a.n is b.n and len(la) == len(lb) and all(x is y for x, y in zip(la, lb)): return TRUE
        return None
    if isinstance(a, (T, B)) or isinstance(b, (T, B)): return None
    try: return TRUE if (type(a) is type(b) and a == b) else None
    except Exception: return None


def _dict_store(s, d, key, value, node=None):
    """d[key] = value with Python's overwrite semantics for keys that are equal on this path (forks on the equalities)"""
    if _has_term(key) and key not in d and d:
        hit = _dict_find(s, d, key, node)
        if hit is not None:
            d[hit[0]] = value; return
    d[key] = value


def _dict_find(s, d, key, node=None):
    """the entry of d whose key equals `key` on this path (forks on the equalities), or None"""
    if not _has_term(key):
        return (key, d[key]) if key in d else None
    for k in list(d.keys()):
        f = _key_eq(s, key, k)
        if f is None: continue
        if f is TRUE or s.decide(f, node): return (k, d[k])
    return None


def _has_term(v):
    if isinstance(v, (T, B, Seq)): return True
    if isinstance(v, (tuple, list)): return any(_has_term(x) for x in v)
    return False


class ContinueLoop(Exception):
    """`continue`: the rest of the current iteration is skipped (only meaningful where a loop body is executed for one generic iteration
    by a property module; the executor's own generic loops reject `continue` syntactically)"""


class _NoFork(Exception):
    pass


class _Range:
    def __init__(s, start, n): s.start = start; s.n = n
    def __repr__(s): return "range(%s, %s)" % (s.start, s.n)


class Result_:
    """result object of an external optimiser (fields by contract)"""
    def __init__(s, fields): s.fields = fields
    def get(s, a):
        if a in s.fields: return s.fields[a]
        raise Unsupported("field %s of an optimiser result" % a)


class Inf:
    def __repr__(s): return "inf"


INF = Inf()
_MUTATORS = {'append', 'pop', 'insert', 'extend', 'remove', 'clear', 'sort', 'reverse', 'update', 'add', 'discard'}


def _load(t):
    import copy as _c
    t2 = _c.copy(t)
    if hasattr(t2, 'ctx'): t2.ctx = ast.Load()
    return t2


def _handler_matches(h, exc):
    if h.type is None: return True
    hn = ast.unparse(h.type)
    if hn == '()': return False                    # `except ():` matches nothing
    names = [hn]
    if isinstance(h.type, ast.Tuple): names = [ast.unparse(x) for x in h.type.elts]
    for n in names:
        if n == exc or n in ('Exception', 'BaseException'): return True
        if n == 'ArithmeticError' and exc == 'ZeroDivisionError': return True
        if n == 'LookupError' and exc in ('KeyError', 'IndexError'): return True
    return False


def offset(t, k='k'):
    """t == k + c  ->  c (int) else None"""
    if isinstance(t, int): return None
    t = lift(t)
    if t.op == 'v' and t.a[0] == k: return 0
    if t.op in '+-' and t.a[0].op == 'v' and t.a[0].a[0] == k and t.a[1].op == 'c' and t.a[1].a[0].denominator == 1:
        c = int(t.a[1].a[0]); return c if t.op == '+' else -c
    if t.op == '+' and t.a[1].op == 'v' and t.a[1].a[0] == k and t.a[0].op == 'c' and t.a[0].a[0].denominator == 1:
        return int(t.a[0].a[0])
    return None


def select(c, a, b):
    """value-level if-then-else for same-shaped values (numeric leaves merged by ite)"""
    if isinstance(a, T) or isinstance(b, T) or (is_num(a) and is_num(b)):
        return ite(c, lift(a), lift(b))
    if isinstance(a, Obj) and isinstance(b, Obj) and a.cls == b.cls and set(a.f) == set(b.f):
        return Obj(a.cls, {k: select(c, a.f[k], b.f[k]) for k in a.f})
    if isinstance(a, tuple) and isinstance(b, tuple) and len(a) == len(b): return tuple(select(c, x, y) for x, y in zip(a, b))
    if type(a) is type(b) and a == b: return a
    raise Unsupported("cannot merge differently shaped list elements %r / %r" % (a, b))


def concat(a, b):
    """a + b for lists of which at least one has symbolic length: element i is a[i] for i < len(a), else b[i - len(a)]"""
    if isinstance(a, PList) and not a.items: return Seq(b.n, b.fn, tag=b.tag) if isinstance(b, Seq) else PList(b.items)
    if isinstance(b, PList) and not b.items: return Seq(a.n, a.fn, tag=a.tag) if isinstance(a, Seq) else PList(a.items)
    def as_seq(x):
        if isinstance(x, Seq): return x
        items = list(x.items)
        def fn(i, items=items):
            i = lift(i)
            if i.op == 'c': return items[int(i.a[0])]
            v = items[-1]
            for k in range(len(items) - 2, -1, -1): v = select(cmp('==', i, k), items[k], v)
            return v
        return Seq(lift(len(items)), fn)
    sa, sb = as_seq(a), as_seq(b)
    na = sa.n
    q = Seq(na + sb.n, lambda i: select(cmp('<', lift(i), na), sa.fn(lift(i)), sb.fn(lift(i) - na)))
    q.parts = (sa, sb)
    return q


def subst_value(v, m):
    if isinstance(v, T): return ir.subst(v, m)
    if isinstance(v, B): return ir.subst(v, m)
    if isinstance(v, tuple): return tuple(subst_value(x, m) for x in v)
    if isinstance(v, Obj): return Obj(v.cls, {k: subst_value(x, m) for k, x in v.f.items()}, owner=v.owner, tag=v.tag)
    if isinstance(v, PList): return PList([subst_value(x, m) for x in v.items], owner=v.owner)
    if isinstance(v, Vec): return Vec([subst_value(x, m) for x in v.xs])
    if isinstance(v, Seq):
        q = Seq(subst_value(v.n, m) if isinstance(v.n, T) else v.n, lambda i, v=v: subst_value(v.fn(i), m), owner=v.owner, tag=v.tag)
        if v.conds: q.conds = lambda i, v=v: [ir.subst(c, m) for c in v.conds(i)]
        return q
    return v


def template(v, prefix):
    """fresh symbolic value with the shape of v (numeric leaves become variables, everything else is kept)"""
    if isinstance(v, T) or (isinstance(v, (int, float)) and not isinstance(v, bool)): return var(prefix)
    if isinstance(v, Obj): return Obj(v.cls, {n: template(x, "%s.%s" % (prefix, n)) for n, x in v.f.items()}, owner=v.owner)
    if isinstance(v, tuple): return tuple(template(x, "%s.%d" % (prefix, i)) for i, x in enumerate(v))
    return v


def same_shape(a, b):
    na = isinstance(a, T) or (isinstance(a, (int, float)) and not isinstance(a, bool))
    nb = isinstance(b, T) or (isinstance(b, (int, float)) and not isinstance(b, bool))
    if na or nb: return na and nb
    if isinstance(a, Obj): return isinstance(b, Obj) and a.cls == b.cls and set(a.f) == set(b.f) and all(same_shape(a.f[n], b.f[n]) for n in a.f)
    if isinstance(a, tuple): return isinstance(b, tuple) and len(a) == len(b) and all(same_shape(x, y) for x, y in zip(a, b))
    if isinstance(a, Opaque): return isinstance(b, Opaque)
    return type(a) is type(b) and a == b


def flatten(v):
    """numeric leaves of a value in a canonical order (records field-wise in declaration order; None/str/bool tagged)"""
    if isinstance(v, T): return [v]
    if v is None: return [lift(-777)]
    if isinstance(v, bool): return [lift(int(v))]
    if isinstance(v, (int, float)): return [lift(v)]
    if isinstance(v, str): return [lift(int(hashlib.md5(v.encode()).hexdigest()[:6], 16))]
    if isinstance(v, Obj): return [x for f in v.f.values() for x in flatten(f)]
    if isinstance(v, (tuple, list)): return [x for f in v for x in flatten(f)]
    if isinstance(v, PList): return [lift(len(v.items))] + [x for f in v.items for x in flatten(f)]
    if isinstance(v, Vec): return [x for f in v.xs for x in flatten(f)]
    if isinstance(v, Opaque): return []
    if isinstance(v, Seq): return [v.n, lift(id(v) % 1000003)] if v.tag is None else [v.n] + flatten(v.tag)
    if isinstance(v, Fn): return [lift(int(hashlib.md5((v.name or '').encode()).hexdigest()[:6], 16))]
    raise Unsupported("flatten %r" % type(v))


# ================================================================================================ builtins / numpy
def _vecmap(f):
    def g(s, x, *rest):
        if isinstance(x, Seq): return Seq(x.n, lambda i, x=x: f(s, x.fn(i), *rest))
        if isinstance(x, Vec): return Vec([f(s, v, *rest) for v in x.xs])
        if isinstance(x, PList): return Vec([f(s, v, *rest) for v in x.items])
        if isinstance(x, (tuple, list)): return Vec([f(s, v, *rest) for v in x])
        return f(s, x, *rest)
    return g


def _exp1(s, x): return exp(lift(x))
def _log1(s, x):
    x = lift(x)
    if x.op == 'c':
        if x.a[0] <= 0: raise Unsupported("log of a non-positive constant")
    elif x.op != 'exp':
        s.abnormal.append((list(s.pc) + [cmp('<=', x, 0)], "log of a non-positive number"))
        s.pc.append(cmp('>', x, 0))
    return log(x)


def _sqrt1(s, x):
    x = lift(x)
    r = app('sqrt', x)
    return r


def _as_vec(x):
    if isinstance(x, Vec): return x
    if isinstance(x, PList): return Vec(x.items)
    if isinstance(x, (tuple, list)): return Vec(list(x))
    return x


def _np_bin(opcls):
    def g(s, a, b):
        if isinstance(a, Seq) or isinstance(b, Seq):
            n = a.n if isinstance(a, Seq) else b.n
            fa = a.fn if isinstance(a, Seq) else (lambda i, a=a: a)
            fb = b.fn if isinstance(b, Seq) else (lambda i, b=b: b)
            if not (isinstance(a, Seq) or is_num(a)) or not (isinstance(b, Seq) or is_num(b)): raise Unsupported("numpy element-wise op on a symbolic-length list and %r" % (b,))
            return Seq(n, lambda i: s.binop(opcls(), fa(i), fb(i)))
        return s.binop(opcls(), _as_vec(a), _as_vec(b))
    return g


def _np_arange(s, *a):
    """numpy.arange(start, stop, step) in real arithmetic: ceil((stop-start)/step) points start + i*step (float rounding of the
    length is outside the model)"""
    if len(a) == 1: start, stop, step = lift(0), lift(a[0]), lift(1)
    elif len(a) == 2: start, stop, step = lift(a[0]), lift(a[1]), lift(1)
    elif len(a) == 3: start, stop, step = lift(a[0]), lift(a[1]), lift(a[2])
    else: raise Unsupported("numpy.arange arguments")
    s.defined(step)
    q = (stop - start) / step
    n = None
    for name, v in ir.free_vars(q).items():
        if v.a[1] == 'I':
            try:
                if ir.ring_equal(q, v): n = v; break
            except RecursionError: pass
    if n is None:
        if q.op == 'c': n = lift(-((-q.a[0].numerator) // q.a[0].denominator))
        else:
            n = s.fresh('arange_len', 'I')
            s.assume(band(cmp('>=', n, q), cmp('<', n, q + 1)), 'numpy.arange: number of points = ceil((stop-start)/step)')
    if n.op == 'c': return Vec([start + lift(i) * step for i in range(int(n.a[0]))])
    return Seq(n, lambda i: start + lift(i) * step)


def _np_ones(s, n): return Seq(lift(n), lambda i: lift(1)) if not isinstance(n, int) else Vec([lift(1)] * n)


def _np_vstack(s, rows):
    rows = rows.items if isinstance(rows, PList) else list(rows)
    return Obj('Design^T', dict(rows=rows))


def _np_power(s, x, n):
    # symbolic exponent: x**n = exp(n log x) with the base > 0 side condition of binop (the base <= 0 exit is recorded as abnormal)
    return s.binop(ast.Pow(), x, n)


def _np_sum(s, xs):
    xs = _as_vec(xs)
    if isinstance(xs, Seq): return app('Σ', *flatten(xs))
    r = lift(0)
    for x in xs.xs: r = r + lift(x)
    return r


def _np_array(s, x):
    if isinstance(x, Seq): return x
    return _as_vec(x)


def _ext(name):
    def g(s, *a, **k):
        c = s.contracts.get(name)
        if c is None: raise Unsupported("external call %s without an assumed contract" % name)
        return c(s, dict(args=list(a), kwargs=k))
    return g


NUMPY = {'isclose': (lambda s, a, b, rtol=1e-05, atol=1e-08, **k: cmp('<=', tabs(lift(a) - lift(b)), lift(Fraction(str(atol))) + lift(Fraction(str(rtol))) * tabs(lift(b)))),   # numpy's documented predicate, over the reals
         'isfinite': (lambda s, x: True),        # real-number model: every value is finite (overflow is outside the model; C18's native corpus looks at it)
         'exp': _vecmap(_exp1), 'log': _vecmap(_log1), 'sqrt': _vecmap(_sqrt1), 'array': _np_array,
         'multiply': _np_bin(ast.Mult), 'subtract': _np_bin(ast.Sub), 'divide': _np_bin(ast.Div), 'add': _np_bin(ast.Add),
         'power': _np_power, 'sum': _np_sum, 'ones': _np_ones, 'vstack': _np_vstack, 'searchsorted': lambda s, *a, **k: _ext('numpy.searchsorted')(s, *a, **k), 'arange': _np_arange}


def _len(s, x):
    if isinstance(x, Obj) and x.cls.startswith('$'):
        from . import iomodel
        return iomodel.model_len(s, x)
    if isinstance(x, Seq): return x.n
    if isinstance(x, Post): return x.length()
    if isinstance(x, Grow): raise Unsupported("len of a growing list inside a generic loop")
    if isinstance(x, PList): return len(x.items)
    if isinstance(x, Vec): return len(x.xs)
    if isinstance(x, Obj) and x.cls in s.src.classes:
        m = s.src.method(x.cls, '__len__')
        if m is not None: return s.call_function(m, [], {}, self_obj=x)
    if isinstance(x, (tuple, list, dict, set, frozenset, str)): return len(x)
    raise Unsupported("len of %r" % (x,))


def _range(s, *a):
    if len(a) == 1: return _Range(0, a[0] if isinstance(a[0], int) else lift(a[0]))
    if len(a) == 2 and isinstance(a[0], int): return _Range(a[0], a[1] if isinstance(a[1], int) else lift(a[1]))
    raise Unsupported("range%r" % (a,))


def _sum(s, xs, start=0):
    if isinstance(xs, Post): xs = post_as_seq(xs)
    if isinstance(xs, Seq):
        r = app('Σ', *flatten(xs))
        if not hasattr(s, 'sums'): s.sums = []
        s.sums.append((r, xs))
        return r
    it = xs.items if isinstance(xs, PList) else xs.xs if isinstance(xs, Vec) else xs
    if not isinstance(it, (list, tuple)): raise Unsupported("sum over %r" % (xs,))
    r = lift(start)
    for x in it: r = r + lift(x)
    return r


def _abs(s, x):
    if isinstance(x, (int, float)): return abs(x)
    return tabs(x)


def _minmax(tm, pm):
    def g(s, *a, **k):
        if k:
            c = s.contracts.get('min(key=)')
            if c is None: raise Unsupported("min/max with key= without an assumed contract")
            return c(s, dict(args=list(a), kwargs=k))
        if len(a) == 1:
            xs = a[0]
            it = xs.items if isinstance(xs, PList) else xs.xs if isinstance(xs, Vec) else list(xs) if isinstance(xs, (tuple, list)) else None
            if it is None: raise Unsupported("min/max over %r" % (xs,))
            a = it
        if all(isinstance(x, (int, float)) for x in a): return pm(a)
        r = lift(a[0])
        for x in a[1:]: r = tm(r, lift(x))
        return r
    return g


def _float(s, x):
    if isinstance(x, (int, float)) and not isinstance(x, bool): return x
    if isinstance(x, T): return x
    raise Unsupported("float(%r)" % (x,))


def _int(s, x):
    if isinstance(x, (int, float)) and not isinstance(x, bool): return int(x)
    if isinstance(x, T):
        if x.op == 'v' and x.a[1] == 'I': return x
        return app('int', x)
    raise Unsupported("int(%r)" % (x,))


def _round(s, x, nd=None):
    if isinstance(x, (int, float)): return round(x) if nd is None else round(x, nd)
    return app('round', lift(x))


def _getattr(s, o, n, *d):
    if not isinstance(n, str): raise Unsupported("getattr with a symbolic name")
    try:
        return s.getattr(o, n)
    except Raised as r:
        if r.exc == 'AttributeError' and d: return d[0]
        raise


def _list(s, x=None):
    if x is None: return PList([])
    if isinstance(x, PList): return PList(x.items)
    if isinstance(x, _Range) and isinstance(x.n, int): return PList(list(range(x.start, x.n)))
    if isinstance(x, _Range): return Seq(x.n, lambda i: i, tag=('range',))
    if isinstance(x, (tuple, list)): return PList(list(x))
    if isinstance(x, Vec): return PList(x.xs)
    if isinstance(x, Seq): return Seq(x.n, x.fn, tag=x.tag)
    raise Unsupported("list(%r)" % (x,))


def _set(s, x=()):
    if isinstance(x, PList): x = x.items
    if isinstance(x, (list, tuple)):
        if all(not isinstance(v, (B, Obj)) for v in x): return frozenset(x)      # symbolic numbers: distinct terms (syntactic de-duplication)
    c = s.contracts.get('set()')
    if c is not None: return c(s, dict(args=[x], kwargs={}))
    raise Unsupported("set of symbolic values")


def _copy(s, x):
    """copy.copy: fresh record whose fields alias the original's"""
    if isinstance(x, Obj): return Obj(x.cls, dict(x.f), owner='fresh')
    if isinstance(x, PList): return PList(x.items, owner='fresh')
    if isinstance(x, Seq): return Seq(x.n, x.fn, owner='fresh', tag=x.tag)
    raise Unsupported("copy(%r)" % (x,))


def _filter(s, f, xs):
    if isinstance(xs, PList):
        out = []
        for v in xs.items:
            t = s.truth(s.apply(f, [v], {}))
            if not isinstance(t, bool): raise Unsupported("filter with a symbolic predicate")
            if t: out.append(v)
        return out
    c = s.contracts.get('filter()')
    if c is not None: return c(s, dict(args=[f, xs], kwargs={}))
    raise Unsupported("filter without an assumed contract")


def _isinstance(s, x, c):
    """isinstance for the cases a clean-up typically adds: numbers against int/float, objects against package classes"""
    cs = c if isinstance(c, tuple) else (c,)
    names = []
    for k in cs:
        if isinstance(k, Fn) and k.kind == 'class': names.append(k.name)
        elif isinstance(k, Fn) and k.kind == 'builtin' and k.name in ('float', 'int', 'str', 'list', 'tuple', 'dict'): names.append(k.name)
        else: raise Unsupported("isinstance against %r" % (k,))
    if isinstance(x, Obj): return x.cls in names
    if isinstance(x, T): return 'float' in names or ('int' in names and x.op == 'v' and x.a[1] == 'I')
    if isinstance(x, bool): return 'int' in names
    if isinstance(x, int): return 'int' in names
    if isinstance(x, float): return 'float' in names
    if isinstance(x, str): return 'str' in names
    if isinstance(x, (PList, Seq, Post, Grow)): return 'list' in names
    if isinstance(x, tuple): return 'tuple' in names
    if isinstance(x, dict): return 'dict' in names
    if x is None: return False
    raise Unsupported("isinstance of %r" % (x,))


BUILTINS = {'float': _float, 'int': _int, 'round': _round, 'getattr': _getattr, 'len': _len, 'range': _range, 'sum': _sum,
            'abs': _abs, 'max': _minmax(tmax, max), 'min': _minmax(tmin, min), 'list': _list, 'set': _set, 'copy': _copy,
            'filter': _filter, 'print': lambda s, *a, **k: None, 'str': lambda s, *a: (str(a[0]) if len(a) == 1 and isinstance(a[0], (int, str)) and not isinstance(a[0], bool) else Opaque("str")),
            'tuple': lambda s, x: tuple(x.items) if isinstance(x, PList) else (x if isinstance(x, Seq) else tuple(x)),          # a tuple of symbolic length: the element-wise list itself (never mutated)
            'dict': lambda s, *a, **k: _dict(s, *a, **k), 'all': lambda s, x: _allany(s, x, True), 'any': lambda s, x: _allany(s, x, False), 'enumerate': lambda s, x: _enumerate(s, x), 'zip': lambda s, *xs: _zip(s, *xs), 'isinstance': lambda s, x, c: _isinstance(s, x, c),
            'bool': lambda s, x: s.truth(x),
            'hash': lambda s, *a: (s.contracts['__fixed_clock__'] if s.contracts.get('__fixed_clock__') is not None else Opaque("hash")), 'type': lambda s, x: _type_of(s, x), 'open': lambda s, *a, **k: _open(s, *a, **k)}


def _enumerate(s, x):
    """enumerate(list): the list of (index, element) pairs"""
    if isinstance(x, Post): x = post_as_seq(x)
    if isinstance(x, PList): return PList([(i, v) for i, v in enumerate(x.items)])
    if isinstance(x, (list, tuple)): return PList([(i, v) for i, v in enumerate(x)])
    if isinstance(x, Seq):
        q = Seq(x.n, lambda i, x=x: (lift(i), x.fn(i)), tag=('enumerate', x.tag))
        q.conds = x.conds
        return q
    raise Unsupported("enumerate(%r)" % (x,))


def _dict(s, *a, **k):
    d = PDict()
    if len(a) == 1 and isinstance(a[0], dict): d.update(a[0])
    elif a: raise Unsupported("dict(%r)" % (a,))
    d.update(k)
    return d


def _allany(s, x, is_all):
    """all()/any() over a list: concrete lists element by element; a list of symbolic length only when its generic element has a concrete truth value"""
    if isinstance(x, Post): x = post_as_seq(x)
    items = x.items if isinstance(x, PList) else list(x) if isinstance(x, (list, tuple)) else None
    if items is not None:
        ts = [s.truth(v) for v in items]
        if all(isinstance(t, bool) for t in ts): return all(ts) if is_all else any(ts)
        f = band(*[tob(t) for t in ts]) if is_all else bor(*[tob(t) for t in ts])
        return f
    if isinstance(x, Seq):
        v = s.truth(x.fn(s.fresh('aa', 'I')))
        if isinstance(v, bool):
            if v == is_all: 
                # all(): every element true -> True (also for the empty list); any(): every element false -> False
                return is_all
            nonempty = s.decide(cmp('>', lift(x.n), 0))
            return (not is_all) if nonempty else is_all
        raise Unsupported("all()/any() over a list of symbolic length with a symbolic condition")
    raise Unsupported("all()/any() of %r" % (x,))


def _zip(s, *xs):
    """zip of lists: the list of tuples (shortest length for concrete lists; symbolic lists must have provably... the SAME length term)"""
    xs = [post_as_seq(x) if isinstance(x, Post) else x for x in xs]
    if all(isinstance(x, (PList, list, tuple)) for x in xs):
        return PList([tuple(t) for t in zip(*[(x.items if isinstance(x, PList) else x) for x in xs])])
    if all(isinstance(x, Seq) for x in xs):
        n0 = xs[0].n
        for x in xs[1:]:
            if x.n is not n0 and not (isinstance(x.n, T) and isinstance(n0, T) and ir.ring_equal(x.n, n0)):
                if not s.decide(eq(lift(x.n), lift(n0))): raise Unsupported("zip of lists whose lengths may differ")
        q = Seq(n0, lambda i, xs=xs: tuple(x.fn(i) for x in xs), tag=('zip',) + tuple(x.tag for x in xs))
        cs = [x.conds for x in xs if x.conds]
        if cs: q.conds = lambda i, cs=cs: [c_ for f_ in cs for c_ in f_(i)]
        return q
    raise Unsupported("zip(%r)" % (xs,))


def _type_of(s, x):
    if isinstance(x, Obj) and x.cls == '$Path': return ModRef('Path')
    if isinstance(x, Obj) and x.cls in s.src.classes: return Fn('class', name=x.cls)
    return Opaque("type")


def _open(s, *a, **k):
    from . import iomodel
    return iomodel.open_(s, *a, **k)


# ================================================================================================ path enumeration
class Path:
    def __init__(s, pc, outcome, value, ex):
        s.pc = pc; s.outcome = outcome; s.value = value; s.ex = ex

    def __repr__(s): return "Path(%s %s, %d conds)" % (s.outcome, s.value if s.outcome == 'raise' else '', len(s.pc))


def explore(src, runner, contracts=None, pre=(), max_paths=400, setup=None):
    """all feasible paths of runner(ex).  `pre` (list of B) is assumed first on every path."""
    out = []; stack = [[]]
    while stack:
        oracle = stack.pop()
        ex = Exec(src, oracle, contracts)
        for p in pre: ex.pc.append(tob(p))
        if setup: setup(ex)
        try:
            v = runner(ex); oc = 'return'
        except Raised as r:
            v = r.exc; oc = 'raise'
            ex.raise_node = r.node
        except Ret as r:
            v = r.v; oc = 'return'
        except (TypeError, AttributeError) as e:
            # an uninterpreted value reached arithmetic, or a construct the value model does not cover (e.g. tuple() of a list of symbolic
            # length): the code is outside the modelled subset here - no verdict (exit 3, native fallback), not a checker crash
            import traceback as _tb
            where = _tb.extract_tb(e.__traceback__)[-1]
            raise Unsupported("the executor cannot interpret this code (%s: %s at %s:%d)" % (type(e).__name__, e, where.filename.split('/')[-1], where.lineno))
        for i in range(len(oracle), len(ex.taken)):
            t = ex.taken[i]
            if isinstance(t, tuple): continue          # forced: sibling infeasible
            stack.append([x[1] if isinstance(x, tuple) else x for x in ex.taken[:i]] + [not t])
        if z3_check(ex.pc, 10000) == z3.unsat: continue
        out.append(Path(list(ex.pc), oc, v, ex))
        if len(out) > max_paths: raise Unsupported("more than %d paths" % max_paths)
    return out


def explore_thunk(ex, thunk, base_pc=None, max_paths=64):
    """path enumeration of a lazily evaluated element (closure bound to executor `ex`, e.g. Seq.fn(j)) after the path that
    created it has finished: the executor's path state is temporarily replaced; returns [Path]"""
    saved = (ex.oracle, ex.taken, ex.pc, ex.abnormal, ex.requires)
    base = list(ex.pc if base_pc is None else base_pc)
    out = []; stack = [[]]
    try:
        while stack:
            oracle = stack.pop()
            ex.oracle = list(oracle); ex.taken = []; ex.pc = list(base); ex.abnormal = []; ex.requires = []
            try:
                v = thunk(); oc = 'return'
            except Raised as r:
                v = r.exc; oc = 'raise'
            for i in range(len(oracle), len(ex.taken)):
                t = ex.taken[i]
                if isinstance(t, tuple): continue
                stack.append([x[1] if isinstance(x, tuple) else x for x in ex.taken[:i]] + [not t])
            if z3_check(ex.pc, 10000) == z3.unsat: continue
            p = Path(list(ex.pc), oc, v, ex); p.abnormal = list(ex.abnormal)
            out.append(p)
            if len(out) > max_paths: raise Unsupported("more than %d paths in a lazily evaluated element" % max_paths)
    finally:
        ex.oracle, ex.taken, ex.pc, ex.abnormal, ex.requires = saved
    return out
