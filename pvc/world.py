"""Symbolic argument builders: records with the field layout of the real attrs classes (checked against the source),
numeric leaves symbolic, control strings concrete.  Everything built here is caller-owned ('external')."""
from .ir import var, lift, cmp, band, bor, eq, ne, TRUE
from .symex import Obj, PList, Seq, Opaque
from .source import Unsupported

EXT = 'external'


def check_layout(src, cls, fields):
    want = [f[0] for f in src.attrs_fields(cls)]
    if list(fields) != want:
        raise Unsupported("field layout of %s changed: source has %s, builder has %s" % (cls, want, list(fields)))


def mk(src, cls, tag=None, **fields):
    """record with the source's field layout; fields the builder does not know are accepted when they have a constant default"""
    import ast as _ast
    spec = src.attrs_fields(cls)
    names = [f[0] for f in spec]
    unknown = [k for k in fields if k not in names]
    if unknown: raise Unsupported("field layout of %s changed: builder supplies %s, source has %s" % (cls, unknown, names))
    vals = {}
    for (name, d, v, c, has) in spec:
        if name in fields: vals[name] = fields[name]
        elif has and (d is None or isinstance(d, _ast.Constant)): vals[name] = d.value if d is not None else None
        elif has and isinstance(d, _ast.Call) and isinstance(d.func, _ast.Name) and d.func.id in ('dict', 'list') and not d.args and not d.keywords:
            # attr.ib(factory=dict/list): per-instance mutable state, empty on a new object; it belongs to the (external) object, so a write to it is a write to state that outlives the call
            from .symex import PDict as _PD, PList as _PL
            v_ = _PD() if d.func.id == 'dict' else _PL([])
            v_.owner = EXT; v_.tag = "%s.%s" % (cls, name)
            vals[name] = v_
        else: raise Unsupported("field layout of %s changed: source has %s, builder has %s" % (cls, names, list(fields)))
    o_ = Obj(cls, vals, owner=EXT, tag=tag or cls)
    for v_ in vals.values():
        if isinstance(v_, dict) and getattr(v_, 'tag', None) == "%s.%s" % (cls, [k for k, x in vals.items() if x is v_][0]): v_.holder = o_
    return o_


def component(src, t, vp_type='antoine', uniquac=True):
    return mk(src, 'Component', tag='component' + t,
              name="comp" + t, molecular_weight=var("M" + t),
              vapour_pressure_constants=mk(src, 'VaporPressureConstants', a=var("vpa" + t), b=var("vpb" + t), c=var("vpc" + t), type=vp_type),
              heat_capacity_constants=mk(src, 'HeatCapacityConstants', a=var("ca" + t), b=var("cb" + t), c=var("cc" + t), d=var("cd" + t)),
              uniquac_constants=mk(src, 'UNIQUACConstants', r=var("r" + t), q_geometric=var("q" + t), q_interaction=var("qi" + t)) if uniquac else None)


def nrtl(src, two_alphas=False, swapped=False):
    if not swapped:
        return mk(src, 'NRTLParameters', g12=var('g12'), g21=var('g21'), alpha12=var('al12'),
                  alpha21=var('al21') if two_alphas else None, a12=var('a12'), a21=var('a21'))
    return mk(src, 'NRTLParameters', g12=var('g21'), g21=var('g12'), alpha12=var('al21') if two_alphas else var('al12'),
              alpha21=var('al12') if two_alphas else None, a12=var('a21'), a21=var('a12'))


def uniquac(src, swapped=False):
    if not swapped:
        return mk(src, 'UNIQUACParameters', alpha_12=var('ua12'), alpha_21=var('ua21'), beta_12=var('ub12'), beta_21=var('ub21'), z=var('z'))
    return mk(src, 'UNIQUACParameters', alpha_12=var('ua21'), alpha_21=var('ua12'), beta_12=var('ub21'), beta_21=var('ub12'), z=var('z'))


def mixture(src, swapped=False, vp=('antoine', 'antoine'), nr='one', uq=True, ucomp=True):
    a, b = ('2', '1') if swapped else ('1', '2')
    va, vb = (vp[1], vp[0]) if swapped else vp
    return mk(src, 'Mixture', tag='mixture', name='mix',
              first_component=component(src, a, va, ucomp), second_component=component(src, b, vb, ucomp),
              nrtl_params=None if nr is None else nrtl(src, nr == 'two', swapped),
              uniquac_params=uniquac(src, swapped) if uq else None)


def composition(src, p, typ):
    return mk(src, 'Composition', tag='composition', p=lift(p) if not isinstance(p, str) else p, type=typ)


def permeance(src, v, units='kg/(m2*h*kPa)'):
    return mk(src, 'Permeance', tag='permeance', value=lift(v), units=units)


def membrane(src, experiments=None, sets=None):
    from .symex import Opaque as _Op, Seq as _Seq
    if isinstance(experiments, _Op):
        # all experiments of the membrane (every component): a list of symbolic length whose elements are not interpreted here; the
        # experiments of one component come from get_penetrant_data (by contract, at most as many)
        experiments = Obj('IdealExperiments', dict(experiments=_Seq(var('n_all_experiments', 'I'), lambda i: _Op('experiment'), owner=EXT, tag=('all experiments',))), owner=EXT, tag='ideal experiments')
    return mk(src, 'Membrane', tag='membrane', name='mem', ideal_experiments=experiments, diffusion_curve_sets=sets, path=Opaque('path'))


def conditions(src, comp_type='weight', perm_T=False, perm_p=False, program=None):
    return mk(src, 'Conditions', tag='conditions', membrane_area=var('A'), initial_feed_temperature=var('T0'), initial_feed_amount=var('m0'),
              initial_feed_composition=composition(src, var('x0'), comp_type),
              permeate_temperature=var('Tp') if perm_T else None, permeate_pressure=var('pp') if perm_p else None,
              temperature_program=program)


def positive(*names): return [cmp('>', var(n), 0) for n in names]


def mixture_pre(swapped=False):
    """admissibility of a mixture: positive molar masses"""
    return positive('M1', 'M2')
