"""pvc check driver.

    python3-vt -m pvc.check C13 [--tier quick|thorough]

exit 0  every obligation of the property discharged (known findings aside)
exit 1  an obligation is refuted (validated counterexample)      -> VIOLATION property=<id> replay=<path>
exit 2  something undecided, nothing refuted                     -> UNDECIDED obligation=<name>   (no VIOLATION line)
exit 3  pvc could not run (unsupported syntax, missing function, solver disagreement, engine self-check)
"""
import sys, os, json, time, importlib, traceback, argparse, fnmatch, hashlib

HERE = os.path.dirname(os.path.dirname(os.path.abspath(__file__)))


def main(argv=None):
    ap = argparse.ArgumentParser()
    ap.add_argument('prop')
    ap.add_argument('--tier', default=os.environ.get('VERIF_TIER', 'quick'), choices=['quick', 'thorough'])
    ap.add_argument('--no-selftest', action='store_true')
    ap.add_argument('--only', default=None, help='fnmatch pattern on obligation names (debugging)')
    ap.add_argument('--jobs', type=int, default=None)
    ap.add_argument('--evidence', default=None)
    a = ap.parse_args(argv)
    seed = int(os.environ.get('VERIF_SEED', '0') or 0)
    t0 = time.time()
    prop = a.prop.upper()
    evidence_path = a.evidence or os.path.join(HERE, 'evidence', prop + '.json')
    try:
        code, ev = run(prop, a.tier, seed, a)
    except Exception as x:
        from .source import Unsupported
        kind = 'UNSUPPORTED' if isinstance(x, Unsupported) else 'CHECKER-ERROR'
        print("%s property=%s: %s" % (kind, prop, x))
        if not isinstance(x, Unsupported): traceback.print_exc()
        ev = dict(property_id=prop, tier=a.tier, seed=seed, level='other', wall_s=round(time.time() - t0, 2), violations=0,
                  coverage=dict(explanation="pvc could not run on this tree (exit 3, no verdict): %s" % str(x)[:500],
                                evaluations=1, distinct_nontrivial=0),
                  assumptions=[])
        code = 3
        if isinstance(x, Unsupported):
            # the tree is outside the verifier's reach: a bounded native corpus of the real code stands in (labelled; it can only
            # turn "no verdict" into a violation with a concrete failing input, never into a pass)
            try:
                fb = native_fallback(prop, a.tier, seed, str(x))
                if fb is not None:
                    code, ev2 = fb
                    ev['coverage'].update(ev2); ev['violations'] = 1 if code == 1 else 0
            except Exception as y:
                print("native fallback failed: %s" % y)
            if code != 1 and prop in VALIDATOR_PROPS:
                try:
                    if validators_probe_fallback(prop, a.tier, seed): code = 1; ev['violations'] = 1
                except Exception as y:
                    print("validator-switch probe failed: %s" % y)
            fw = getattr(x, 'frame_write', None)
            if code != 1 and fw is not None:
                try: sens = getattr(importlib.import_module('pvc.props.' + prop.lower()), 'FRAME_SENSITIVE', False)
                except Exception: sens = False
                if sens:
                    # the engine stopped at a heap write it cannot follow (inside a loop over a list of symbolic length), but the write
                    # itself is certain: for a property about several calls / histories that is a failed frame obligation
                    from . import replay as RP
                    r = dict(name='frame.no-write-to-state-that-outlives-a-call', prop=prop, status='refuted', backend='ownership analysis',
                             detail="certain heap write found while executing the real code symbolically: %s (%s)" % (fw, str(x)[:300]),
                             meta=dict(kind='frame', function=None, statement="no explored path writes to its arguments, to self or to module-level state", writes=fw))
                    class _S: repo = os.environ.get('PVC_REPO', '/repo')
                    cxs = type('X', (), dict(seed=seed, tier=a.tier))()
                    path = RP.write_replays(prop, [r], _S(), cxs)[0]
                    print("VIOLATION property=%s replay=%s obligation=%s%s" % (prop, path, r['name'], "" if r.get('replayed') else " no-failing-input-found"))
                    code = 1; ev['violations'] = 1
    ev['wall_s'] = round(time.time() - t0, 2)
    os.makedirs(os.path.dirname(evidence_path), exist_ok=True)
    with open(evidence_path, 'w') as f: json.dump(ev, f, indent=1, default=str)
    print("pvc %s tier=%s exit=%d wall=%.1fs evidence=%s" % (prop, a.tier, code, ev['wall_s'], os.path.relpath(evidence_path, HERE)))
    return code


VALIDATOR_PROPS = ('C15', 'C18', 'C19', 'C20')      # properties whose statements rest on invariants validated on construction


def validators_probe_fallback(prop, tier, seed):
    """tree outside the engine's reach: the attrs-switch obligation (scan + native probe) is still decided on its own"""
    from .source import Source
    from .props.common import Ctx
    from . import replay as RP
    src = Source(); cx = Ctx(src, prop, tier); cx.seed = seed
    cx.validators_always_run()
    for r in cx.extra_violations:
        path = RP.write_replays(prop, [r], src, cx)[0]
        print("VIOLATION property=%s replay=%s obligation=%s%s" % (prop, path, r['name'], "" if r.get('replayed') else " no-failing-input-found"))
        return True
    return False


def native_fallback(prop, tier, seed, reason):
    from .nativeio import native, HERE as H
    from . import replay as RP
    if not os.path.exists(os.path.join(H, 'pvc', 'native', prop.lower() + '.py')): return None
    n = 60 if tier == 'quick' else 300
    try:
        fbn = getattr(importlib.import_module('pvc.props.' + prop.lower()), 'FALLBACK_N', None)
        if fbn: n = fbn[0 if tier == 'quick' else 1]
    except Exception: pass
    cases = native(dict(cmd='corpus', prop=prop, seed=seed, n=n))
    out = native(dict(cmd='check', prop=prop, cases=cases), timeout=3000)
    cov = dict(bounded_parts=[dict(function='native corpus of %s (fallback)' % prop, bound='%d seeded concrete inputs' % len(cases), reason='pvc could not analyse this tree: ' + reason[:200])],
               native_corpus_cases=len(cases))
    seen = set()
    for c, fails in zip(cases, out):
        fails, known = split_known_native(prop, fails)
        for k in known:
            if k['id'] not in seen:
                seen.add(k['id']); print("KNOWN-FINDING: property=%s %s [%s]" % (prop, k['what'], k['id']))
        if fails and not any(str(f).startswith('CHECKER-EXCEPTION') for f in fails):
            class _S: repo = os.environ.get('PVC_REPO', '/repo')
            class _C: seed_ = seed
            r = dict(name='native-corpus-fallback', prop=prop, status='refuted', native_case=c, native_failures=fails, backend=None,
                     detail="pvc could not analyse this tree (%s); the bounded native corpus found a failing input on the real code" % reason[:200],
                     meta=dict(function='native corpus', statement='property statements evaluated numerically on the real code'))
            cxs = type('X', (), dict(seed=seed, tier=tier))()
            path = RP.write_replays(prop, [r], _S(), cxs)[0]
            print("VIOLATION property=%s replay=%s obligation=native-corpus-fallback" % (prop, path))
            return 1, cov
    return None


def split_known_native(prop, fails):
    """native failure messages tagged KNOWN[<id>] by a native fingerprint (the checker recomputed the recorded defect's exact
    value and the real code matches it) are the listed known finding <id> of this property; everything else is new"""
    import re
    ids = {k['id']: k for k in load_known().get('findings', []) if k['property'] == prop}
    new, known = [], []
    for f in fails:
        m = re.match(r'KNOWN\[(\w+)\] ', str(f))
        if m and m.group(1) in ids: known.append(ids[m.group(1)])
        else: new.append(f)
    return new, known


def load_known():
    p = os.path.join(HERE, 'known_findings.json')
    if not os.path.exists(p): return dict(findings=[], fixed=[])
    return json.load(open(p))


def run(prop, tier, seed, a):
    from .source import Source, Unsupported
    from .solve import discharge
    from .props.common import Ctx
    from . import replay as RP
    mod = importlib.import_module('pvc.props.' + prop.lower())
    src = Source()
    cx = Ctx(src, prop, tier)
    cx.seed = seed
    tg = time.time()
    if prop in VALIDATOR_PROPS: cx.validators_always_run()          # precondition of the attrs constructor contract (props/common.py)
    mod.obligations(cx)
    cx.cache_coherence()          # memo caches met on the explored paths (no obligations if there are none)
    from .nativeio import flush_differential
    diff_err = None
    try:
        flush_differential(cx)
    except Unsupported as x:
        # engine and CPython disagree: nothing the engine derives is believed on its own.  Obligations are still solved, because a
        # refutation that the REAL code reproduces (native replay), or a structural finding (write to state that outlives the call -
        # which is also what makes a function's results history dependent and the differential fail), stands without the engine
        diff_err = x
    gen_s = time.time() - tg
    obs = cx.obs
    if a.only: obs = [o for o in obs if fnmatch.fnmatch(o.name, a.only)]
    if len(cx.obs) < getattr(mod, 'MIN_OBLIGATIONS', 1):
        raise Unsupported("only %d obligations generated for %s (registered minimum %d): vacuous run" % (len(cx.obs), prop, getattr(mod, 'MIN_OBLIGATIONS', 1)))
    timeout = getattr(mod, 'TIMEOUT', {}).get(tier, 120 if tier == 'quick' else 600)
    ts = time.time()
    results = discharge(obs, timeout_s=timeout, jobs=a.jobs, second=(tier == 'thorough'), seed=seed)
    solve_s = time.time() - ts
    known = load_known()
    kf = [k for k in known.get('findings', []) if k['property'] == prop]
    byname = {r['name']: r for r in results}
    refuted, undecided, errors, disagree, kf_lines = [], [], [], [], []
    for r in results:
        st = r['status']
        if st == 'error': errors.append(r)
        elif st == 'disagree': disagree.append(r)
        elif st == 'undecided': undecided.append(r)
        elif st == 'refuted' and r.get('expect') == 'sat':
            # a cover / must-fail that fails means the run is vacuous or the encoding proves too much: a checker problem, never a violation
            r['detail'] = "VACUITY/SANITY guard failed: " + (r.get('detail') or '')
            errors.append(r)
        elif st == 'refuted':
            if r.get('meta', {}).get('kind') == 'fingerprint':
                continue                       # a fingerprint that fails only means "not the known defect"
            k = match_known(r, kf, byname)
            if k == 'undecided':
                r['detail'] = "matches a known finding but its fingerprint is undecided: " + (r.get('detail') or '')
                undecided.append(r)
            elif k is not None:
                r['known_finding'] = k['id']; kf_lines.append((k, r))
            else:
                refuted.append(r)
    # fingerprint obligations are auxiliary: they never count as undecided/refuted on their own
    undecided = [r for r in undecided if r.get('meta', {}).get('kind') != 'fingerprint']
    # native side checks of the property module (bounded stand-ins, differential engine check)
    extra = {}
    if hasattr(mod, 'native_checks'):
        extra = mod.native_checks(cx, results) or {}
    elif getattr(mod, 'NATIVE_BOUNDED', None):
        extra = native_bounded(cx, prop, mod.NATIVE_BOUNDED[0 if tier == 'quick' else 1])
    if extra:
        for v in extra.get('violations', []):
            refuted.append(v)
        for v in extra.get('errors', []):
            errors.append(v)
        for v in extra.get('undecided', []):
            undecided.append(dict(name=v['name'], status='undecided', detail=v.get('detail', ''), meta={}))
    for v in cx.extra_violations: refuted.append(v)
    for v in cx.extra_undecided: undecided.append(dict(name=v['name'], status='undecided', detail=v.get('detail', ''), meta={}))
    code = 0
    lines = []
    if errors or disagree: code = 3
    elif refuted: code = 1
    elif undecided: code = 2
    seen_kf = set()
    for k, r in kf_lines:
        if k['id'] in seen_kf: continue
        seen_kf.add(k['id'])
        print("KNOWN-FINDING: property=%s %s [%s]" % (prop, k['what'], k['id']))
    if code == 1:
        paths = RP.write_replays(prop, refuted, src, cx)
        # an obligation whose hypotheses quantify over an ARBITRARY loop state (inductive step) is refuted by a "counterexample to
        # induction", which need not be reachable: it is a violation only if the real code reproduces it; otherwise undecided
        keep = []
        for r, path in zip(refuted, paths):
            if r.get('meta', {}).get('inductive') and not r.get('replayed'):
                r['detail'] = "counterexample to induction not reproduced on the real code (%s): %s" % (path, r.get('detail', ''))
                undecided.append(r)
            else: keep.append((r, path))
        if diff_err is not None:
            keep = [(r, p_) for r, p_ in keep if r.get('replayed') or r.get('meta', {}).get('kind') in ('frame', 'scan') or r.get('native_failures')]
            if not keep: raise diff_err
        if not keep:
            code = 2
        refuted = [r for r, _ in keep]; paths = [p_ for _, p_ in keep]
    if diff_err is not None and code != 1: raise diff_err
    if code == 1:
        for r, path in zip(refuted, paths):
            suffix = "" if r.get('replayed') else " no-failing-input-found"
            print("VIOLATION property=%s replay=%s obligation=%s%s" % (prop, path, r['name'], suffix))
    if code == 2:
        for r in undecided: print("UNDECIDED obligation=%s (%s)" % (r['name'], r.get('detail', '')[:200]))
    if code == 3:
        for r in errors: print("CHECKER-ERROR obligation=%s %s" % (r.get('name'), r.get('detail', '')[:800]))
        for r in disagree: print("SOLVER-DISAGREEMENT obligation=%s %s" % (r['name'], r.get('detail')))
    counted = [r for r in results if r.get('meta', {}).get('kind') != 'fingerprint' and not r.get('known_finding')]
    n_dis = sum(1 for r in counted if r['status'] == 'discharged')
    backends = {}
    for r in results:
        if r.get('backend'): backends[r['backend']] = backends.get(r['backend'], 0) + 1
    level = getattr(mod, 'LEVEL', 'proof')
    samples = []
    for r in results[:6] + [r for r in results if r['status'] != 'discharged'][:6]:
        samples.append(dict(obligation=r['name'], status=r['status'], backend=r.get('backend'), solver_s=r.get('time'),
                            function=r.get('meta', {}).get('function'), statement=r.get('meta', {}).get('statement'),
                            detail=(r.get('detail') or '')[:200]))
    cov = dict(obligations=len(counted), discharged=n_dis,
               checker_cmd="python3-vt -m pvc.check %s --tier %s" % (prop, tier),
               trusted_base=trusted_base(cx),
               samples=samples,
               functions_under_contract=cx.functions,
               per_obligation=[dict(name=r['name'], status=r['status'], backend=r.get('backend'), solver_s=r.get('time'),
                                    expect=r.get('expect'), kind=r.get('meta', {}).get('kind', 'post'),
                                    second_opinion=(r.get('second') or {}).get('answer'), known_finding=r.get('known_finding'), detail=(r.get('detail') or '')[:300] or None,
                                    info={k: str(v)[:300] for k, v in r.get('meta', {}).items() if k in ('found', 'outcomes', 'why', 'statement', 'function', 'writes', 'loops')},
                                    sub=[x for x in r.get('sublog', [])][:20]) for r in results],
               back_ends=backends, paths_explored=cx.paths,
               second_opinions=dict(backend='z3-4.8.12(cli)', asked=sum(1 for r in results if r.get('second')), agreeing=sum(1 for r in results if r.get('second') and r['second'].get('answer') in ('unsat', 'sat')),
                                    unknown=sum(1 for r in results if r.get('second') and r['second'].get('answer') not in ('unsat', 'sat'))),
               generation_s=round(gen_s, 2), solver_wall_s=round(solve_s, 2),
               solver_cpu_s=round(sum(r.get('time') or 0 for r in results), 2),
               undecided=[r['name'] for r in undecided], refuted=[r['name'] for r in refuted],
               known_findings=[dict(id=k['id'], obligation=r['name']) for k, r in kf_lines],
               bounded_parts=cx.bounded, notes=cx.notes, differential_samples=getattr(cx, 'diff_total', 0),
               repo=src.repo, source_digest=digest(src),
               explanation=("contract-based deductive verification: every obligation is generated from the current "
                            "source text of the functions listed under functions_under_contract and discharged by an SMT solver"))
    cov.update(extra.get('coverage', {}))
    ev = dict(property_id=prop, tier=tier, seed=seed, level=level, coverage=cov,
              assumptions=cx.assumptions + GLOBAL_ASSUMPTIONS, wall_s=0.0, violations=len(refuted))
    return code, ev


def native_bounded(cx, prop, n):
    """bounded stand-in next to the proof (labelled, never counted as proved): the property's native checker on a seeded corpus of
    concrete inputs of the real code - reaches floating-point effects the real-number model cannot see"""
    from .nativeio import native
    cases = native(dict(cmd='corpus', prop=prop, seed=getattr(cx, 'seed', 0), n=n))
    out = native(dict(cmd='check', prop=prop, cases=cases), timeout=3000)
    viol = []; errs = []
    for c, fails in zip(cases, out):
        if any(str(f).startswith('CHECKER-EXCEPTION') for f in fails): errs.append(dict(name='native-corpus', detail=str(fails[0])[:600])); continue
        fails, _known = split_known_native(prop, fails)
        if fails and not viol:
            viol.append(dict(name="native-corpus", prop=prop, status='refuted', native_case=c, native_failures=fails, detail="bounded native corpus: the real code violates the property on this input",
                             meta=dict(function='native corpus', statement="property statements evaluated numerically on the real code")))
    cx.bounded.append(dict(function='native corpus of %s' % prop, bound="%d seeded concrete inputs (built-in and random components/mixtures, end points)" % len(cases),
                           reason="floating-point behaviour (rounding at end points etc.) is outside the real-number model: bounded stand-in, not counted as proved"))
    return dict(violations=viol, errors=errs[:1], coverage=dict(native_corpus_cases=len(cases)))


def match_known(r, kf, byname):
    """known finding k if r matches its obligation pattern and every fingerprint of k discharges; a fingerprint that is merely
    undecided (solver budget) makes r undecided, never a violation and never a silently accepted finding"""
    for k in kf:
        if not any(fnmatch.fnmatch(r['name'], pat) for pat in k['obligations']): continue
        fps = [x for n, x in byname.items() if x.get('meta', {}).get('kind') == 'fingerprint' and x['meta'].get('finding') == k['id']]
        # fingerprints that belong to the same configuration as r (same dotted prefix before `.fingerprint.`) decide for r; only if
        # there is none do all fingerprints of the finding decide
        rt = r['name'].split('.')
        def scope(x):
            t = x['name'].split('.'); t = t[:t.index('fingerprint')] if 'fingerprint' in t else t
            return rt[:len(t)] == t
        scoped = [x for x in fps if scope(x)]
        if scoped: fps = scoped
        if fps and all(x['status'] == 'discharged' for x in fps): return k
        if fps and not any(x['status'] == 'refuted' for x in fps): return 'undecided'
    return None


def digest(src):
    h = hashlib.sha256()
    for p in sorted(src.text): h.update(p.encode()); h.update(src.text[p].encode())
    return h.hexdigest()[:16]


def trusted_base(cx):
    import z3
    return ["pvc executor (pvc/symex.py): Python subset semantics of DESIGN 2.2",
            "real-number model of floats (no rounding, NaN, inf, overflow)",
            "z3 %s (primary), /usr/bin/z3 4.8.12 and cvc5 (fallback / second opinion)" % z3.get_version_string(),
            "exp/log treated as opaque atoms with atom unification (sound, incomplete)",
            "attrs-generated __init__: converter, then validators, then __attrs_post_init__, fields in declaration order"]


GLOBAL_ASSUMPTIONS = [
    "floats are mathematical reals; every division carries the side condition denominator != 0 (the denominator == 0 exit is abnormal, never a normal return)",
    "numpy.exp/log/power/multiply/... are the mathematical functions applied element-wise",
    "type annotations, docstrings, print, f-strings and datetime are dropped by the extraction (DESIGN 2.1)",
]

if __name__ == '__main__':
    sys.exit(main())
