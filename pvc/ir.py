"""pvc term IR: real/int terms and boolean formulas, interned; differentiation, float evaluation, substitution.

Terms are built by the symbolic executor from the *real* PyVaporation source.  Decimal literals are exact
rationals.  `exp`/`log` are kept as atoms (no theory in the solvers, see DESIGN 2.3).
"""
from fractions import Fraction
import math

_TAB = {}
_NEXT = [0]


class T:
    __slots__ = ("op", "a", "id")

    def __add__(s, o): return mk('+', s, lift(o))
    def __radd__(s, o): return mk('+', lift(o), s)
    def __sub__(s, o): return mk('-', s, lift(o))
    def __rsub__(s, o): return mk('-', lift(o), s)
    def __mul__(s, o): return mk('*', s, lift(o))
    def __rmul__(s, o): return mk('*', lift(o), s)
    def __truediv__(s, o): return mk('/', s, lift(o))
    def __rtruediv__(s, o): return mk('/', lift(o), s)
    def __neg__(s): return mk('-', lift(0), s)
    def __pow__(s, n): return power(s, n)
    def __rpow__(s, b): return power(lift(b), s)
    def __lt__(s, o): return cmp('<', s, o)
    def __le__(s, o): return cmp('<=', s, o)
    def __gt__(s, o): return cmp('>', s, o)
    def __ge__(s, o): return cmp('>=', s, o)
    def __repr__(s): return show(s)
    def __hash__(s): return s.id
    def __eq__(s, o): return s is o
    def __ne__(s, o): return s is not o
    def __bool__(s): raise TypeError("symbolic term used as a Python bool: " + show(s)[:80])
    def __reduce__(s): return (_rebuild_T, (s.op, s.a))


class B:
    __slots__ = ("op", "a", "id")

    def __repr__(s): return showb(s)
    def __hash__(s): return s.id
    def __eq__(s, o): return s is o
    def __ne__(s, o): return s is not o
    def __bool__(s): raise TypeError("symbolic formula used as a Python bool: " + showb(s)[:80])
    def __and__(s, o): return band(s, o)
    def __or__(s, o): return bor(s, o)
    def __invert__(s): return bnot(s)
    def __reduce__(s): return (_rebuild_B, (s.op, s.a))


def _key(x):
    return ('#', x.id) if isinstance(x, (T, B)) else x


def _intern(cls, op, a):
    k = (cls.__name__, op) + tuple(_key(x) for x in a)
    r = _TAB.get(k)
    if r is None:
        r = cls.__new__(cls)
        r.op = op; r.a = a; r.id = _NEXT[0]; _NEXT[0] += 1
        _TAB[k] = r
    return r


def _rebuild_T(op, a): return _intern(T, op, a)
def _rebuild_B(op, a): return _intern(B, op, a)


# ------------------------------------------------------------------------------------------------ terms
def lift(v):
    if isinstance(v, T): return v
    if isinstance(v, bool): raise TypeError("bool used in arithmetic")
    if isinstance(v, int): return _intern(T, 'c', (Fraction(v),))
    if isinstance(v, float):
        if v != v or v in (float('inf'), float('-inf')): raise TypeError("non-finite literal")
        return _intern(T, 'c', (Fraction(repr(v)),))       # decimal literal taken exactly
    if isinstance(v, Fraction): return _intern(T, 'c', (v,))
    raise TypeError("cannot lift %r" % type(v))


def const(v): return lift(v)
def var(n, sort='R'): return _intern(T, 'v', (n, sort))
def isc(t, v=None): return t.op == 'c' and (v is None or t.a[0] == v)
def is_num(v): return isinstance(v, (T, int, float, Fraction)) and not isinstance(v, bool)


def mk(op, a, b):
    if isc(a) and isc(b):
        x, y = a.a[0], b.a[0]
        if op == '+': return lift(x + y)
        if op == '-': return lift(x - y)
        if op == '*': return lift(x * y)
        if op == '/' and y != 0: return lift(x / y)
    if op == '+' and isc(a, 0): return b
    if op in '+-' and isc(b, 0): return a
    if op == '*' and (isc(a, 0) or isc(b, 0)): return lift(0)
    if op == '*' and isc(a, 1): return b
    if op in '*/' and isc(b, 1): return a
    if op == '/' and isc(a, 0): return lift(0)          # definedness (b != 0) is tracked by the executor
    if op == '-' and a is b: return lift(0)
    if op == '*' and a.op == 'exp' and b.op == 'exp': return exp(a.a[0] + b.a[0])     # exp(u)exp(v) = exp(u+v)
    if op == '/' and a.op == 'exp' and b.op == 'exp': return exp(a.a[0] - b.a[0])
    if op == '*' and (_has_exp_factor(a) and _has_exp_factor(b)):
        fa, ea = _split_exp(a); fb, eb = _split_exp(b)
        e = exp(ea + eb)
        rest = fa if fb is None else fb if fa is None else _intern(T, '*', (fa, fb))
        return e if rest is None else mk('*', rest, e) if not _has_exp_factor(rest) else _intern(T, '*', (rest, e))
    return _intern(T, op, (a, b))


def _has_exp_factor(t):
    if t.op == 'exp': return True
    if t.op == '*': return _has_exp_factor(t.a[0]) or _has_exp_factor(t.a[1])
    return False


def _split_exp(t):
    """t = rest * exp(e)  ->  (rest or None, e)   for products (through '*' only) containing exp factors"""
    if t.op == 'exp': return None, t.a[0]
    if t.op == '*':
        l, r = t.a
        if _has_exp_factor(l) and _has_exp_factor(r):
            fl, el = _split_exp(l); fr, er = _split_exp(r)
            rest = fl if fr is None else fr if fl is None else _intern(T, '*', (fl, fr))
            return rest, el + er
        if _has_exp_factor(l):
            fl, el = _split_exp(l)
            return (r if fl is None else _intern(T, '*', (fl, r))), el
        fr, er = _split_exp(r)
        return (l if fr is None else _intern(T, '*', (l, fr))), er
    raise ValueError


def power(b, n):
    if isinstance(n, T) and isc(n) and n.a[0].denominator == 1: n = int(n.a[0])
    if isinstance(n, float) and n == int(n): n = int(n)
    if isinstance(n, int):
        if n == 0: return lift(1)
        if n < 0: return lift(1) / power(b, -n)
        r = b
        for _ in range(n - 1): r = r * b
        return r
    return exp(log(lift(b)) * lift(n))          # b**u := exp(log(b)*u); b>0 recorded by the executor


def exp(u):
    u = lift(u)
    if isc(u, 0): return lift(1)
    if u.op == 'log': return u.a[0]
    return _intern(T, 'exp', (u,))


def log(u):
    u = lift(u)
    if isc(u, 1): return lift(0)
    if u.op == 'exp': return u.a[0]
    return _intern(T, 'log', (u,))


def app(name, *args): return _intern(T, 'app', (name,) + tuple(lift(a) for a in args))
def ite(c, a, b):
    if isinstance(c, bool): return lift(a) if c else lift(b)
    if c.op == 'lit': return lift(a) if c.a[0] else lift(b)
    a, b = lift(a), lift(b)
    if a is b: return a
    return _intern(T, 'ite', (c, a, b))


def tabs(x):
    x = lift(x)
    if isc(x): return lift(abs(x.a[0]))
    return ite(cmp('>=', x, 0), x, -x)


def tmax(a, b):
    a, b = lift(a), lift(b)
    if isc(a) and isc(b): return a if a.a[0] >= b.a[0] else b
    return ite(cmp('>=', a, b), a, b)


def tmin(a, b):
    a, b = lift(a), lift(b)
    if isc(a) and isc(b): return a if a.a[0] <= b.a[0] else b
    return ite(cmp('<=', a, b), a, b)


# ------------------------------------------------------------------------------------------------ formulas
TRUE = _intern(B, 'lit', (True,))
FALSE = _intern(B, 'lit', (False,))


def blit(v): return TRUE if v else FALSE
def tob(v):
    if isinstance(v, B): return v
    if isinstance(v, bool): return blit(v)
    raise TypeError("not a formula: %r" % (v,))


_FLIP = {'<': '>=', '<=': '>', '>': '<=', '>=': '<', '==': '!=', '!=': '=='}


def cmp(k, a, b):
    a, b = lift(a), lift(b)
    if isc(a) and isc(b):
        x, y = a.a[0], b.a[0]
        return blit({'<': x < y, '<=': x <= y, '>': x > y, '>=': x >= y, '==': x == y, '!=': x != y}[k])
    if a is b: return blit(k in ('<=', '>=', '=='))
    return _intern(B, 'cmp', (k, a, b))


def eq(a, b): return cmp('==', a, b)
def ne(a, b): return cmp('!=', a, b)
def bnot(b):
    b = tob(b)
    if b.op == 'lit': return blit(not b.a[0])
    if b.op == 'not': return b.a[0]
    if b.op == 'cmp': return _intern(B, 'cmp', (_FLIP[b.a[0]], b.a[1], b.a[2]))
    return _intern(B, 'not', (b,))


def band(*xs):
    out = []
    for x in xs:
        x = tob(x)
        if x.op == 'lit':
            if not x.a[0]: return FALSE
            continue
        if x.op == 'and': out.extend(x.a)
        else: out.append(x)
    if not out: return TRUE
    if len(out) == 1: return out[0]
    return _intern(B, 'and', tuple(out))


def bor(*xs):
    out = []
    for x in xs:
        x = tob(x)
        if x.op == 'lit':
            if x.a[0]: return TRUE
            continue
        if x.op == 'or': out.extend(x.a)
        else: out.append(x)
    if not out: return FALSE
    if len(out) == 1: return out[0]
    return _intern(B, 'or', tuple(out))


def implies(a, b): return bor(bnot(a), b)
def bvar(n): return _intern(B, 'bvar', (n,))


# ------------------------------------------------------------------------------------------------ printing
def show(t, depth=0):
    o = t.op
    if o == 'app': return "%s(%s)" % (t.a[0], ', '.join(show(x) for x in t.a[1:]))
    if o == 'c':
        f = t.a[0]
        return str(f.numerator) if f.denominator == 1 else "%s/%s" % (f.numerator, f.denominator)
    if o == 'v': return t.a[0]
    if o in ('exp', 'log'): return "%s(%s)" % (o, show(t.a[0]))
    if o == 'ite': return "ite(%s, %s, %s)" % (showb(t.a[0]), show(t.a[1]), show(t.a[2]))
    return "(%s %s %s)" % (show(t.a[0]), o, show(t.a[1]))


def showb(b):
    o = b.op
    if o == 'cmp': return "(%s %s %s)" % (show(b.a[1]), b.a[0], show(b.a[2]))
    if o == 'lit': return str(b.a[0])
    if o == 'bvar': return b.a[0]
    if o == 'not': return "not %s" % showb(b.a[0])
    return "(" + (" %s " % o).join(showb(x) for x in b.a) + ")"


def brief(x, n=160):
    s = show(x) if isinstance(x, T) else showb(x) if isinstance(x, B) else repr(x)
    return s if len(s) <= n else s[:n] + "...<%d chars>" % len(s)


# ------------------------------------------------------------------------------------------------ traversal
def walk(x, fn, seen=None):
    """pre-order visit of every distinct sub-node (terms and formulas)"""
    if seen is None: seen = set()
    stack = [x]
    while stack:
        n = stack.pop()
        if not isinstance(n, (T, B)) or n.id in seen: continue
        seen.add(n.id)
        fn(n)
        if isinstance(n, T) and n.op in ('c', 'v'): continue
        for c in n.a:
            if isinstance(c, (T, B)): stack.append(c)
    return seen


def free_vars(*xs):
    out = {}
    seen = set()
    for x in xs:
        walk(x, lambda n: out.setdefault(n.a[0], n) if isinstance(n, T) and n.op == 'v' else None, seen)
    return out


def collect(xs, pred):
    out = []
    seen = set()
    for x in xs:
        walk(x, lambda n: out.append(n) if pred(n) else None, seen)
    return out


def dep(t, x, memo=None):
    if memo is None: memo = {}
    r = memo.get(t.id)
    if r is not None: return r
    if t.op == 'c': r = False
    elif t.op == 'v': r = t.a[0] == x
    else: r = any(dep(a, x, memo) for a in t.a if isinstance(a, (T, B)))
    memo[t.id] = r
    return r


def subst(x, m, memo=None):
    """substitute variables (by name) and whole nodes (by id): m maps name -> T  and/or  ('#', id) -> T"""
    if memo is None: memo = {}
    r = memo.get(x.id)
    if r is not None: return r
    k = ('#', x.id)
    if k in m: r = m[k]
    elif isinstance(x, T):
        o = x.op
        if o == 'c': r = x
        elif o == 'v': r = lift(m[x.a[0]]) if x.a[0] in m else x
        elif o == 'app': r = app(x.a[0], *[subst(a, m, memo) for a in x.a[1:]])
        elif o == 'exp': r = exp(subst(x.a[0], m, memo))
        elif o == 'log': r = log(subst(x.a[0], m, memo))
        elif o == 'ite': r = ite(subst(x.a[0], m, memo), subst(x.a[1], m, memo), subst(x.a[2], m, memo))
        else: r = mk(o, subst(x.a[0], m, memo), subst(x.a[1], m, memo))
    else:
        o = x.op
        if o in ('lit', 'bvar'): r = x
        elif o == 'cmp': r = cmp(x.a[0], subst(x.a[1], m, memo), subst(x.a[2], m, memo))
        elif o == 'not': r = bnot(subst(x.a[0], m, memo))
        elif o == 'and': r = band(*[subst(a, m, memo) for a in x.a])
        elif o == 'or': r = bor(*[subst(a, m, memo) for a in x.a])
        else: raise ValueError(o)
    memo[x.id] = r
    return r


# ------------------------------------------------------------------------------------------------ calculus (ghost only)
def D(t, x, memo=None, dmemo=None):
    """d t / d x  for variable name x.  Trusted; cross-checked numerically on every run (pvc.selfcheck)."""
    if memo is None: memo = {}
    if dmemo is None: dmemo = {}
    r = memo.get(t.id)
    if r is not None: return r
    o = t.op
    if not dep(t, x, dmemo): r = lift(0)
    elif o == 'v': r = lift(1)
    elif o == '+': r = D(t.a[0], x, memo, dmemo) + D(t.a[1], x, memo, dmemo)
    elif o == '-': r = D(t.a[0], x, memo, dmemo) - D(t.a[1], x, memo, dmemo)
    elif o == '*': r = D(t.a[0], x, memo, dmemo) * t.a[1] + t.a[0] * D(t.a[1], x, memo, dmemo)
    elif o == '/':
        if not dep(t.a[1], x, dmemo): r = D(t.a[0], x, memo, dmemo) / t.a[1]
        else: r = (D(t.a[0], x, memo, dmemo) * t.a[1] - t.a[0] * D(t.a[1], x, memo, dmemo)) / (t.a[1] * t.a[1])
    elif o == 'exp': r = t * D(t.a[0], x, memo, dmemo)
    elif o == 'log': r = D(t.a[0], x, memo, dmemo) / t.a[0]
    elif o == 'ite': r = ite(t.a[0], D(t.a[1], x, memo, dmemo), D(t.a[2], x, memo, dmemo))      # piecewise (away from the switching surface)
    else: raise ValueError("cannot differentiate through %s" % o)
    memo[t.id] = r
    return r


# ------------------------------------------------------------------------------------------------ float evaluation
class EvalError(Exception):
    pass


def ev(t, env, memo=None):
    """float value; env maps variable name -> float and ('#', id) of app/atom nodes -> float"""
    if memo is None: memo = {}
    r = memo.get(t.id)
    if r is not None: return r
    o = t.op
    try:
        if o == 'c': r = float(t.a[0])
        elif o == 'v':
            if t.a[0] not in env: raise EvalError("unbound " + t.a[0])
            r = float(env[t.a[0]])
        elif o == 'app':
            k = ('#', t.id)
            if k in env: r = float(env[k])
            elif t.a[0] in env and callable(env[t.a[0]]): r = float(env[t.a[0]](*[ev(x, env, memo) for x in t.a[1:]]))
            else: raise EvalError("uninterpreted " + t.a[0])
        elif o == 'exp': r = math.exp(ev(t.a[0], env, memo))
        elif o == 'log': r = math.log(ev(t.a[0], env, memo))
        elif o == 'ite': r = ev(t.a[1], env, memo) if evb(t.a[0], env, memo) else ev(t.a[2], env, memo)
        else:
            a, b = ev(t.a[0], env, memo), ev(t.a[1], env, memo)
            r = a + b if o == '+' else a - b if o == '-' else a * b if o == '*' else a / b
    except (ZeroDivisionError, ValueError, OverflowError) as e:
        raise EvalError(str(e))
    memo[t.id] = r
    return r


def evb(b, env, memo=None, tol=0.0):
    if memo is None: memo = {}
    o = b.op
    if o == 'lit': return b.a[0]
    if o == 'bvar': return bool(env[b.a[0]])
    if o == 'not': return not evb(b.a[0], env, memo, tol)
    if o == 'and': return all(evb(x, env, memo, tol) for x in b.a)
    if o == 'or': return any(evb(x, env, memo, tol) for x in b.a)
    k = b.a[0]; x, y = ev(b.a[1], env, memo), ev(b.a[2], env, memo)
    s = tol * max(1.0, abs(x), abs(y))
    if k == '==': return abs(x - y) <= s
    if k == '!=': return abs(x - y) > s
    if k == '<': return x < y + s
    if k == '<=': return x <= y + s
    if k == '>': return x > y - s
    return x >= y - s


# ------------------------------------------------------------------------------------------------ evaluation with running error bound
_EPS = 2.3e-16


def eve(t, env, memo=None):
    """(value, absolute error bound) - first-order running error analysis; scale-free decisions in evb3"""
    if memo is None: memo = {}
    r = memo.get(t.id)
    if r is not None: return r
    o = t.op
    try:
        if o == 'c':
            v = float(t.a[0]); r = (v, abs(v) * _EPS)
        elif o == 'v':
            if t.a[0] not in env or env[t.a[0]] is None: raise EvalError("unbound " + t.a[0])
            v = float(env[t.a[0]]); r = (v, abs(v) * _EPS)
        elif o == 'app':
            k = ('#', t.id)
            if k in env and env[k] is not None: v = float(env[k])
            elif t.a[0] in env and callable(env[t.a[0]]): v = float(env[t.a[0]](*[eve(x, env, memo)[0] for x in t.a[1:]]))
            else: raise EvalError("uninterpreted " + t.a[0])
            r = (v, abs(v) * 1e-12)
        elif o == 'exp':
            a, ea = eve(t.a[0], env, memo); v = math.exp(a); r = (v, abs(v) * (ea + 2 * _EPS))
        elif o == 'log':
            a, ea = eve(t.a[0], env, memo); v = math.log(a); r = (v, ea / abs(a) + abs(v) * 2 * _EPS + _EPS)
        elif o == 'ite':
            c = evb3(t.a[0], env, memo)
            if c is None:
                x, ex = eve(t.a[1], env, memo); y, ey = eve(t.a[2], env, memo)
                r = (x, max(ex, ey) + abs(x - y))
            else:
                r = eve(t.a[1] if c else t.a[2], env, memo)
        else:
            (a, ea), (b, eb) = eve(t.a[0], env, memo), eve(t.a[1], env, memo)
            if o == '+': v = a + b; e = ea + eb
            elif o == '-': v = a - b; e = ea + eb
            elif o == '*': v = a * b; e = abs(a) * eb + abs(b) * ea
            else:
                v = a / b; e = (ea + abs(v) * eb) / abs(b)
            r = (v, e + abs(v) * _EPS)
    except (ZeroDivisionError, ValueError, OverflowError) as x:
        raise EvalError(str(x))
    memo[t.id] = r
    return r


def evb3(b, env, memo=None, K=64.0):
    """three-valued truth: True / False when decided beyond the error bound, None when within it"""
    if memo is None: memo = {}
    o = b.op
    if o == 'lit': return b.a[0]
    if o == 'bvar': return bool(env[b.a[0]]) if b.a[0] in env else None
    if o == 'not':
        r = evb3(b.a[0], env, memo, K)
        return None if r is None else (not r)
    if o == 'and':
        rs = [evb3(x, env, memo, K) for x in b.a]
        if any(r is False for r in rs): return False
        return None if any(r is None for r in rs) else True
    if o == 'or':
        rs = [evb3(x, env, memo, K) for x in b.a]
        if any(r is True for r in rs): return True
        return None if any(r is None for r in rs) else False
    k = b.a[0]; (x, ex), (y, ey) = eve(b.a[1], env, memo), eve(b.a[2], env, memo)
    s = K * (ex + ey) + 1e-300
    d = x - y
    if abs(d) <= s:
        return None
    if k == '==': return False
    if k == '!=': return True
    if k in ('<', '<='): return d < 0
    return d > 0


def defined_conds(*ts):
    """definedness side conditions of the operations inside terms: every denominator != 0, every log argument > 0"""
    out = []
    def f(n):
        if isinstance(n, T):
            if n.op == '/': out.append(ne(n.a[1], 0))
            elif n.op == 'log': out.append(cmp('>', n.a[0], 0))
    seen = set()
    for t in ts: walk(t, f, seen)
    return [c for c in out if c is not TRUE]


# ------------------------------------------------------------------------------------------------ ring normal form (back end for identities)
class TooBig(Exception):
    pass


_LIMIT = 400000


def _padd(p, q, sign=1):
    r = dict(p)
    for m, c in q.items():
        v = r.get(m, 0) + sign * c
        if v == 0: r.pop(m, None)
        else: r[m] = v
    return r


def _mmul(m1, m2):
    if not m1: return m2
    if not m2: return m1
    d = dict(m1)
    for a, e in m2: d[a] = d.get(a, 0) + e
    return tuple(sorted(d.items()))


def _pmul(p, q):
    if len(p) * len(q) > _LIMIT * 4: raise TooBig()
    r = {}
    for m1, c1 in p.items():
        for m2, c2 in q.items():
            m = _mmul(m1, m2); v = r.get(m, 0) + c1 * c2
            if v == 0: r.pop(m, None)
            else: r[m] = v
    if len(r) > _LIMIT: raise TooBig()
    return r


_ONE = {(): Fraction(1)}


def ratform(t, memo):
    """t as a quotient of polynomials (num, den) over its atoms (variables, applications, exp/log/ite nodes)"""
    r = memo.get(t.id)
    if r is not None: return r
    o = t.op
    if o == 'c': r = ({(): t.a[0]} if t.a[0] != 0 else {}, _ONE)
    elif o in ('v', 'app', 'exp', 'log', 'ite'): r = ({((t.id, 1),): Fraction(1)}, _ONE)
    else:
        (na, da), (nb, db) = ratform(t.a[0], memo), ratform(t.a[1], memo)
        if o in '+-':
            if da is db or da == db: r = (_padd(na, nb, 1 if o == '+' else -1), da)
            else: r = (_padd(_pmul(na, db), _pmul(nb, da), 1 if o == '+' else -1), _pmul(da, db))
        elif o == '*': r = (_pmul(na, nb), _pmul(da, db))
        else: r = (_pmul(na, db), _pmul(da, nb))
    memo[t.id] = r
    return r


def ring_equal(a, b, memo=None):
    """True if a == b as rational functions of their atoms (identity wherever all denominators are non-zero)"""
    if memo is None: memo = {}
    try:
        (na, da), (nb, db) = ratform(a, memo), ratform(b, memo)
        if da == db: return not _padd(na, nb, -1)
        return not _padd(_pmul(na, db), _pmul(nb, da), -1)
    except TooBig:
        return False


def unify_ites(x):
    """ite nodes whose conditions and branches are ring-equal are identified (e.g. the clamp `v if v >= 0 else 0` applied to
    two ring-equal values): returns x with the later ones replaced by the first"""
    ites = []
    walk(x, lambda n: ites.append(n) if isinstance(n, T) and n.op == 'ite' else None)
    if len(ites) < 2 or len(ites) > 12: return x
    ites.sort(key=lambda n: n.id)
    rep = {}
    memo = {}
    def cond_eq(c1, c2):
        if c1 is c2: return True
        if c1.op == 'cmp' and c2.op == 'cmp' and c1.a[0] == c2.a[0]:
            try: return ring_equal(c1.a[1] - c1.a[2], c2.a[1] - c2.a[2], memo)
            except RecursionError: return False
        return False
    for i, a in enumerate(ites):
        if a.id in rep: continue
        for b in ites[i + 1:]:
            if b.id in rep: continue
            try:
                if cond_eq(a.a[0], b.a[0]) and ring_equal(a.a[1], b.a[1], memo) and ring_equal(a.a[2], b.a[2], memo): rep[b.id] = a
            except RecursionError:
                pass
    if not rep: return x
    return subst(x, {('#', i): r for i, r in rep.items()})


def ring_proves(goal, memo=None):
    """goal is a conjunction of equalities, each an identity of rational functions"""
    if memo is None:
        memo = {}
        try: goal = unify_ites(goal)
        except RecursionError: pass
    if goal.op == 'lit': return goal.a[0]
    if goal.op == 'and': return all(ring_proves(g, memo) for g in goal.a)
    if goal.op == 'cmp' and goal.a[0] == '==': return ring_equal(goal.a[1], goal.a[2], memo)
    return False
