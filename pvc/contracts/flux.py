"""sidecar contracts: pyvaporation/pervaporation/pervaporation.py - flux solver and its callers"""
from ..ir import *
from ..symex import Obj, Raised, flatten, PList, Seq, Opaque
from ..source import Unsupported
from . import thermo

KG = 'kg/(m2*h*kPa)'


def gpp_contract(ex, b):
    """get_partial_pressures(temperature, mixture, composition, calculation_type) at a call site.
    raises ValueError when the parameters of the selected model are missing (proved on the bodies: C19)
    ensures result = (pp1, pp2)(T, mixture, composition, model): a pure function; basis/swap lemmas are proved in C04/C06/C07"""
    mix, ct = b['mixture'], b['calculation_type']
    if ct == 'NRTL':
        if mix.f['nrtl_params'] is None: raise Raised('ValueError')
    elif ct == 'UNIQUAC':
        if mix.f['uniquac_params'] is None: raise Raised('ValueError')
        if mix.f['first_component'].f['uniquac_constants'] is None or mix.f['second_component'].f['uniquac_constants'] is None:
            raise Raised('ValueError')
    else:
        raise Raised('TypeError')        # the real function subscripts None for an unknown model
    if not isinstance(b['composition'], Obj): raise Unsupported("get_partial_pressures on %r" % (b['composition'],))
    return thermo.gpp_apps(b['temperature'], mix, b['composition'], ct)


def permeate_side(mix, y, Tp, pp, model):
    """permeate-side partial pressures of the property statement (C02): vacuum, permeate temperature, permeate pressure"""
    if Tp is None and pp is None: return (lift(0), lift(0))
    if Tp is not None and pp is None: return thermo.gpp_apps(Tp, mix, y, model)
    if pp is not None and Tp is None: return (pp * y.f['p'], pp * (1 - y.f['p']))
    return None


def F(mix, P1, P2, y, feed, T, Tp, pp, model):
    """solution-diffusion law at permeate composition y (the postcondition of get_partial_fluxes_from_permeate_composition)"""
    pf = thermo.gpp_apps(T, mix, feed, model)
    ps = permeate_side(mix, y, Tp, pp, model)
    return (P1 * (pf[0] - ps[0]), P2 * (pf[1] - ps[1]))


def cpf_leaves(b):
    L = []
    b = dict(b)
    if b['first_component_permeance'] is None or b['second_component_permeance'] is None:
        b['first_component_permeance'] = b['second_component_permeance'] = None      # the code recomputes both when either is missing
    for k in ('feed_temperature', 'composition', 'precision', 'permeate_temperature', 'permeate_pressure',
              'first_component_permeance', 'second_component_permeance', 'calculation_type'):
        L += flatten(b[k])
    s = b['self']
    L += flatten(s.f['mixture'])
    if b['first_component_permeance'] is None or b['second_component_permeance'] is None:
        L += flatten(s.f['membrane'])
    return L


def cpf_apps(b):
    L = cpf_leaves(b)
    return app('cpf1', *L), app('cpf2', *L)


def cpf_contract(ex, b):
    """Pervaporation.calculate_partial_fluxes at a call site.
    requires  given permeances are Permeance records in kg/(m2 h kPa)
    raises    ValueError when both a permeate temperature and a permeate pressure are given (C19), or model parameters are missing
    ensures   result = (cpf1, cpf2)(argument leaves): deterministic function of the arguments (C08/C20); C02 characterises it"""
    both = b['first_component_permeance'] is not None and b['second_component_permeance'] is not None
    for k in ('first_component_permeance', 'second_component_permeance'):
        p = b[k]
        if both:
            if not (isinstance(p, Obj) and p.cls == 'Permeance'):
                raise Raised('AttributeError')       # e.g. the model string bound to the permeance slot: .value of a str
            ex.require('cpf.permeance-units', blit(p.f['units'] == KG), dict(function='Pervaporation.calculate_partial_fluxes'))
    mix = b['self'].f['mixture']; ct = b['calculation_type']
    if ct == 'NRTL':
        if mix.f['nrtl_params'] is None: raise Raised('ValueError')
    elif ct == 'UNIQUAC':
        if mix.f['uniquac_params'] is None: raise Raised('ValueError')
        if mix.f['first_component'].f['uniquac_constants'] is None or mix.f['second_component'].f['uniquac_constants'] is None:
            raise Raised('ValueError')
    else:
        raise Raised('TypeError')
    if b['permeate_temperature'] is not None and b['permeate_pressure'] is not None: raise Raised('ValueError')
    if b['first_component_permeance'] is None or b['second_component_permeance'] is None:
        if b['self'].f['membrane'].f['ideal_experiments'] is None: raise Raised('AttributeError')
    return cpf_apps(b)


def get_permeance_contract(ex, b):
    """Membrane.get_permeance at a call site: a Permeance in kg/(m2 h kPa) with value >= 0, function of (T, component, membrane) (C12)"""
    v = app('perm', b['temperature'], *(flatten(b['component'].f['name']) + flatten(b['self'])))
    ex.assume(v >= 0, 'get_permeance: class invariant of Permeance')
    return Obj('Permeance', dict(value=v, units=KG))
