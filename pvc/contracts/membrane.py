"""sidecar contracts: pyvaporation/membrane/membrane.py and the externals it calls"""
from ..ir import *
from ..symex import Obj, PList, Seq, Vec, Raised, flatten, Fn, Opaque, _Range
from ..source import Unsupported

KG = 'kg/(m2*h*kPa)'
ACCESSED = {}
LAST = []


def experiments_of(component, n, stated, units=KG, tag='x'):
    """the experiments of one component as a list of symbolic length n: element i has temperature xT(i), permeance xP(i)
    (class invariant value >= 0), activation energy xEa(i) or None"""
    cl = flatten(component.f['name'])
    accessed = []
    def fn(i):
        i = lift(i)
        if i.op != 'c' and i not in accessed: accessed.append(i)
        return Obj('IdealExperiment', dict(name=Opaque('name'), temperature=app(tag + 'T', i, *cl), component=component,
                                           permeance=Obj('Permeance', dict(value=app(tag + 'P', i, *cl), units=units)),
                                           activation_energy=app(tag + 'Ea', i, *cl) if stated else None, comment=None))
    q = Seq(n, fn, tag=(tag, component.f['name']))
    ACCESSED[id(q)] = accessed; LAST.append(accessed)
    return q


def penetrant_data_contract(n, stated, units=KG):
    """Membrane.get_penetrant_data(component): the experiments measured for that component, in order (fresh list)
    (proved on the body for concrete lists: props/c12 `penetrant.*`)"""
    def c(ex, b):
        comp = b['component']
        seq = experiments_of(comp, n, stated, units)
        me = b.get('self')
        allx = me.f.get('ideal_experiments') if isinstance(me, Obj) else None
        if isinstance(allx, Obj) and isinstance(allx.f.get('experiments'), Seq):
            ex.assume(cmp('>=', allx.f['experiments'].n, lift(n)), "a component's experiments are among the membrane's experiments")
        ex.exp_accessed = ACCESSED[id(seq)]
        return Obj('IdealExperiments', dict(experiments=seq))
    return c


def min_key_contract(ex, b):
    """assumed contract of builtin min(range(n), key=f): raises ValueError for n = 0, else returns idx in [0,n) with
    f(idx) <= f(j) for all j (first such index on ties)"""
    rng = b['args'][0]; key = b['kwargs'].get('key')
    elems = None
    if isinstance(rng, Seq) and key is not None:
        # min(list, key=f): the element at the minimising index; the index-level key is f applied to the element at that index
        elems = rng; key0 = key
        key = Fn('builtin', name='key-of-element', py=lambda s_, i, elems=elems, key0=key0: s_.apply(key0, [s_.seq_get(elems, lift(i))], {}))
        rng = _Range(0, elems.n)
    if not isinstance(rng, _Range) or rng.start != 0 or key is None: raise Unsupported("min(key=) over %r" % (rng,))
    n = rng.n
    if isinstance(n, int):
        if n == 0: raise Raised('ValueError')
        if n == 1: return 0 if elems is None else ex.seq_get(elems, lift(0))
    elif not ex.decide(cmp('>', n, 0)): raise Raised('ValueError')
    idx = var('idx', 'I')
    ex.assume(band(cmp('>=', idx, 0), cmp('<', idx, n)), 'min(key=): result is an element of the range')
    ex.argmin = dict(idx=idx, key=key, n=n)
    return idx if elems is None else ex.seq_get(elems, idx)


def searchsorted_contract(ex, b):
    """assumed contract of numpy.searchsorted(a, v): an insertion index in [0, len(a)]; its ordering guarantee only holds for a
    sorted `a`, which the callers here cannot assume (experiments come in any order)"""
    a = b['args'][0]
    n = a.n if isinstance(a, Seq) else lift(len(a.items)) if isinstance(a, PList) else None
    if n is None: raise Unsupported("searchsorted on %r" % (a,))
    ss = ex.fresh('ss', 'I')
    ex.assume(band(cmp('>=', ss, 0), cmp('<=', ss, n)), 'numpy.searchsorted: insertion index')
    return ss


def activation_energy_contract(ex, b):
    """Membrane.calculate_activation_energy(component): pure function of the component's experiments"""
    comp = b['component']
    return app('Ea_regressed', *flatten(comp.f['name']))


def lstsq_contract(ex, b):
    """assumed contract of numpy.linalg.lstsq(A, y): for the two-column design A = [x, 1] returns (slope, intercept) of the
    least-squares line through (x_i, y_i) as element [0]"""
    a, y = b['args'][0], b['args'][1]
    if not (isinstance(a, Obj) and a.cls == 'Design'): raise Unsupported("lstsq on %r" % (a,))
    cols = a.f['cols']
    ex.lstsq = dict(cols=cols, y=y)
    sol = Vec([var('ls_slope'), var('ls_intercept')])
    return (sol, Opaque('residuals'), Opaque('rank'), Opaque('sv'))


def np_divide(ex, a, b):
    if isinstance(b, Seq) and is_num(a):
        def f(i, a=a, b=b):
            d = lift(b.fn(i)); ex.defined(d); return lift(a) / d
        return Seq(b.n, f, tag=('1/', b.tag))
    raise Unsupported("numpy.divide")


def np_ones(ex, n): return Seq(lift(n), lambda i: lift(1), tag=('ones',))


def np_vstack(ex, rows):
    rows = rows.items if isinstance(rows, PList) else list(rows)
    return Obj('Design^T', dict(rows=rows))


def seq_log(ex, x):
    from ..symex import _log1
    return Seq(x.n, lambda i, x=x: _log1(ex, x.fn(i)), tag=('log', x.tag))
