"""sidecar contracts: pyvaporation/mixtures/mixture.py"""
from ..ir import *
from ..symex import Obj, Raised, flatten


def _leaves(temperature, mixture, composition, calculation_type):
    return flatten(temperature) + flatten(mixture) + flatten(composition) + flatten(calculation_type)


def cac_apps(temperature, mixture, composition, calculation_type):
    """the result of calculate_activity_coefficients named by uninterpreted applications of its argument leaves
    (pure_function contract: equal arguments, equal results)"""
    L = _leaves(temperature, mixture, composition, calculation_type)
    return app('gamma1', *L), app('gamma2', *L)


def cac_contract(ex, b):
    """calculate_activity_coefficients at a call site.
    raises ValueError when the parameters of the selected model are missing (proved on the body: C19)
    ensures result = (gamma1, gamma2) > 0, a function of (T, mixture, molar composition, model)"""
    mix, ct, comp = b['mixture'], b['calculation_type'], b['composition']
    if ct == 'NRTL':
        if mix.f['nrtl_params'] is None: raise Raised('ValueError')
    elif ct == 'UNIQUAC':
        if mix.f['uniquac_params'] is None: raise Raised('ValueError')
        if mix.f['first_component'].f['uniquac_constants'] is None or mix.f['second_component'].f['uniquac_constants'] is None:
            raise Raised('ValueError')
    else:
        return None                      # the real function falls through and returns None for an unknown model
    g1, g2 = cac_apps(b['temperature'], mix, comp, ct)
    ex.assume(band(g1 > 0, g2 > 0), 'calculate_activity_coefficients: activity coefficients are exponentials')
    return (g1, g2)


def gpp_apps(temperature, mixture, composition, calculation_type):
    L = _leaves(temperature, mixture, composition, calculation_type)
    return app('pp1', *L), app('pp2', *L)


def uniquac_residual_reference(x, q1, q2, t12, t21):
    """Abrams-Prausnitz residual terms (S1, S2) and the documented wrong second term W2 of known finding K1"""
    th1 = x * q1 / (x * q1 + (1 - x) * q2)
    th2 = (1 - x) * q2 / (x * q1 + (1 - x) * q2)
    S1 = lift(0) - q1 * log(th1 + th2 * t21) + th2 * q1 * (t21 / (th1 + th2 * t21) - t12 / (th2 + th1 * t12))
    S2 = lift(0) - q2 * log(th2 + th1 * t12) + th1 * q2 * (t12 / (th2 + th1 * t12) - t21 / (th1 + th2 * t21))
    W2 = lift(0) - q2 * log(th2 + th1 * t12) + th1 * q2 * (t12 / (th2 + th1 * t21) - t12 / (th1 + th2 * t12))
    return S1, S2, W2
