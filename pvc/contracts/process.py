"""sidecar contracts used when verifying the process / curve models of pyvaporation/pervaporation/pervaporation.py"""
from ..ir import *
from ..symex import Obj, PList, Seq, Raised, flatten, Opaque, Fn, Vec
from ..source import Unsupported
from . import flux as CF

KG = CF.KG


# ---------------------------------------------------------------------------------------------- class invariants
def composition_invariant(o):
    p = o.f['p']
    return band(cmp('>=', lift(p), 0), cmp('<=', lift(p), 1)) if is_num(p) else TRUE


def permeance_invariant(o):
    v = o.f['value']
    return cmp('>=', lift(v), 0) if is_num(v) else TRUE


CLASS_INVARIANTS = {'Composition': composition_invariant, 'Permeance': permeance_invariant}
# established by the constructors (C15 ctor.accepts-only-[0,1], C14 ctor.value-nonnegative) + no assignment to .p / .value (AST scans there)


_TAGS = {}


def tag_id(tag):
    """collision-free small integer naming a (hashable) tag: identities of opaque list values inside uninterpreted applications"""
    if tag not in _TAGS: _TAGS[tag] = len(_TAGS) + 1000
    return lift(_TAGS[tag])


# ---------------------------------------------------------------------------------------------- optimiser / fits
def measurements_contract(which):
    """Measurements.from_diffusion_curves_first/second(curves): the (x, t, permeance_i) points of the curve set, a pure
    function of the set (proved element-wise on the bodies: C07 `measurements.*`)"""
    def c(ex, b):
        cs = b['curves']
        if not (isinstance(cs, Obj) and cs.tag is not None): raise Unsupported("measurements of an untagged curve set")
        tag = ('measurements', which, cs.tag)
        return Obj('Measurements', dict(data=Seq(app('n_meas', tag_id(tag)), lambda i: Opaque('measurement'), tag=tag)), tag=tag)
    return c


def find_best_fit_contract(ex, b):
    """find_best_fit(data, include_zero, component_index, n, m): fresh PervaporationFunction, pure function of its arguments
    (C16); alpha > 0 is a hypothesis of C05 (fitted permeance functions are positive); len(b) = m + 1 when m is forced"""
    data = b['data']
    if not (isinstance(data, Obj) and data.tag is not None): raise Unsupported("find_best_fit on untagged measurements")
    L = [tag_id(data.tag)] + flatten(b['include_zero']) + flatten(b['component_index']) + flatten(b['n']) + flatten(b['m'])
    alpha = app('fit.alpha', *L)
    ex.assume(alpha > 0, 'hypothesis C05: fitted alpha > 0')
    a = Seq(app('fit.len_a', *L), lambda i: app('fit.a', lift(i), *L), tag=('fit.a',) + tuple(L))
    if b['m'] == 0:
        bb = PList([app('fit.b0', *L)])
    else:
        bb = Seq(app('fit.len_b', *L), lambda i: app('fit.b', lift(i), *L), tag=('fit.b',) + tuple(L))
    f = Obj('PervaporationFunction', dict(n=app('fit.n', *L), m=lift(0) if b['m'] == 0 else app('fit.m', *L), alpha=alpha, a=a, b=bb))
    f.tag = ('find_best_fit', tuple(L), b['component_index'], b['n'], b['m'], b['include_zero'], data)
    return f


def list_id(x):
    if isinstance(x, Seq) and x.tag is not None: return [tag_id(x.tag)]
    raise Unsupported("untagged coefficient list %r" % (x,))


def pf_call_contract(ex, b):
    """PervaporationFunction.__call__(x, t) = alpha * exp(A(a, x) - B(b, x) / t)   (closed form proved on the body: C16)
    with B(b, x) = b[0] when b has one element"""
    s = b['self']; x, t = lift(b['x']), lift(b['t'])
    A = app('polyA', x, *list_id(s.f['a']))
    bb = s.f['b']
    if isinstance(bb, PList) and len(bb.items) == 1: Bv = lift(bb.items[0])
    else: Bv = app('polyB', x, *list_id(bb))
    ex.defined(t)
    return lift(s.f['alpha']) * exp(A - Bv / t)


def program_contract(ex, b):
    """TemperatureProgram.program(time): the programme value at `time`, a pure function (closed forms proved in C03)"""
    return app('program', lift(b['time']), *flatten(b['self'].f['type']))


def activation_energy_contract(ex, b):
    return app('Ea_regressed', *flatten(b['component'].f['name']))


def diffusion_curve_ctor(ex, b):
    """DiffusionCurve(...) when both fluxes and permeances are supplied in kg units: fields stored as given (C09 proves
    __attrs_post_init__ on its own)"""
    kw = dict(b['kwargs'])
    if b['args']: raise Unsupported("positional DiffusionCurve construction")
    fields = ['mixture', 'membrane_name', 'feed_temperature', 'feed_compositions', 'partial_fluxes', 'permeate_temperature', 'permeate_pressure', 'permeances', 'comments']
    o = Obj('DiffusionCurve', {k: kw.get(k) for k in fields})
    if o.f['permeate_temperature'] is not None and o.f['permeate_pressure'] is not None and o.f['permeances'] is None: raise Raised('ValueError')
    if o.f['permeances'] is None and o.f['partial_fluxes'] is None: raise Raised('ValueError')
    return o


def base_contracts():
    return {'Pervaporation.calculate_partial_fluxes': CF.cpf_contract, 'Membrane.get_permeance': CF.get_permeance_contract,
            'Membrane.calculate_activation_energy': activation_energy_contract, 'TemperatureProgram.program': program_contract,
            'Measurements.from_diffusion_curves_first': measurements_contract(1), 'Measurements.from_diffusion_curves_second': measurements_contract(2),
            'find_best_fit': find_best_fit_contract, 'PervaporationFunction.__call__': pf_call_contract,
            'DiffusionCurve.__init__': diffusion_curve_ctor, '__class_invariants__': CLASS_INVARIANTS}
