"""C12 - membrane permeance follows the Arrhenius law of its experiments (DESIGN 3, C12)"""
from .common import *
from ..contracts import membrane as CM
from ..nativeio import differential

ID = "C12"
NATIVE_BOUNDED = (20, 200)        # (quick, thorough) native corpus sizes - bounded stand-in for rounding effects
MIN_OBLIGATIONS = 40
KG = CM.KG
Tq = var('Tq')            # query temperature


def Rconst(src): return lift(src.consts[('pyvaporation/utils/utils.py', 'R')].value)


def xT(i, comp): return app('xT', lift(i), *flatten(comp.f['name']))
def xP(i, comp): return app('xP', lift(i), *flatten(comp.f['name']))
def xEa(i, comp): return app('xEa', lift(i), *flatten(comp.f['name']))


def to_kg(v, units, M):
    f = {'kg/(m2*h*kPa)': 1 / (3600 * M), 'SI': lift(1), 'GPU': lift(Fraction(335, 10 ** 12))}
    return v * f[units] / f[KG]


def obligations(cx):
    src = cx.src
    R = Rconst(src)
    for q in ('Membrane.get_penetrant_data', 'Membrane.calculate_activation_energy', 'Membrane.get_permeance',
              'Membrane.get_ideal_selectivity', 'Membrane.get_estimated_pure_component_flux'):
        cx.under_contract(q)
    comp = W.component(src, '1'); comp2 = W.component(src, '2')
    M1 = var('M1')
    n = var('n', 'I')
    mem = W.membrane(src, experiments=Opaque('experiments'))
    pre0 = [n >= 1, Tq > 0, M1 > 0, var('M2') > 0]
    # ------------------------------------------------------------------ get_penetrant_data (bounded: concrete lists up to 4)
    gpd = 'Membrane.get_penetrant_data'
    import itertools
    nlists = 0
    for L in range(0, 4 if cx.tier == 'quick' else 6):
        for pattern in itertools.product('12', repeat=L):
            exps = PList([Obj('IdealExperiment', dict(name='e%d' % i, temperature=var('t%d' % i), component=W.component(src, c),
                                                       permeance=W.permeance(src, var('p%d' % i)), activation_energy=None, comment=None), owner='external')
                          for i, c in enumerate(pattern)], owner='external')
            m = W.membrane(src, experiments=Obj('IdealExperiments', dict(experiments=exps), owner='external'))
            r = only_return(cx.explore(call(src, gpd, [comp], self_obj=m)), gpd)
            got = r.value.f['experiments']
            want = [e for e, c in zip(exps.items, pattern) if c == '1']
            ok = isinstance(got, PList) and len(got.items) == len(want) and all(a is b for a, b in zip(got.items, want)) and got is not exps
            cx.ob("penetrant.%s" % (''.join(pattern) or 'empty'), [], blit(ok), kind='paths', function=gpd,
                  statement="get_penetrant_data returns exactly the experiments of the component, in order, in a fresh list")
            nlists += 1
            if r.ex.ext_writes: cx.ob("penetrant.%s.frame" % (''.join(pattern) or 'empty'), [], FALSE, kind='frame', function=gpd)
    cx.bounded.append(dict(function=gpd, bound="all %d experiment lists of length <= %d over two components" % (nlists, L), reason="filter() over a list: unrolled (kept as a cross-check of the generic argument below)"))
    # ------------------------------------------------------------------ get_penetrant_data, lists of ARBITRARY length: the builtin filter() by its contract
    # (the sub-list of elements satisfying the predicate, in order); proved from the body: which list is filtered, with which predicate on a
    # generic element, and that the result is a fresh list wrapped in IdealExperiments.  Component names are symbolic (numeric codes: only == is used).
    from ..symex import Seq as _Seq
    mlen = var('mlen', 'I'); jg = var('jg', 'I'); qname = var('qname')
    def el(i): return Obj('IdealExperiment', dict(name=Opaque('name'), temperature=app('eT', lift(i)), component=W.mk(src, 'Component', name=app('cname', lift(i)), molecular_weight=app('cM', lift(i)), vapour_pressure_constants=None, heat_capacity_constants=None, uniquac_constants=None),
                                                  permeance=W.permeance(src, app('eP', lift(i))), activation_energy=None, comment=None), owner='external')
    allexps = _Seq(mlen, el, owner='external', tag=('all-experiments',))
    memg = W.membrane(src, experiments=Obj('IdealExperiments', dict(experiments=allexps), owner='external'))
    compq = W.mk(src, 'Component', name=qname, molecular_weight=var('M1'), vapour_pressure_constants=None, heat_capacity_constants=None, uniquac_constants=None)
    seen = []
    def filter_contract(ex, b):
        f, xs = b['args']
        e = xs.fn(jg) if isinstance(xs, _Seq) else None
        pv = ex.apply(f, [e], {}) if e is not None else None
        out = _Seq(var('nf', 'I'), lambda i: Opaque('filtered element'), tag=('filter-result',))
        seen.append((xs, pv, out))
        return out
    r = only_return(cx.explore(call(src, gpd, [compq], self_obj=memg), contracts={'filter()': filter_contract}, pre=[mlen >= 0, jg >= 0, jg < mlen]), gpd)
    okcall = len(seen) == 1 and seen[0][0] is allexps
    cx.ob("penetrant.generic.filters-the-membrane-experiments", [], blit(okcall), kind='paths', function=gpd, statement="exactly one filter() call, over self.ideal_experiments.experiments")
    if okcall:
        pv = seen[0][1]
        want = eq(app('cname', jg), qname)
        okp = isinstance(pv, (B, bool))
        cx.ob("penetrant.generic.predicate-is-boolean", [], blit(okp), kind='paths', function=gpd)
        if okp:
            cx.ob("penetrant.generic.predicate.only-this-component", r.pc + [tob(pv)], want, function=gpd, statement="an experiment kept by the predicate belongs to the requested component")
            cx.ob("penetrant.generic.predicate.every-experiment-of-the-component", r.pc + [want], tob(pv), function=gpd, statement="every experiment of the requested component is kept by the predicate")
        res = r.value
        okr = isinstance(res, Obj) and res.cls == 'IdealExperiments' and isinstance(res.f['experiments'], _Seq) and res.f['experiments'].tag == ('filter-result',) and res.f['experiments'] is not allexps
        cx.ob("penetrant.generic.result", [], blit(okr), kind='paths', function=gpd, statement="the result is IdealExperiments over list(filter(...)): a fresh list holding the kept experiments in order")
    cx.ob("penetrant.generic.frame", [], blit(not r.ex.ext_writes), kind='frame', function=gpd)
    cx.assume_note("assumed contract of the builtin filter(pred, xs): the elements of xs satisfying pred, in order; list() of it is a fresh list (get_penetrant_data is proved for lists of arbitrary length against this contract)")
    # ------------------------------------------------------------------ calculate_activation_energy
    cae = 'Membrane.calculate_activation_energy'
    for stated in (True, False):
        ctr = {'Membrane.get_penetrant_data': CM.penetrant_data_contract(n, stated), 'numpy.linalg.lstsq': CM.lstsq_contract}
        ps = cx.explore(call(src, cae, [comp], self_obj=mem), contracts=ctr, pre=[n >= 1] + [xT(var('i!1', 'I'), comp) > 0])
        tag = "activation-energy.%s" % ('stated' if stated else 'unstated')
        single = [p for p in ps if z3sat(p.pc + [eq(n, 1)])]
        multi = [p for p in ps if z3sat(p.pc + [n >= 2])]
        if stated:
            r1 = [p for p in single if p.outcome == 'return']
            cx.ob(tag + ".single.paths", [], blit(len(single) == 1 and len(r1) == 1), kind='paths', function=cae)
            cx.ob(tag + ".single.returns-stated", r1[0].pc + [eq(n, 1)], eq(r1[0].value, xEa(0, comp)), function=cae)
        else:
            all_raise(cx, tag + ".single.raises", single, function=cae, statement="one experiment without a stated activation energy is rejected")
        rm = [p for p in multi if p.outcome == 'return']
        cx.ob(tag + ".regression.paths", [], blit(len(multi) == 1 and len(rm) == 1), kind='paths', function=cae)
        rr = rm[0]
        ls = getattr(rr.ex, 'lstsq', None)
        if ls is None: raise Unsupported("calculate_activation_energy no longer calls numpy.linalg.lstsq")
        cols = ls['cols']; y = ls['y']
        j = var('j', 'I')
        okshape = len(cols) == 2 and isinstance(cols[0], Seq) and isinstance(cols[1], Seq) and isinstance(y, Seq)
        cx.ob(tag + ".regression.design-shape", [], blit(okshape), kind='paths', function=cae)
        if okshape:
            hy = rr.pc + [j >= 0, j < n]
            ex2 = Exec(src, [], ctr); ex2.pc = list(hy)
            xj = cols[0].fn(j); oj = cols[1].fn(j); yj = y.fn(j)
            cx.ob(tag + ".regression.abscissa=1/T", hy + ex2.pc, eq(xj, 1 / xT(j, comp)), function=cae, statement="regression abscissa is 1/T_i")
            cx.ob(tag + ".regression.second-column=1", hy, eq(oj, 1), function=cae)
            cx.ob(tag + ".regression.ordinate=ln(P)", hy + ex2.pc, eq(yj, log(xP(j, comp))), function=cae, statement="regression ordinate is ln(permeance_i)")
            cx.ob(tag + ".regression.lengths", rr.pc, band(eq(cols[0].n, n), eq(cols[1].n, n), eq(y.n, n)), function=cae)
        cx.ob(tag + ".regression.result=-slope*R", rr.pc, eq(rr.value, -(var('ls_slope') * R)), function=cae,
              statement="result = -R * slope of the least-squares line of ln(P) vs 1/T")
        cx.must_fail(tag + ".regression.result", rr.pc, eq(rr.value, var('ls_slope') * R))
        if not stated:
            # lemma: experiments exactly on an Arrhenius line  ln P_i = c0 - Ea/(R T_i)  =>  the line premise of the assumed lstsq
            # contract holds with slope a* = -Ea/R for a generic index, hence result = Ea
            Ea, c0 = var('Ea'), var('c0')
            line = {('#', xP(j, comp).id): exp(c0 - Ea / (R * xT(j, comp)))}
            yj_line = subst(yj, line); xj_ = xj
            cx.ob("arrhenius-line.premise-of-lstsq-contract", [xT(j, comp) > 0], eq(yj_line, (-(Ea / R)) * xj_ + c0), kind='lemma', function=cae,
                  statement="data on ln P = c0 - Ea/(R T): every point satisfies y_j = (-Ea/R) x_j + c0, so the assumed lstsq contract yields slope = -Ea/R")
            cx.ob("arrhenius-line.recovers-Ea", rr.pc + [eq(var('ls_slope'), -(Ea / R))], eq(rr.value, Ea), kind='lemma', function=cae,
                  statement="for experiments exactly on an Arrhenius line the regression recovers Ea")
    # ------------------------------------------------------------------ get_permeance
    gp = 'Membrane.get_permeance'
    for stated in (True, False):
        for units in ('kg/(m2*h*kPa)', 'SI', 'GPU'):
            for init in (False, True):
                if init and not (stated and units == KG): continue
                ctr = {'Membrane.get_penetrant_data': CM.penetrant_data_contract(n, stated, units), 'min(key=)': CM.min_key_contract,
                       'Membrane.calculate_activation_energy': CM.activation_energy_contract, 'numpy.searchsorted': CM.searchsorted_contract}
                tag = "permeance.%s.%s%s" % ('stated' if stated else 'unstated', units.replace('/', '_'), '.initial' if init else '')
                kw = dict(temperature=Tq, component=comp)
                if init: kw['initial_permeance'] = W.permeance(src, var('Pinit'))
                idx = var('idx', 'I')
                pre = pre0 + [xT(idx, comp) > 0, xP(idx, comp) >= 0] + ([var('Pinit') >= 0] if init else [])   # class invariants of the inputs
                ps = cx.explore(call(src, gp, [], kw, self_obj=mem), contracts=ctr, pre=pre)
                none_raise(cx, tag + ".returns", ps, function=gp)
                no_abnormal(cx, tag, ps, function=gp)
                Pkg = to_kg(xP(idx, comp), units, M1)
                for pi, p in enumerate(ps):
                    if p.outcome != 'return': continue
                    am = getattr(p.ex, 'argmin', None)
                    j = var('j', 'I')
                    used = [t for t in getattr(p.ex, 'exp_accessed', []) if not (t.op == 'v' and (t.a[0].startswith('ix!') or t.a[0] == 'k'))]          # generic comprehension / loop indices: reading EVERY element (to build the temperature list) is not a selection
                    if am is not None:
                        if pi == 0:
                            e2 = Exec(src, [], ctr); e2.pc = list(p.pc) + [j >= 0, j < n]
                            kj = e2.apply(am['key'], [j], {})
                            cx.ob(tag + ".nearest-key", e2.pc, eq(kj, tabs(xT(j, comp) - Tq)), function=gp,
                                  statement="the experiment is chosen by minimal |T_i - T| (assumed contract of min(key=): a minimiser)")
                    else:
                        # some other selection: every experiment index the result depends on must be a nearest one, for lists in any order
                        if not used: raise Unsupported("get_permeance: no experiment index could be identified")
                        for ui, t_ in enumerate(used):
                            cx.ob(tag + ".path%d.selected-experiment-is-nearest.%d" % (pi, ui), p.pc + [j >= 0, j < n, xT(j, comp) > 0], tabs(xT(t_, comp) - Tq) <= tabs(xT(j, comp) - Tq), function=gp,
                                  statement="the experiment used is a nearest one (minimal |T_i - T|) whatever the order of the experiments", noslice=True)
                    if used and used != [var('idx', 'I')] and am is not None:
                        raise Unsupported("get_permeance reads experiments at indices other than the selected one: %s" % used)
                    if am is None:
                        continue
                    v = p.value
                    cx.ob(tag + ".path%d.units" % pi, [], blit(isinstance(v, Obj) and v.cls == 'Permeance' and v.f['units'] == KG), kind='paths', function=gp,
                          statement="get_permeance returns kg/(m2 h kPa)")
                    at_T = eq(xT(idx, comp), Tq)
                    arr = lambda Ea_, P0: P0 * exp(-Ea_ / R * (1 / Tq - 1 / xT(idx, comp)))
                    if stated: want_else = arr(xEa(idx, comp), var('Pinit') if init else Pkg)
                    else: want_else = arr(app('Ea_regressed', *flatten(comp.f['name'])), Pkg)
                    cx.ob(tag + ".path%d.at-experiment-temperature" % pi, p.pc + [at_T], eq(v.f['value'], Pkg), function=gp,
                          statement="queried at an experiment's temperature: the measured value (converted to kg units)")
                    cx.ob(tag + ".path%d.arrhenius" % pi, p.pc + [bnot(at_T)], eq(v.f['value'], want_else), function=gp,
                          statement="elsewhere: nearest value * exp(-Ea/R (1/T - 1/T_exp)), Ea stated or regressed")
                rets = returns(ps)
                at_paths = [q for q in rets if z3sat(q.pc + [eq(xT(idx, comp), Tq)])]
                off_paths = [q for q in rets if z3sat(q.pc + [ne(xT(idx, comp), Tq)])]
                cx.ob(tag + ".both-cases-reachable", [], blit(bool(at_paths) and bool(off_paths)), kind='paths', function=gp)
                if at_paths: cx.cover(tag + ".at", at_paths[0].pc + [eq(xT(idx, comp), Tq)])
                if off_paths: cx.cover(tag + ".off", off_paths[0].pc + [ne(xT(idx, comp), Tq)])
                if stated and units == KG and not init:
                    cands = [q for q in rets if z3sat(q.pc + [ne(xT(idx, comp), Tq), xP(idx, comp) > 0, xEa(idx, comp) > 1])]
                    p = cands[0] if cands else [q for q in rets if z3sat(q.pc + [ne(xT(idx, comp), Tq)])][0]
                    if cands: cx.must_fail(tag + ".arrhenius", p.pc + [ne(xT(idx, comp), Tq), xP(idx, comp) > 0, xEa(idx, comp) > 1], eq(p.value.f['value'], Pkg * exp(xEa(idx, comp) / R * (1 / Tq - 1 / xT(idx, comp)))))
                    # lemma: on an Arrhenius line the result does not depend on which experiment is nearest
                    Ea, c0 = var('Ea'), var('c0')
                    line = {('#', xP(idx, comp).id): exp(c0 - Ea / (R * xT(idx, comp))), ('#', xEa(idx, comp).id): Ea}
                    val = subst(p.value.f['value'], line)
                    cx.ob("arrhenius-line.independent-of-nearest", [subst(c, line) for c in p.pc] + [ne(xT(idx, comp), Tq)], eq(val, exp(c0 - Ea / (R * Tq))), kind='lemma', function=gp,
                          statement="experiments on ln P = c0 - Ea/(R T): the permeance at T is exp(c0 - Ea/(R T)) whichever experiment is nearest")
    # empty experiment list for the component: no permeance is invented
    ctr0 = {'Membrane.get_penetrant_data': CM.penetrant_data_contract(0, True), 'min(key=)': CM.min_key_contract, 'numpy.searchsorted': CM.searchsorted_contract}
    ps = cx.explore(call(src, gp, [], dict(temperature=Tq, component=comp), self_obj=mem), contracts=ctr0, pre=[Tq > 0])
    all_raise(cx, "permeance.no-experiments.raises", ps, classes=('ValueError', 'IndexError'), function=gp)
    # ------------------------------------------------------------------ ideal selectivity
    gs = 'Membrane.get_ideal_selectivity'
    def gp_contract(ex, b):
        v = app('perm', b['temperature'], *flatten(b['component'].f['name']))
        ex.assume(v >= 0, 'get_permeance: class invariant of Permeance')
        return Obj('Permeance', dict(value=v, units=KG))
    ctr = {'Membrane.get_permeance': gp_contract}
    rw = only_return(cx.explore(call(src, gs, [], dict(temperature=Tq, first_component=comp, second_component=comp2, calculation_type='weight'), self_obj=mem), contracts=ctr, pre=pre0), gs)
    rmol = only_return(cx.explore(call(src, gs, [], dict(temperature=Tq, first_component=comp, second_component=comp2, calculation_type='molar'), self_obj=mem), contracts=ctr, pre=pre0), gs)
    P1 = app('perm', Tq, *flatten(comp.f['name'])); P2 = app('perm', Tq, *flatten(comp2.f['name']))
    cx.ob("selectivity.weight", rw.pc, eq(rw.value, P1 / P2), function=gs)
    cx.ob("selectivity.molar=weight*M2/M1", rw.pc + rmol.pc, eq(rmol.value, rw.value * var('M2') / M1), function=gs,
          statement="molar ideal selectivity = mass-based selectivity * M2/M1")
    cx.must_fail("selectivity.molar", rw.pc + rmol.pc + [P1 > 0], eq(rmol.value, rw.value * M1 / var('M2')))
    # ------------------------------------------------------------------ estimated pure-component flux
    pf = 'Membrane.get_estimated_pure_component_flux'
    psat = lambda t: only_return(cx.explore(call(src, 'Component.get_vapor_pressure', [t], self_obj=comp), pre=[t > 0])).value
    Tp, pp = var('Tp'), var('pp')
    for mode, kw, side in (('vacuum', {}, lift(0)), ('temperature', dict(permeate_temperature=Tp), None), ('pressure', dict(permeate_pressure=pp), pp)):
        ps = cx.explore(call(src, pf, [], dict(temperature=Tq, component=comp, **kw), self_obj=mem), contracts=ctr, pre=pre0 + [Tp > 0])
        r = only_return(ps, pf)
        s_ = psat(Tp) if mode == 'temperature' else side
        cx.ob("pure-flux.%s" % mode, r.pc, eq(r.value, P1 * (psat(Tq) - s_)), function=pf,
              statement="estimated pure-component flux = permeance * (saturation pressure - permeate-side pressure)")
    ps = cx.explore(call(src, pf, [], dict(temperature=Tq, component=comp, permeate_temperature=Tp, permeate_pressure=pp), self_obj=mem), contracts=ctr, pre=pre0 + [Tp > 0])
    all_raise(cx, "pure-flux.both-conditions-raise", ps, function=pf)
    cx.assume_note("assumed contract of min(range(n), key=f): returns a minimiser of f (first on ties); ties are excluded by the property")
    cx.assume_note("assumed contract of numpy.linalg.lstsq on the design [x, 1]: least-squares line; exact line for collinear data with >= 2 distinct abscissae")
    cx.assume_note("activation energies of one component's experiments are either all stated or all unstated (mixed lists not modelled)")
    cx.assume_note("get_penetrant_data: proved for lists of arbitrary length against the assumed filter() contract (penetrant.generic.*), cross-checked by unrolling on all concrete lists up to the stated bound; used by contract elsewhere")


def units_obligations(cx, prefix="callee.get_permeance"):
    """the postcondition of Membrane.get_permeance that its callers rely on (result in kg/(m2 h kPa), value >= 0), re-proved from the body"""
    src = cx.src
    gp = 'Membrane.get_permeance'
    cx.under_contract(gp)
    comp = W.component(src, '1'); n = var('n', 'I'); idx = var('idx', 'I')
    mem = W.membrane(src, experiments=Opaque('experiments'))
    for stated in (True, False):
        for units in ('kg/(m2*h*kPa)', 'SI', 'GPU'):
            ctr = {'Membrane.get_penetrant_data': CM.penetrant_data_contract(n, stated, units), 'min(key=)': CM.min_key_contract,
                   'Membrane.calculate_activation_energy': CM.activation_energy_contract, 'numpy.searchsorted': CM.searchsorted_contract}
            ps = cx.explore(call(src, gp, [], dict(temperature=Tq, component=comp), self_obj=mem), contracts=ctr, pre=[n >= 1, Tq > 0, var('M1') > 0, xT(idx, comp) > 0, xP(idx, comp) >= 0])
            for pi, p in enumerate(returns(ps)):
                v = p.value
                ok = isinstance(v, Obj) and v.cls == 'Permeance' and v.f['units'] == KG
                cx.ob("%s.%s.%s.path%d.kg-units" % (prefix, 'stated' if stated else 'unstated', units.replace('/', '_'), pi), p.pc, band(blit(ok), v.f['value'] >= 0) if ok else FALSE, function=gp,
                      statement="get_permeance returns a Permeance in kg/(m2 h kPa) with a non-negative value (relied upon by the process models)")


def z3sat(fs):
    from ..symex import z3_check
    import z3
    return z3_check(fs, 5000) != z3.unsat


def replay_case(r):
    return None            # callee results (experiment tables) are not realisable from a flat model: the native corpus is used
