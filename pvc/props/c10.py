"""C10 - the flux calculation always terminates (DESIGN 3, C10)"""
import ast
from .common import *
from ..contracts import flux as CF
from ..loops import segments, Head, find_while
from . import c02 as C2

ID = "C10"
MIN_OBLIGATIONS = 4
CPF = C2.CPF
PLOT = ('plot', 'plot_graph', 'plot_surface')


def int_constants(fdef):
    return sorted({n.value for n in ast.walk(fdef) if isinstance(n, ast.Constant) and isinstance(n.value, int) and not isinstance(n.value, bool) and n.value > 1})


def holds(hyps, goal):
    from ..symex import z3_check
    import z3
    return z3_check(list(hyps) + [bnot(goal)], 5000) == z3.unsat


def obligations(cx):
    src = cx.src
    f = cx.under_contract(CPF)
    ctr = {'get_partial_pressures': CF.gpp_contract, 'Membrane.get_permeance': CF.get_permeance_contract}
    it = var('it', 'I')
    cx.no_variant = []
    # ------------------------------------------------------------------ every while loop of the package has a variant
    whiles = []
    for path, m in src.mods.items():
        for fn in ast.walk(m):
            if isinstance(fn, ast.FunctionDef):
                for n in ast.walk(fn):
                    if isinstance(n, ast.While): whiles.append((path, fn.name, n.lineno))
    cx.unknown_whiles = [w for w in whiles if w[1] != 'calculate_partial_fluxes']
    # a while loop the check has no variant for is "termination not established", not "does not terminate": it counts as a violation only with
    # a non-terminating input found by the native watchdog search (native_checks below), otherwise the check is undecided
    cx.ob("scan.only-known-while-loops", [], blit(all(fn == 'calculate_partial_fluxes' for _, fn, _ in whiles) and len(whiles) <= 1), kind='scan', found=str(whiles), inductive=True,
          statement="the only while loop of the package is the fixed-point iteration of calculate_partial_fluxes")
    for model in ('NRTL',):
        mix = W.mixture(src); pv = C2.pv_obj(src, mix)
        for mode in C2.MODES:
            for given in (True, False):
                tag = "cpf.%s.%s" % (mode, 'given' if given else 'default')
                fd, bind, kw = C2.cpf_bind(src, pv, mode, model, given)
                try:
                    pp_, hp, carried = segments(cx, fd, bind, C2.havoc(src), contracts=ctr, pre=C2.BASE)       # precision arbitrary (also <= 0)
                except Unsupported as u:
                    # the loop is outside the shapes the variant search understands: no variant established (not a verdict)
                    cx.no_variant.append("%s (%s)" % (tag, str(u)[:120])); continue
                iters = [p for p in hp if p.outcome == 'return' and isinstance(p.value, Head)]
                heads0 = [p for p in pp_ if p.outcome == 'return' and isinstance(p.value, Head)]
                if 'iterations' not in carried and not any(isinstance(v, T) and v.op == 'v' and v.a[1] == 'I' for p in iters for v in p.value.env.values()):
                    cx.no_variant.append(tag); continue
                cands = int_constants(fd)
                B = None
                for c in cands:
                    if all(holds(p.pc + [it <= c], band(eq(lift(p.value.env['iterations']), it + 1), lift(p.value.env['iterations']) <= c)) for p in iters):
                        B = c; break
                if B is None:
                    cx.no_variant.append(tag); continue
                for i, p in enumerate(heads0):
                    cx.ob(tag + ".init%d.counter=0" % i, p.pc, eq(lift(p.value.env['iterations']), 0), function=CPF, linear=True)
                for i, p in enumerate(iters):
                    itn = lift(p.value.env['iterations'])
                    cx.ob(tag + ".iter%d.variant-decreases" % i, p.pc + [it >= 0, it <= B], (B - itn) < (B - it), function=CPF, linear=True,
                          statement="variant %d - iterations strictly decreases in every iteration that returns to the loop head" % B)
                    cx.ob(tag + ".iter%d.variant-bounded-below" % i, p.pc + [it >= 0, it <= B], (B - itn) >= 0, function=CPF, linear=True,
                          statement="variant stays non-negative: at most %d iterations, hence at most %d driving-force evaluations" % (B, B + 1))
                    cx.cover(tag + ".iter%d" % i, p.pc + [it >= 0, it <= B])
                # every path from the head either goes back to the head, returns, or raises: no other loops inside the body
                cx.ob(tag + ".head-paths", [], blit(len(iters) >= 1 and all(p.outcome in ('return', 'raise') for p in hp)), kind='paths', function=CPF)
                cx.notes.append(dict(variant="%d - iterations" % B, config=tag, bound_on_driving_force_evaluations=B + 1))
    if cx.no_variant:
        cx.ob("variant.exists", [], TRUE, kind='paths', function=CPF)      # placeholder: the verdict comes from native_checks (a failed proof is not a violation)
    # ------------------------------------------------------------------ for loops / comprehensions iterate over values their body does not mutate
    bad = []
    nloops = 0
    for path, m in src.mods.items():
        for fn in ast.walk(m):
            if not isinstance(fn, ast.FunctionDef) or fn.name in PLOT: continue
            for n in ast.walk(fn):
                if isinstance(n, ast.For):
                    nloops += 1
                    it_names = {x.id for x in ast.walk(n.iter) if isinstance(x, ast.Name)} | {ast.unparse(n.iter)}
                    for c in ast.walk(n):
                        if isinstance(c, ast.Call) and isinstance(c.func, ast.Attribute) and c.func.attr in ('append', 'extend', 'insert', 'pop', 'remove', 'clear'):
                            tgt = ast.unparse(c.func.value)
                            if tgt in it_names or (isinstance(c.func.value, ast.Name) and c.func.value.id in it_names and not _is_range(n.iter)):
                                bad.append((path, fn.name, n.lineno, tgt))
                    if not (_is_range(n.iter) or isinstance(n.iter, (ast.Name, ast.Attribute, ast.Call, ast.Subscript))):
                        bad.append((path, fn.name, n.lineno, 'iterable ' + ast.unparse(n.iter)))
    cx.ob("scan.for-loops-finite", [], blit(not bad and nloops > 0), kind='scan', found=str(bad), loops=nloops, inductive=True,
          statement="every for loop iterates over a range or a list that its body does not grow")
    # ------------------------------------------------------------------ no recursion among package functions
    EXTERNAL = {'joblib', 'numpy', 'json', 'pandas', 'optimize', 'attr', 'datetime', 'typing', 'Path', 'math', 'copy', 'plt', 'matplotlib', 'os'}
    CONTAINER_METHODS = {'append', 'pop', 'extend', 'insert', 'remove', 'clear', 'items', 'keys', 'values', 'get', 'update', 'add', 'copy', 'index', 'count', 'sort'}
    graph = {}
    defs = {}
    for path, m in src.mods.items():
        for top in m.body:
            if isinstance(top, ast.FunctionDef): defs.setdefault(top.name, []).append((None, top))
            elif isinstance(top, ast.ClassDef):
                for fn in top.body:
                    if isinstance(fn, ast.FunctionDef): defs.setdefault(fn.name, []).append((top.name, fn))
    def root(e):
        while isinstance(e, (ast.Attribute, ast.Call, ast.Subscript)):
            e = e.value if isinstance(e, (ast.Attribute, ast.Subscript)) else e.func
        return e.id if isinstance(e, ast.Name) else None
    for name, fns in defs.items():
        for cls, fn in fns:
            callees = set()
            for c in ast.walk(fn):
                if not isinstance(c, ast.Call): continue
                if isinstance(c.func, ast.Name):
                    nm = c.func.id
                    if nm in src.classes:
                        for hook in ('__attrs_post_init__',):
                            if src.method(nm, hook) is not None: callees.add((nm, hook))
                    for (k, f2) in defs.get(nm, []):
                        if k is None: callees.add((None, nm))
                elif isinstance(c.func, ast.Attribute):
                    nm = c.func.attr; r = root(c.func.value)
                    if r in EXTERNAL: continue
                    direct = isinstance(c.func.value, ast.Name)
                    if direct and r in ('self', 'cls') and cls is not None and src.method(cls, nm) is not None: callees.add((cls, nm)); continue
                    if nm in CONTAINER_METHODS and not direct: continue        # list/dict/set methods on a field (receiver is a builtin container)
                    if r == 'self' and cls is not None and not direct:
                        # receiver self.<field>...: its class is read from the field's annotation
                        e = c.func.value
                        while isinstance(e, (ast.Subscript, ast.Call)) or (isinstance(e, ast.Attribute) and not (isinstance(e.value, ast.Name) and e.value.id == 'self')):
                            e = e.value if not isinstance(e, ast.Call) else e.func
                        fld = e.attr if isinstance(e, ast.Attribute) else None
                        ann = None
                        for st in src.cls(cls).body:
                            if isinstance(st, ast.AnnAssign) and isinstance(st.target, ast.Name) and st.target.id == fld: ann = st.annotation
                        if ann is not None:
                            names = {x.id for x in ast.walk(ann) if isinstance(x, ast.Name) and x.id in src.classes}
                            names |= {x.value for x in ast.walk(ann) if isinstance(x, ast.Constant) and isinstance(x.value, str) and x.value in src.classes}
                            if names:
                                for k in names:
                                    if src.method(k, nm) is not None: callees.add((k, nm))
                                continue
                    if r in src.classes and src.method(r, nm) is not None and isinstance(c.func.value, ast.Name): callees.add((r, nm)); continue
                    if direct and r not in ('self', 'cls') and cls is not None:
                        # a local bound to self.<field> (directly, subscripted or by tuple unpacking): typed by the field's annotation
                        kinds = set()
                        for a_ in ast.walk(fn):
                            if isinstance(a_, ast.Assign) and any(isinstance(t_, ast.Name) and t_.id == r for tt_ in a_.targets for t_ in ([tt_] if isinstance(tt_, ast.Name) else tt_.elts if isinstance(tt_, (ast.Tuple, ast.List)) else [])):
                                v_ = a_.value
                                while isinstance(v_, ast.Subscript): v_ = v_.value
                                if isinstance(v_, ast.Attribute) and isinstance(v_.value, ast.Name) and v_.value.id == 'self':
                                    for st in src.cls(cls).body:
                                        if isinstance(st, ast.AnnAssign) and isinstance(st.target, ast.Name) and st.target.id == v_.attr:
                                            kinds |= {x.id for x in ast.walk(st.annotation) if isinstance(x, ast.Name) and x.id in src.classes}
                                            kinds |= {x.value for x in ast.walk(st.annotation) if isinstance(x, ast.Constant) and isinstance(x.value, str) and x.value in src.classes}
                        if kinds:
                            for k in kinds:
                                if src.method(k, nm) is not None: callees.add((k, nm))
                            continue
                    for (k, f2) in defs.get(nm, []):
                        if k is not None: callees.add((k, nm))
            graph[(cls, name)] = callees
    cyc = find_cycle(graph)
    cx.ob("scan.call-graph-acyclic", [], blit(cyc is None), kind='scan', found=str(cyc), inductive=True, statement="no recursion among package functions (by name, over-approximated)")
    if not cx.no_variant and len(cx.obs) < 30: raise Unsupported("only %d obligations generated for C10: vacuous run" % len(cx.obs))
    cx.assume_note("external calls terminate (scipy optimisers have iteration caps; numpy/pandas kernels)")
    cx.assume_note("termination of for loops over finite ranges/lists and of straight-line code is by the Python semantics of DESIGN 2.2")


def _is_range(e): return isinstance(e, ast.Call) and isinstance(e.func, ast.Name) and e.func.id == 'range'


def find_cycle(g):
    color = {}
    def dfs(u, stack):
        color[u] = 1
        for v in g.get(u, ()):
            if color.get(v) == 1:
                if v == u and u in ('plot',): continue
                return stack + [u, v]
            if color.get(v) is None:
                r = dfs(v, stack + [u])
                if r: return r
        color[u] = 2
        return None
    for u in list(g):
        if color.get(u) is None:
            r = dfs(u, [])
            if r: return r
    return None


def native_checks(cx, results):
    """no variant could be established for some configuration: a failed proof is not a violation (DESIGN 2.9) - search for
    a non-terminating input natively under a call-count watchdog"""
    unknown = getattr(cx, 'unknown_whiles', [])
    if not cx.no_variant and not unknown: return {}
    from ..nativeio import native
    corpus = []
    if cx.no_variant: corpus += native(dict(cmd='corpus', prop='C10', seed=getattr(cx, 'seed', 0), n=160 if cx.tier == 'quick' else 1200))
    if unknown:
        # a while loop outside the flux solver (no variant is known for it): process-level watchdog search for a run that does not end
        cx.no_variant.append("while loop in %s" % ",".join(sorted({w[1] for w in unknown})))
        corpus += native(dict(cmd='corpus', prop='C10', fn='proc_corpus', seed=getattr(cx, 'seed', 0), n=60 if cx.tier == 'quick' else 400))
    out = native(dict(cmd='check', prop='C10', cases=corpus), timeout=1800)
    viol = []
    for c, fails in zip(corpus, out):
        if fails and not any(str(f).startswith('CHECKER-EXCEPTION') for f in fails):
            viol.append(dict(name="variant.exists[%s]" % cx.no_variant[0], prop='C10', status='refuted', native_case=c, native_failures=fails,
                             detail="no loop variant found for %s and the real solver exceeds the watchdog on this input" % cx.no_variant,
                             meta=dict(function=CPF, statement="the fixed-point loop has a variant (bounded number of iterations)")))
            break
    if viol: return dict(violations=viol, coverage=dict(native_watchdog_cases=len(corpus)))
    return dict(coverage=dict(native_watchdog_cases=len(corpus)),
                errors=[] , undecided=[dict(name='variant.exists', detail='no variant found for %s; no non-terminating input found natively' % cx.no_variant)])
