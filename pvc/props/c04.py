"""C04 - activity-coefficient models are thermodynamically consistent (DESIGN 3, C04)"""
from .common import *
from ..selfcheck import check_D
from ..nativeio import differential
from ..contracts import thermo

ID = "C04"
NATIVE_BOUNDED = (40, 300)        # (quick, thorough) native corpus next to the proof: the symbolic world gives the two components distinct concrete names, so
                                  # mixtures whose components share a label (and rounding) are reached only by this labelled bounded stand-in
MIN_OBLIGATIONS = 30
TIMEOUT = dict(quick=240, thorough=900)

X = var('x1'); Tt = var('T')
RG = {'x1': (0.02, 0.98), 'T': (273.0, 400.0), 'g12': (-3000, 6000), 'g21': (-3000, 6000), 'al12': (0.1, 0.6), 'al21': (0.1, 0.6),
      'a12': (-2, 2), 'a21': (-2, 2), 'M1': (15, 150), 'M2': (15, 150), 'r1': (0.5, 6), 'r2': (0.5, 6), 'q1': (0.5, 6), 'q2': (0.5, 6),
      'qi1': (0.5, 6), 'qi2': (0.5, 6), 'ua12': (-500, 500), 'ua21': (-500, 500), 'ub12': (-5e4, 5e4), 'ub21': (-5e4, 5e4), 'z': (8, 12),
      'vpa1': (6, 8), 'vpb1': (-2000, -1000), 'vpc1': (-60, -20), 'vpa2': (6, 8), 'vpb2': (-2000, -1000), 'vpc2': (-60, -20), '*': (0.2, 2.0)}


def cac(cx, mix, comp, model, pre):
    src = cx.src
    return cx.explore(call(src, 'calculate_activity_coefficients', [], dict(temperature=Tt, mixture=mix, composition=comp, calculation_type=model)), pre=pre)


def lngamma(v):
    if not (isinstance(v, tuple) and len(v) == 2 and all(isinstance(x, T) for x in v)):
        raise Unsupported("calculate_activity_coefficients does not return a pair of numbers")
    return log(v[0]), log(v[1])


def summands(t, sign=1, out=None):
    if out is None: out = []
    if t.op == '+': summands(t.a[0], sign, out); summands(t.a[1], sign, out)
    elif t.op == '-': summands(t.a[0], sign, out); summands(t.a[1], -sign, out)
    else: out.append((sign, t))
    return out


def split_by_tau(t):
    """top-level summands that mention an exp atom (residual part) vs those that do not (combinatorial part)"""
    comb, resid = lift(0), lift(0)
    for sg, s in summands(t):
        has = bool(collect([s], lambda n: isinstance(n, T) and n.op == 'exp'))
        if has: resid = resid + s if sg > 0 else resid - s
        else: comb = comb + s if sg > 0 else comb - s
    return comb, resid


def gibbs_duhem(l1, l2):
    return X * D(l1, 'x1') + (1 - X) * D(l2, 'x1')


def frame_ob(cx, name, paths, fn):
    """the thermodynamic functions are functions of their arguments only: nothing reachable from the arguments is modified
    (a hidden cache would make the result depend on earlier calls)"""
    writes = [w for p in paths for w in p.ex.ext_writes]
    cx.ob(name + ".frame", [], blit(not writes), kind='frame', function=fn, writes=str(sorted({w[1] for w in writes}))[:300], **frame_meta(writes),
          statement="modifies nothing: the result depends on the arguments only")


def obligations(cx):
    src = cx.src
    fn = 'calculate_activity_coefficients'
    cx.under_contract(fn); cx.under_contract('get_partial_pressures')
    base = [X > 0, X < 1, Tt > 0]
    # ------------------------------------------------------------------ NRTL
    for nr in ('one', 'two'):
        mix = W.mixture(src, nr=nr)
        comp = W.composition(src, X, 'molar')
        tag = "nrtl.%s-alpha" % nr
        ps = cac(cx, mix, comp, 'NRTL', base)
        none_raise(cx, tag + ".returns", ps, function=fn)
        no_abnormal(cx, tag, ps, function=fn)
        frame_ob(cx, tag, ps, fn)
        for pi, r in enumerate(returns(ps)):          # one path on the current tree; every path must satisfy the identities
            ptag = tag if pi == 0 else "%s.path%d" % (tag, pi)
            l1, l2 = lngamma(r.value)
            gd = gibbs_duhem(l1, l2)
            check_D(l1, 'x1', D(l1, 'x1'), RG)
            cx.ob(ptag + ".gibbs-duhem", r.pc, eq(gd, 0), function=fn, statement="x1 dln(gamma1)/dx1 + x2 dln(gamma2)/dx1 == 0 for 0<x1<1, all parameters")
            cx.cover(ptag + ".gibbs-duhem", r.pc)
            if pi == 0: cx.must_fail(ptag + ".gibbs-duhem", r.pc, eq(X * D(l1, 'x1') + X * D(l2, 'x1'), 0))
        r = returns(ps)[0]
        differential(cx, fn, None, [], dict(temperature=Tt, mixture=mix, composition=comp, calculation_type='NRTL'), ps, RG, label=tag)
        # gamma_i -> 1 as component i becomes pure: the real code evaluated at the end points
        for xv, i in ((1, 0), (0, 1)):
            for pi, rr in enumerate(returns(cac(cx, mix, W.composition(src, lift(xv), 'molar'), 'NRTL', [Tt > 0]))):
                nm = tag + ".pure-limit.gamma%d" % (i + 1) + ("" if pi == 0 else ".path%d" % pi)
                cx.ob(nm, rr.pc, eq(rr.value[i], 1), function=fn, statement="gamma_i = 1 for pure component i")
                no_abnormal(cx, nm, [rr], function=fn)
        # Raoult: vanishing interaction parameters
        m0 = W.mixture(src, nr=nr)
        for k in ('g12', 'g21', 'a12', 'a21'): m0.f['nrtl_params'].f[k] = 0
        for pi, rr in enumerate(returns(cac(cx, m0, comp, 'NRTL', base))):
            cx.ob(tag + ".raoult" + ("" if pi == 0 else ".path%d" % pi), rr.pc, band(eq(rr.value[0], 1), eq(rr.value[1], 1)), function=fn, statement="NRTL with g=a=0 gives gamma=(1,1)")
        # mass-fraction input is converted first: identical to the call with the converted mole fraction
        w = var('w')
        psw = cac(cx, mix, W.composition(src, w, 'weight'), 'NRTL', [w > 0, w < 1, Tt > 0] + W.mixture_pre())
        frame_ob(cx, tag + ".weight-input", psw, fn)
        M1, M2 = var('M1'), var('M2')
        xw = (w / M1) / (w / M1 + (1 - w) / M2)
        for pi, rw in enumerate(returns(psw)):
            for qi, r_ in enumerate(returns(ps)):
                g1 = subst(r_.value[0], {'x1': xw}); g2 = subst(r_.value[1], {'x1': xw})
                cx.ob(tag + ".basis" + ("" if pi + qi == 0 else ".paths%d-%d" % (pi, qi)), rw.pc + [subst(c, {'x1': xw}) for c in r_.pc], band(eq(rw.value[0], g1), eq(rw.value[1], g2)), function=fn,
                      statement="activity coefficients for a mass fraction equal those for the equivalent mole fraction")
    # ------------------------------------------------------------------ UNIQUAC
    mix = W.mixture(src)
    comp = W.composition(src, X, 'molar')
    upre = base + W.positive('r1', 'r2', 'q1', 'q2', 'qi1', 'qi2')
    ps = cac(cx, mix, comp, 'UNIQUAC', upre)
    frame_ob(cx, "uniquac", ps, fn)
    none_raise(cx, "uniquac.returns", ps, function=fn)
    no_abnormal(cx, "uniquac", ps, function=fn)
    r = only_return(ps, 'uniquac')
    differential(cx, fn, None, [], dict(temperature=Tt, mixture=mix, composition=comp, calculation_type='UNIQUAC'), ps, RG, label='uniquac')
    l1, l2 = lngamma(r.value)
    c1, r1 = split_by_tau(l1); c2, r2 = split_by_tau(l2)
    check_D(l2, 'x1', D(l2, 'x1'), RG)
    # generalisation (DESIGN 2.3): tau atoms do not depend on x1 -> replaced by fresh positive reals
    taus = collect([l1, l2], lambda n: isinstance(n, T) and n.op == 'exp')
    if any(dep(t, 'x1') for t in taus) or len(taus) != 2: raise Unsupported("UNIQUAC: expected exactly two composition-independent tau atoms, found %d" % len(taus))
    gen = {('#', taus[0].id): var('tauA'), ('#', taus[1].id): var('tauB')}
    tpos = [var('tauA') > 0, var('tauB') > 0]
    gd_c = gibbs_duhem(c1, c2); gd_r = subst(gibbs_duhem(r1, r2), gen)
    pcg = [subst(c, gen) for c in r.pc]
    cx.ob("uniquac.gibbs-duhem.combinatorial", r.pc, eq(gd_c, 0), function=fn, statement="Gibbs-Duhem, tau-free summands of ln gamma")
    cx.ob("uniquac.gibbs-duhem.residual", pcg + tpos, eq(gd_r, 0), function=fn, statement="Gibbs-Duhem, tau-dependent summands of ln gamma",
          ranges=dict(x1=(0.05, 0.95), tauA=(0.2, 3), tauB=(0.2, 3)))
    cx.cover("uniquac.gibbs-duhem", r.pc)
    # reference (Abrams-Prausnitz) residual terms S and the documented wrong second bracket W (known finding K1)
    S1, S2, W2 = thermo.uniquac_residual_reference(X, var('qi1'), var('qi2'), var('tauA'), var('tauB'))
    cx.ob("uniquac.reference-satisfies-gibbs-duhem", [X > 0, X < 1] + W.positive('qi1', 'qi2') + tpos, eq(gibbs_duhem(S1, S2), 0), kind='lemma',
          statement="lemma: the Abrams-Prausnitz residual terms satisfy Gibbs-Duhem")
    rg1 = subst(r1, gen); rg2 = subst(r2, gen)
    # fingerprint of K1: code residual ln gamma1 == S1 and code residual ln gamma2 == W2 (for one of the two namings of the tau atoms)
    fpA = band(eq(rg1, S1), eq(rg2, W2))
    S1b, S2b, W2b = thermo.uniquac_residual_reference(X, var('qi1'), var('qi2'), var('tauB'), var('tauA'))
    fpB = band(eq(rg1, S1b), eq(rg2, W2b))
    cx.ob("uniquac.fingerprint.K1", pcg + tpos, bor(fpA, fpB), kind='fingerprint', finding='K1',
          statement="the residual part of the code's ln gamma is (S1, W2): correct first bracket, documented wrong second bracket")
    # pure-component limits: the generic expression evaluated at the end point (continuity: all definedness conditions hold there)
    for xv, li, i in ((1, l1, 1), (0, l2, 2)):
        at = subst(li, {'x1': lift(xv)})
        pre_end = [Tt > 0] + W.positive('r1', 'r2', 'q1', 'q2', 'qi1', 'qi2')
        cx.ob("uniquac.pure-limit.gamma%d" % i, pre_end, eq(at, 0), function=fn, schema='point',
              statement="ln gamma_i = 0 at x_i = 1 (expression continuous at the end point)")
        for n, cond in enumerate(defined_conds(at)):
            cx.ob("uniquac.pure-limit.gamma%d.continuous.%d" % (i, n), pre_end, cond, kind='definedness', function=fn, schema='point')
    # the end-point clamp of the code moves the composition by at most 1e-5
    for xv, xc in ((0, Fraction(1, 100000)), (1, Fraction(99999, 100000))):
        rr = only_return(cac(cx, mix, W.composition(src, lift(xv), 'molar'), 'UNIQUAC', [Tt > 0] + W.positive('r1', 'r2', 'q1', 'q2', 'qi1', 'qi2')), 'uniquac clamp')
        e1 = subst(r.value[0], {'x1': lift(xc)}); e2 = subst(r.value[1], {'x1': lift(xc)})
        cx.ob("uniquac.clamp-at-%d" % xv, rr.pc, band(eq(rr.value[0], e1), eq(rr.value[1], e2)), function=fn,
              statement="at an exact end point the code evaluates the model at a composition 1e-5 away")
    # ------------------------------------------------------------------ partial pressures
    gp = 'get_partial_pressures'
    for model in ('NRTL', 'UNIQUAC'):
        mix = W.mixture(src, vp=('antoine', 'frost'))
        ctr = {fn: thermo.cac_contract}
        pre = base + W.mixture_pre() + (W.positive('r1', 'r2', 'q1', 'q2', 'qi1', 'qi2') if model == 'UNIQUAC' else [])
        pm = cx.explore(call(src, gp, [], dict(temperature=Tt, mixture=mix, composition=W.composition(src, X, 'molar'), calculation_type=model)), contracts=ctr, pre=pre)
        rm = only_return(pm, gp)
        frame_ob(cx, "pressures.%s.molar" % model, pm, gp)
        cx.requires_obs("pressures.%s.molar" % model, pm)
        psat1 = only_return(cx.explore(call(src, 'Component.get_vapor_pressure', [Tt], self_obj=mix.f['first_component']), pre=pre)).value
        psat2 = only_return(cx.explore(call(src, 'Component.get_vapor_pressure', [Tt], self_obj=mix.f['second_component']), pre=pre)).value
        g = thermo.cac_apps(Tt, mix, W.composition(src, X, 'molar'), model)
        cx.ob("pressures.%s.formula" % model, rm.pc, band(eq(rm.value[0], psat1 * g[0] * X), eq(rm.value[1], psat2 * g[1] * (1 - X))), function=gp,
              statement="p_i = Psat_i(T) * gamma_i(T, x) * x_i with x the mole fraction")
        w = var('w')
        pw = cx.explore(call(src, gp, [], dict(temperature=Tt, mixture=mix, composition=W.composition(src, w, 'weight'), calculation_type=model)), contracts=ctr,
                        pre=[w > 0, w < 1, Tt > 0] + W.mixture_pre())
        rw = only_return(pw, gp)
        frame_ob(cx, "pressures.%s.weight" % model, pw, gp)
        M1, M2 = var('M1'), var('M2')
        xw = (w / M1) / (w / M1 + (1 - w) / M2)
        want1 = subst(rm.value[0], {'x1': xw}); want2 = subst(rm.value[1], {'x1': xw})
        cx.ob("pressures.%s.basis" % model, rw.pc, band(eq(rw.value[0], want1), eq(rw.value[1], want2)), function=gp,
              statement="partial pressures for a mass fraction equal those for the equivalent mole fraction")
        cx.must_fail("pressures.%s.basis" % model, rw.pc, eq(rw.value[0], subst(rm.value[0], {'x1': w})))
    # inlined end-to-end differential of get_partial_pressures
    mix = W.mixture(src)
    for model in ('NRTL', 'UNIQUAC'):
        for typ in ('molar', 'weight'):
            pp = cx.explore(call(src, gp, [], dict(temperature=Tt, mixture=mix, composition=W.composition(src, X, typ), calculation_type=model)),
                            pre=base + W.mixture_pre() + W.positive('r1', 'r2', 'q1', 'q2', 'qi1', 'qi2'))
            differential(cx, gp, None, [], dict(temperature=Tt, mixture=mix, composition=W.composition(src, X, typ), calculation_type=model), pp, RG, label="%s/%s" % (model, typ), n=8)
    cx.assume_note("tau atoms exp(-a/T) do not depend on the composition: generalised to fresh positive reals for the Gibbs-Duhem identities (sound)")
    cx.assume_note("UNIQUAC structural constants r, q, q' positive; T > 0; 0 < x1 < 1 (end points treated separately)")
    cx.assume_note("ghost differentiation operator D, cross-checked numerically on this run")


def replay_case(r):
    m = dict(r.get('model') or {})
    model = 'UNIQUAC' if 'uniquac' in r['name'].lower() else 'NRTL'
    return dict(model=model, env=m, two_alphas=('two-alpha' in r['name']))
