"""C08 - all entry points answer the same question identically, incl. the model choice (DESIGN 3, C08)"""
from .common import *
from . import procs, c02 as C2, lockstep
from ..contracts import flux as CF, process as CP
from ..symex import explore_thunk

ID = "C08"
FRAME_SENSITIVE = True        # the statement relates several calls / call histories: a certain write to state that outlives a call is a violation even where the engine cannot follow its effect
MIN_OBLIGATIONS = 150


def cpf_expected(pv, T, comp, prec, Tp, pp, P1, P2, model):
    """the standalone flux calculation of the statement, as the application term of the cpf contract"""
    return CF.cpf_apps(dict(self=pv, feed_temperature=T, composition=comp, precision=prec, permeate_temperature=Tp, permeate_pressure=pp,
                            first_component_permeance=P1, second_component_permeance=P2, calculation_type=model))


def curve_built_under_the_flux_conditions(cx, prefix="ideal-curve", models=('NRTL', 'UNIQUAC')):
    """Pervaporation.ideal_diffusion_curve composes the flux solver with the DiffusionCurve inversion: the curve object must be
    constructed with the very permeate condition, feed temperature and mixture the fluxes were computed under - otherwise the
    curve inverts the fluxes for a different question (C08) and does not report the membrane's permeances back (C09)."""
    src = cx.src
    Tt, PREC = C2.Tt, C2.PREC
    ctr = {'Pervaporation.calculate_partial_fluxes': CF.cpf_contract, '__class_invariants__': CP.CLASS_INVARIANTS, 'DiffusionCurve.__init__': CP.diffusion_curve_ctor}
    name = 'Pervaporation.ideal_diffusion_curve'; cx.under_contract(name)
    def same(a, b):
        if b is None: return blit(a is None)
        if a is None: return FALSE
        return blit(True) if a is b else eq(a, b)
    for model in models:
        for mode in C2.MODES:
            Tp, pp = C2.mode_args(mode)
            mix = W.mixture(src); pv = C2.pv_obj(src, mix, experiments=Opaque('experiments'))
            comps = Seq(var('ncomp', 'I'), lambda i: Obj('Composition', dict(p=app('xs', lift(i)), type='weight'), owner='external'), owner='external', tag=('xs',))
            ps = cx.explore(call(src, name, [], dict(feed_temperature=Tt, compositions=comps, permeate_temperature=Tp, permeate_pressure=pp, precision=PREC, calculation_type=model), self_obj=pv),
                            contracts=ctr, pre=C2.BASE + [PREC > 0, var('ncomp', 'I') >= 1])
            rs = returns(ps)
            tag = "%s.%s.%s" % (prefix, model, mode)
            cx.ob(tag + ".conditions.paths", [], blit(len(rs) >= 1), kind='paths', function=name)
            for i, r in enumerate(rs):
                c = r.value
                if not (isinstance(c, Obj) and c.cls == 'DiffusionCurve'): raise Unsupported("ideal_diffusion_curve does not return a DiffusionCurve")
                cx.ob("%s.%d.curve-built-under-the-flux-conditions" % (tag, i), r.pc,
                      band(same(c.f['permeate_temperature'], Tp), same(c.f['permeate_pressure'], pp), same(c.f['feed_temperature'], Tt), blit(c.f['mixture'] is pv.f['mixture'])), function=name,
                      statement="the returned curve carries the permeate temperature / pressure, feed temperature and mixture that the fluxes were computed with (so its inversion undoes that flux calculation)")


def obligations(cx):
    src = cx.src
    Tt, Xf, TP, PP, PREC = C2.Tt, C2.Xf, C2.TP, C2.PP, C2.PREC
    ctr = {'Pervaporation.calculate_partial_fluxes': CF.cpf_contract, '__class_invariants__': CP.CLASS_INVARIANTS}
    M1, M2 = var('M1'), var('M2')
    for model in ('NRTL', 'UNIQUAC'):
        for mode in C2.MODES:
            Tp, pp = C2.mode_args(mode)
            for typ in ('weight', 'molar'):
                mix = W.mixture(src); pv = C2.pv_obj(src, mix, experiments=Opaque('experiments'))
                feed = W.composition(src, Xf, typ)
                pre = C2.BASE + [PREC > 0]
                J = cpf_expected(pv, Tt, feed, PREC, Tp, pp, None, None, model)
                tag = "%s.%s.%s" % (model, mode, typ)
                # ---- calculate_permeate_composition
                name = 'Pervaporation.calculate_permeate_composition'; cx.under_contract(name)
                ps = cx.explore(call(src, name, [], dict(feed_temperature=Tt, composition=feed, precision=PREC, permeate_temperature=Tp, permeate_pressure=pp, calculation_type=model), self_obj=pv), contracts=ctr, pre=pre)
                rs = returns(ps)
                cx.ob("permeate-composition.%s.paths" % tag, [], blit(len(rs) >= 1), kind='paths', function=name)
                for i, r in enumerate(rs):
                    cx.ob("permeate-composition.%s.%d" % (tag, i), r.pc, band(eq(r.value.f['p'], J[0] / (J[0] + J[1])), blit(r.value.f['type'] == 'weight')), function=name,
                          statement="permeate composition = flux1/(flux1+flux2) of the standalone flux calculation for the same arguments and the selected activity model")
                # ---- calculate_separation_factor
                name = 'Pervaporation.calculate_separation_factor'; cx.under_contract(name)
                ps = cx.explore(call(src, name, [], dict(feed_temperature=Tt, composition=feed, permeate_temperature=Tp, permeate_pressure=pp, precision=PREC, calculation_type=model), self_obj=pv), contracts=ctr, pre=pre + [Xf > 0, Xf < 1])
                rs = returns(ps)
                cx.ob("separation-factor.%s.paths" % tag, [], blit(len(rs) >= 1), kind='paths', function=name)
                xm = Xf if typ == 'weight' else (M1 * Xf) / (M1 * Xf + M2 * (1 - Xf))
                y = J[0] / (J[0] + J[1])
                for i, r in enumerate(rs):
                    cx.ob("separation-factor.%s.%d" % (tag, i), r.pc, eq(r.value, (y / (1 - y)) / (xm / (1 - xm))), function=name,
                          statement="separation factor = (y1/y2)/(x1/x2) with feed and permeate both as mass fractions, from the same fluxes")
            # ---- ideal_diffusion_curve: every point is the standalone calculation
            mix = W.mixture(src); pv = C2.pv_obj(src, mix, experiments=Opaque('experiments'))
            name = 'Pervaporation.ideal_diffusion_curve'; cx.under_contract(name)
            comps = Seq(var('ncomp', 'I'), lambda i: Obj('Composition', dict(p=app('xs', lift(i)), type='weight'), owner='external'), owner='external', tag=('xs',))
            ctr2 = dict(ctr); ctr2['DiffusionCurve.__init__'] = CP.diffusion_curve_ctor
            ps = cx.explore(call(src, name, [], dict(feed_temperature=Tt, compositions=comps, permeate_temperature=Tp, permeate_pressure=pp, precision=PREC, calculation_type=model), self_obj=pv),
                            contracts=ctr2, pre=C2.BASE + [PREC > 0, var('ncomp', 'I') >= 1])
            rs = returns(ps)
            tag = "%s.%s" % (model, mode)
            cx.ob("ideal-curve.%s.paths" % tag, [], blit(len(rs) >= 1), kind='paths', function=name)
            j = var('jj', 'I')
            for i, r in enumerate(rs):
                c = r.value
                pf = c.f['partial_fluxes']
                from ..symex import Post as _Post, _len as _plen
                ok = isinstance(pf, (Seq, _Post)) and c.f['feed_compositions'] is comps and c.f['permeances'] is None
                cx.ob("ideal-curve.%s.%d.shape" % (tag, i), [], blit(ok), kind='paths', function=name,
                      statement="the curve is built from the supplied compositions and a list of fluxes (a comprehension or an append loop), permeances left to the constructor")
                if ok:
                    want = cpf_expected(pv, Tt, comps.fn(j), PREC, Tp, pp, None, None, model)
                    npf = _plen(r.ex, pf)
                    for qi, q in enumerate(returns(explore_thunk(r.ex, lambda: r.ex.index(pf, j), list(r.pc) + [j >= 0, j < var('ncomp', 'I')]))):
                        Jj = q.value
                        okj = isinstance(Jj, tuple) and len(Jj) == 2
                        cx.ob("ideal-curve.%s.%d.point.%d" % (tag, i, qi), q.pc, band(eq(Jj[0], want[0]), eq(Jj[1], want[1]), eq(lift(npf), var('ncomp', 'I'))) if okj else FALSE, function=name,
                              statement="every point of an ideal diffusion curve is the standalone flux calculation at that composition with the selected model")
    curve_built_under_the_flux_conditions(cx)
    # ------------------------------------------------------------------ process models: every step is a standalone calculation at the reported state
    cfgs = procs.configs(comp_types=('weight',)) + [procs.Config(f, 'temperature', False, 'molar', 'one', False, model='UNIQUAC') for f in procs.FUNCS]
    if cx.tier == 'quick': cfgs = [c for c in cfgs if c.ideal or not (c.curves == 'many' and c.initial)]
    k = var('k', 'I')
    for cfg in cfgs:
        tag = cfg.tag(); fn = 'Pervaporation.' + cfg.func
        cx.under_contract(fn)
        pv, kw, ps = procs.run(cx, cfg)
        steps = procs.normal_steps(ps)
        cx.ob("process.%s.paths" % tag, [], blit(len(steps) >= 1), kind='paths', function=fn)
        cond = kw['conditions']
        for si, st in enumerate(steps):
            t = "process.%s.path%d" % (tag, si)
            J = st.appended('partial_fluxes')
            xk = st.read('feed_composition', 0)
            if cfg.iso: Tk = procs.T0
            else: Tk = st.read('feed_temperature', 0)
            # reported permeances of step k
            pm = st.field('permeances')
            if isinstance(pm, Seq): Pk = pm.fn(k)                       # ideal isothermal: constant series
            else:
                g = st.lists['permeances']
                Pk = g.reads[0] if len(g.init) == 1 else g.app[0]        # non-ideal: prefix + look-ahead; ideal non-isothermal: appended in this step
            want = cpf_expected(pv, Tk, xk, procs.PREC, cond.f['permeate_temperature'], cond.f['permeate_pressure'], Pk[0], Pk[1], cfg.model)
            cx.ob(t + ".step-fluxes", st.pc, band(eq(J[0], want[0]), eq(J[1], want[1])), function=fn,
                  statement="the fluxes of step k are the standalone flux calculation at the reported temperature, composition and permeances of step k, with the selected model")
            y = st.appended('permeate_composition')
            cx.ob(t + ".permeate-composition", st.pc, band(eq(y.f['p'], lift(J[0]) / (lift(J[0]) + lift(J[1]))), blit(y.f['type'] == 'weight')), function=fn,
                  statement="reported permeate composition = flux1/(flux1+flux2)")
            cx.ob(t + ".reported-state-is-the-state-used", [], blit(_same_series(st, cfg)), kind='paths', function=fn,
                  statement="reported temperature / composition / permeance series are the ones the flux calculation was called with")
    # ------------------------------------------------------------------ derived metrics by definition
    mix = W.mixture(src)
    n = var('n', 'I'); j = var('jj', 'I')
    fl = Seq(n, lambda i: (app('J1', lift(i)), app('J2', lift(i))), owner='external', tag=('J',))
    fc = Seq(n, lambda i: Obj('Composition', dict(p=app('xf', lift(i)), type='weight'), owner='external'), owner='external', tag=('xf',))
    pc_ = Seq(n, lambda i: Obj('Composition', dict(p=app('yp', lift(i)), type='weight'), owner='external'), owner='external', tag=('yp',))
    perms = Seq(n, lambda i: (Obj('Permeance', dict(value=app('Pa', lift(i)), units='kg/(m2*h*kPa)')), Obj('Permeance', dict(value=app('Pb', lift(i)), units='kg/(m2*h*kPa)'))), owner='external', tag=('P',))
    curve = Obj('DiffusionCurve', dict(mixture=mix, membrane_name='m', feed_temperature=C2.Tt, feed_compositions=fc, partial_fluxes=fl, permeate_temperature=None, permeate_pressure=None, permeances=perms, comments=None), owner='external')
    pm = Obj('ProcessModel', dict(mixture=mix, membrane_name='m', feed_temperature=None, feed_compositions=fc, permeate_composition=pc_, permeate_temperature=None, permeate_pressure=None, feed_mass=None,
                                  partial_fluxes=fl, permeances=perms, time=None, feed_evaporation_heat=None, permeate_condensation_heat=None, initial_conditions=None, permeance_fits=None, comments=None, membrane_path=None), owner='external')
    ci = {'__class_invariants__': CP.CLASS_INVARIANTS}
    hyp = [n >= 1, j >= 0, j < n]
    J1, J2, xf, yp = app('J1', j), app('J2', j), app('xf', j), app('yp', j)
    yj = J1 / (J1 + J2)
    inv = [xf >= 0, xf <= 1, yp >= 0, yp <= 1, app('Pa', j) >= 0, app('Pb', j) >= 0]        # class invariants of the list elements
    def metric(obj, attr, want, label, fnm):
        cx.under_contract(fnm)
        ps = cx.explore(lambda ex: ex.getattr(obj, attr), contracts=ci, pre=[n >= 1])
        for i, r in enumerate(returns(ps)):
            v = r.value
            if isinstance(v, Seq):
                qs = returns(explore_thunk(r.ex, lambda: r.ex.seq_get(v, j), list(r.pc) + hyp + inv))
                cx.ob("metric.%s.%d.element-paths" % (label, i), [], blit(len(qs) >= 1), kind='paths', function=fnm)
                for qi, q in enumerate(qs):
                    cx.ob("metric.%s.%d.%d" % (label, i, qi), q.pc, band(eq(q.value, want), eq(v.n, n)), function=fnm, statement="metric by definition, element-wise")
            else:
                cx.ob("metric.%s.%d" % (label, i), [], FALSE, function=fnm)
        cx.ob("metric.%s.paths" % label, [], blit(len(returns(ps)) >= 1), kind='paths', function=fnm)
    ps = cx.explore(lambda ex: ex.getattr(curve, 'permeate_composition'), contracts=ci, pre=[n >= 1])
    for i, r in enumerate(returns(ps)):
        for qi, q in enumerate(returns(explore_thunk(r.ex, lambda: r.ex.seq_get(r.value, j), list(r.pc) + hyp + inv))):
            c_ = q.value
            cx.ob("metric.curve.permeate-composition.%d.%d" % (i, qi), q.pc, band(eq(c_.f['p'], yj), blit(c_.f['type'] == 'weight')), function='DiffusionCurve.permeate_composition',
                  statement="curve permeate composition = flux1/(flux1+flux2)")
    metric(curve, 'get_separation_factor', (yj / (1 - yj)) / (xf / (1 - xf)), 'curve.separation-factor', 'DiffusionCurve.get_separation_factor')
    metric(curve, 'get_psi', (J1 + J2) * ((yj / (1 - yj)) / (xf / (1 - xf)) - 1), 'curve.psi', 'DiffusionCurve.get_psi')
    metric(pm, 'get_separation_factor', (yp / (1 - yp)) / (xf / (1 - xf)), 'process.separation-factor', 'ProcessModel.get_separation_factor')
    metric(pm, 'get_psi', (J1 + J2) * ((yp / (1 - yp)) / (xf / (1 - xf)) - 1), 'process.psi', 'ProcessModel.get_psi')
    metric(pm, 'get_selectivity', app('Pa', j) / app('Pb', j), 'process.selectivity', 'ProcessModel.get_selectivity')
    # ------------------------------------------------------------------ default permeances = membrane permeances passed explicitly (lock-step over the solver loop)
    ctr_s = {'get_partial_pressures': CF.gpp_contract, 'Membrane.get_permeance': CF.get_permeance_contract}
    for mode in C2.MODES:
        mix = W.mixture(src); pv = C2.pv_obj(src, mix, experiments=Opaque('experiments'))
        fa, ba, _ = C2.cpf_bind(src, pv, mode, 'NRTL', False)
        Pa = CF.get_permeance_contract(Exec(src), dict(temperature=C2.Tt, component=mix.f['first_component'], self=pv.f['membrane'])).f['value']
        Pb = CF.get_permeance_contract(Exec(src), dict(temperature=C2.Tt, component=mix.f['second_component'], self=pv.f['membrane'])).f['value']
        fb, bb, _ = C2.cpf_bind(src, pv, mode, 'NRTL', True, P=(Pa, Pb))
        ya, yb, da, db = var('y_a'), var('y_b'), var('d_a'), var('d_b')
        lockstep.run_pair(cx, "default-permeances.%s" % mode, (fa, ba), (fb, bb), band(eq(yb, ya), eq(db, da)),
                          lambda ra, rb: band(eq(rb[0], ra[0]), eq(rb[1], ra[1])), ctr_s, C2.BASE + [C2.PREC > 0, Pa >= 0, Pb >= 0])
    from . import c12
    c12.units_obligations(cx)
    cx.assume_note("step 0 of an ideal process = standalone call: step-fluxes obligation at k=0 + default-permeances lemma (here) + basis lemma (C07)")
    cx.assume_note("calculate_partial_fluxes by contract at its call sites: equal argument leaves name the same result (pure function, C20)")
    # ------------------------------------------------------------------ the selected model is honoured on a SHARED object: two calls of the flux law in a row
    # (same feed state and permeate condition, different activity model) - the second call must be the law of ITS model, whatever the first left behind
    ctrs = {'get_partial_pressures': CF.gpp_contract, '__class_invariants__': CP.CLASS_INVARIANTS}
    ysym = var('yq')
    for mode in C2.MODES:
        Tp, pp = C2.mode_args(mode)
        for m1, m2 in (('NRTL', 'UNIQUAC'), ('UNIQUAC', 'NRTL'), ('NRTL', 'NRTL')):
            mix = W.mixture(src); pv = C2.pv_obj(src, mix, experiments=Opaque('experiments'))
            feed = W.composition(src, Xf, 'weight'); yc = W.composition(src, ysym, 'weight')
            Pa, Pb = W.permeance(src, C2.P1), W.permeance(src, C2.P2)
            def run2(ex, m1=m1, m2=m2, pv=pv, feed=feed, yc=yc, Pa=Pa, Pb=Pb, Tp=Tp, pp=pp):
                f = src.find(C2.GPF)
                kw = dict(first_component_permeance=Pa, second_component_permeance=Pb, permeate_composition=yc, feed_composition=feed, feed_temperature=Tt, permeate_temperature=Tp, permeate_pressure=pp)
                ex.call_function(f, [], dict(kw, calculation_type=m1), self_obj=pv, inline=True)
                return ex.call_function(f, [], dict(kw, calculation_type=m2), self_obj=pv, inline=True)
            rs = returns(cx.explore(run2, contracts=ctrs, pre=C2.BASE + [ysym >= 0, ysym <= 1]))
            want = CF.F(mix, C2.P1, C2.P2, yc, feed, Tt, Tp, pp, m2)
            t = "sequence.%s.%s-then-%s" % (mode, m1, m2)
            cx.ob(t + ".paths", [], blit(len(rs) >= 1), kind='paths', function=C2.GPF)
            for i, r in enumerate(rs):
                ok = isinstance(r.value, tuple) and len(r.value) == 2
                cx.ob("%s.%d" % (t, i), r.pc, band(eq(r.value[0], want[0]), eq(r.value[1], want[1])) if ok else FALSE, function=C2.GPF, history=True,
                      statement="a second call on the same Pervaporation object obeys the flux law of the model selected in THAT call")
    cx.no_hidden_state(function='Pervaporation.calculate_partial_fluxes')



def _same_series(st, cfg):
    from ..symex import Post
    ok = True
    v = st.field('feed_compositions'); ok = ok and isinstance(v, Post) and v.grow is st.lists['feed_composition']
    v = st.field('partial_fluxes'); ok = ok and isinstance(v, Post) and v.grow is st.lists['partial_fluxes']
    v = st.field('permeate_composition'); ok = ok and isinstance(v, Post) and v.grow is st.lists['permeate_composition']
    if not cfg.iso:
        v = st.field('feed_temperature'); ok = ok and isinstance(v, Post) and v.grow is st.lists['feed_temperature']
    if not (cfg.ideal and cfg.iso):
        v = st.field('permeances'); ok = ok and isinstance(v, Post) and v.grow is st.lists['permeances']
    return ok


def replay_case(r):
    m = dict(r.get('model') or {})
    nm = r['name']
    model = 'UNIQUAC' if 'UNIQUAC' in nm else 'NRTL'
    mode = 'temperature' if 'temperature' in nm else 'pressure' if 'pressure' in nm else 'vacuum'
    return dict(model=model, mode=mode, typ='molar' if 'molar' in nm else 'weight', env=m)
