"""C19 - contradictory or incomplete specifications are rejected at every entry point (DESIGN 3, C19)"""
from .common import *
from . import procs, c02 as C2
from ..contracts import flux as CF, thermo, process as CP, membrane as CM
from ..loops import segments, Head

ID = "C19"
MIN_OBLIGATIONS = 35
ERR = ('ValueError',)


def obligations(cx):
    src = cx.src
    Tt, Xf, TP, PP = C2.Tt, C2.Xf, C2.TP, C2.PP
    ctr = {'get_partial_pressures': CF.gpp_contract, 'Membrane.get_permeance': CF.get_permeance_contract}
    mix = W.mixture(src); pv = C2.pv_obj(src, mix)
    feed = W.composition(src, Xf, 'weight'); yc = W.composition(src, var('y'), 'weight')
    base = C2.BASE + [var('y') >= 0, var('y') <= 1, C2.PREC > 0]
    # ------------------------------------------------------------------ both permeate conditions: every driving-force entry point rejects
    q = cx.under_contract(C2.GPF)
    kw = dict(first_component_permeance=W.permeance(src, C2.P1), second_component_permeance=W.permeance(src, C2.P2), permeate_composition=yc, feed_composition=feed,
              feed_temperature=Tt, permeate_temperature=TP, permeate_pressure=PP, calculation_type='NRTL')
    all_raise(cx, "both.get_partial_fluxes_from_permeate_composition", cx.explore(call(src, C2.GPF, [], kw, self_obj=pv), contracts=ctr, pre=base), ERR, function=C2.GPF,
              statement="both a permeate temperature and a permeate pressure: rejected with an error")
    cx.under_contract(C2.CPF)
    for given in (True, False):
        f = src.find(C2.CPF)
        kwc = dict(feed_temperature=Tt, composition=feed, precision=C2.PREC, permeate_temperature=TP, permeate_pressure=PP,
                   first_component_permeance=W.permeance(src, C2.P1) if given else None, second_component_permeance=W.permeance(src, C2.P2) if given else None, calculation_type='NRTL')
        bind = lambda ex, kwc=kwc: ex.bind(f, [], kwc, self_obj=pv)
        pp_, hp, carried = segments(cx, f, bind, C2.havoc(src), contracts=ctr, pre=C2.BASE)          # any precision, also > 1 (loop skipped)
        inside = [p for p in hp if hasattr(p.ex, 'mark')]
        ok = len(inside) >= 2 and all(p.outcome == 'raise' and p.value in ERR for p in inside) and all(p.outcome == 'raise' or isinstance(p.value, Head) for p in pp_)
        cx.ob("both.calculate_partial_fluxes.%s" % ('given' if given else 'default'), [], blit(ok), kind='paths', function=C2.CPF,
              outcomes="; ".join("%s %s" % (p.outcome, p.value if p.outcome == 'raise' else type(p.value).__name__) for p in inside),
              statement="from the loop head both continuations (another iteration, or exit and final evaluation) raise: the call never returns normally")
    cpfc = dict(ctr); cpfc['Pervaporation.calculate_partial_fluxes'] = CF.cpf_contract
    for name, kws in (('Pervaporation.calculate_permeate_composition', dict(feed_temperature=Tt, composition=feed, permeate_temperature=TP, permeate_pressure=PP)),
                      ('Pervaporation.calculate_separation_factor', dict(feed_temperature=Tt, composition=feed, permeate_temperature=TP, permeate_pressure=PP))):
        cx.under_contract(name)
        all_raise(cx, "both.%s" % name.split('.')[1], cx.explore(call(src, name, [], kws, self_obj=pv), contracts=cpfc, pre=base), ERR, function=name)
    name = 'Pervaporation.ideal_diffusion_curve'; cx.under_contract(name)
    for label, comps in (('two-points', PList([W.composition(src, var('xa'), 'weight'), W.composition(src, var('xb'), 'molar')], owner='external')),
                         ('n-points', Seq(var('ncomp', 'I'), lambda i: Obj('Composition', dict(p=app('xs', lift(i)), type='weight'), owner='external'), owner='external', tag=('xs',)))):
        ps = cx.explore(call(src, name, [], dict(feed_temperature=Tt, compositions=comps, permeate_temperature=TP, permeate_pressure=PP), self_obj=pv),
                        contracts=dict(cpfc, **{'__class_invariants__': CP.CLASS_INVARIANTS}), pre=base + [var('ncomp', 'I') >= 1])
        all_raise(cx, "both.ideal_diffusion_curve.%s" % label, ps, ERR, function=name)
    for f in procs.FUNCS:
        name = 'Pervaporation.' + f; cx.under_contract(name)
        for extra in (dict(), dict(program=True)) if 'non_isothermal' in f else (dict(),):
            cfg = procs.Config(f, 'both', **extra)
            pv2, kw2, ps = procs.run(cx, cfg)
            all_raise(cx, "both.%s%s" % (f, '.program' if extra else ''), ps, ERR, function=name, statement="both permeate conditions: the process model raises (first step at the latest)")
    name = 'Pervaporation.non_ideal_diffusion_curve'; cx.under_contract(name)
    for curves in ('one', 'many'):
        pv2, kw2, ps = procs.run_curve(cx, 'both', 'weight', curves, False)
        all_raise(cx, "both.non_ideal_diffusion_curve.%s-curve" % curves, ps, ERR, function=name)
    name = 'Membrane.get_estimated_pure_component_flux'; cx.under_contract(name)
    mem = W.membrane(src, experiments=Opaque('experiments'))
    ps = cx.explore(call(src, name, [], dict(temperature=Tt, component=mix.f['first_component'], permeate_temperature=TP, permeate_pressure=PP), self_obj=mem), contracts=ctr, pre=base)
    all_raise(cx, "both.get_estimated_pure_component_flux", ps, ERR, function=name)
    # DiffusionCurve built from fluxes
    cx.functions['DiffusionCurve.__attrs_post_init__'] = dict(span=src.span(src.find('DiffusionCurve.__attrs_post_init__')), how="body executed symbolically")
    def curve(pf, perm, Tp=None, pp=None):
        return lambda ex: ex.construct('DiffusionCurve', [], dict(mixture=mix, membrane_name='m', feed_temperature=Tt, feed_compositions=PList([feed, W.composition(src, var('xb'), 'molar')]),
                                                                  partial_fluxes=pf, permeate_temperature=Tp, permeate_pressure=pp, permeances=perm))
    fl = PList([(var('j1'), var('j2')), (var('j3'), var('j4'))], owner='external')
    ps = cx.explore(curve(fl, None, TP, PP), contracts=ctr, pre=base + [var('xb') >= 0, var('xb') <= 1])
    all_raise(cx, "both.DiffusionCurve-from-fluxes", ps, ERR, function='DiffusionCurve.__attrs_post_init__')
    ps = cx.explore(curve(None, None), contracts=ctr, pre=base + [var('xb') >= 0, var('xb') <= 1])
    all_raise(cx, "incomplete.DiffusionCurve-without-fluxes-and-permeances", ps, ERR, function='DiffusionCurve.__attrs_post_init__',
              statement="a curve with neither fluxes nor permeances is rejected")
    # sanity: a valid specification is not rejected
    ps = cx.explore(curve(fl, None, TP, None), contracts=ctr, pre=base + [var('xb') >= 0, var('xb') <= 1])
    cx.ob("sanity.DiffusionCurve-from-fluxes-valid-returns", [], blit(any(p.outcome == 'return' for p in ps)), kind='paths', function='DiffusionCurve.__attrs_post_init__')
    # ------------------------------------------------------------------ incomplete thermodynamic specifications
    cx.functions['Mixture.__attrs_post_init__'] = dict(span=src.span(src.find('Mixture.__attrs_post_init__')), how="body executed symbolically")
    c1, c2 = W.component(src, '1'), W.component(src, '2')
    ps = cx.explore(lambda ex: ex.construct('Mixture', [], dict(name='m', first_component=c1, second_component=c2)))
    all_raise(cx, "incomplete.Mixture-without-interaction-parameters", ps, ERR, function='Mixture.__attrs_post_init__')
    ps = cx.explore(lambda ex: ex.construct('Mixture', [], dict(name='m', first_component=c1, second_component=c2, nrtl_params=W.nrtl(src))))
    none_raise(cx, "sanity.Mixture-with-parameters-accepted", ps, function='Mixture.__attrs_post_init__')
    cx.under_contract('calculate_activity_coefficients'); cx.under_contract('get_partial_pressures')
    cases = [('NRTL-without-parameters', W.mixture(src, nr=None), 'NRTL'), ('UNIQUAC-without-parameters', W.mixture(src, uq=False), 'UNIQUAC'),
             ('UNIQUAC-without-component-constants', W.mixture(src, ucomp=False), 'UNIQUAC')]
    m_half = W.mixture(src); m_half.f['second_component'].f['uniquac_constants'] = None
    cases.append(('UNIQUAC-one-component-without-constants', m_half, 'UNIQUAC'))
    for label, m, model in cases:
        for typ in ('molar', 'weight'):
            comp = W.composition(src, Xf, typ)
            for fnm in ('calculate_activity_coefficients', 'get_partial_pressures'):
                ps = cx.explore(call(src, fnm, [], dict(temperature=Tt, mixture=m, composition=comp, calculation_type=model)), pre=[Tt > 0, Xf >= 0, Xf <= 1] + W.mixture_pre())
                all_raise(cx, "incomplete.%s.%s.%s" % (label, fnm, typ), ps, ERR, function=fnm, statement="an activity model whose parameters or component constants are missing is rejected, for every composition in [0,1]")
                for xe in (0, 1):
                    pse = cx.explore(call(src, fnm, [], dict(temperature=Tt, mixture=m, composition=W.composition(src, lift(xe), typ), calculation_type=model)), pre=[Tt > 0] + W.mixture_pre())
                    all_raise(cx, "incomplete.%s.%s.%s.x=%d" % (label, fnm, typ, xe), pse, ERR, function=fnm, statement="also for a pure component")
    # callers see the same rejection through the contracts (cac / gpp / cpf contracts raise under the same conditions)
    n = var('n', 'I')
    cx.under_contract('Membrane.calculate_activation_energy')
    ctrm = {'Membrane.get_penetrant_data': CM.penetrant_data_contract(1, False), 'numpy.linalg.lstsq': CM.lstsq_contract}
    ps = cx.explore(call(src, 'Membrane.calculate_activation_energy', [c1], self_obj=mem), contracts=ctrm)
    all_raise(cx, "incomplete.single-experiment-without-activation-energy", ps, ERR, function='Membrane.calculate_activation_energy')
    ctrm = {'Membrane.get_penetrant_data': CM.penetrant_data_contract(1, False), 'min(key=)': CM.min_key_contract, 'numpy.searchsorted': CM.searchsorted_contract, 'numpy.linalg.lstsq': CM.lstsq_contract}
    ps = cx.explore(call(src, 'Membrane.get_permeance', [], dict(temperature=Tt, component=c1), self_obj=mem), contracts=ctrm, pre=[Tt > 0])
    # away from the experiment's temperature every path raises: a path that returns normally (or leaves in another way) implies T == T_exp
    x0 = app('xT', lift(0), *flatten(c1.f['name']))
    others = [p for p in ps if not (p.outcome == 'raise' and p.value in ERR)]
    cx.ob("incomplete.single-experiment-without-activation-energy.get_permeance", [], blit(len(ps) >= 1 and any(p.outcome == 'raise' and p.value in ERR for p in ps)), kind='paths', function='Membrane.get_permeance',
          statement="a single experiment without activation energy is rejected on some path (away from its temperature)")
    for i, p in enumerate(others):
        cx.ob("incomplete.single-experiment-without-activation-energy.get_permeance.normal-path-%d-only-at-the-experiment-temperature" % i, p.pc, eq(x0, Tt), function='Membrane.get_permeance',
              statement="away from the experiment's temperature a single experiment without activation energy is rejected: a path that does not raise implies T == T_experiment")
    cx.assume_note("exception class recorded per path: ValueError in all listed cases; a division-by-zero exit (outside the real model) also counts as not returning normally")
    cx.assume_note("process models: N >= 1; curves: at least one composition (property quantifier)")


def z3sat(fs):
    from ..symex import z3_check
    import z3
    return z3_check(fs, 5000) != z3.unsat


def replay_case(r):
    return dict(name=r['name'])
