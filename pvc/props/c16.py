"""C16 - curve fitting is pure, deterministic and returns the best candidate it tried (DESIGN 3, C16)"""
import ast
from .common import *
from ..symex import ContinueLoop
from ..contracts import process as CP
from ..symex import Result_, INF, explore_thunk

ID = "C16"
MIN_OBLIGATIONS = 60


def len_of(v):
    return v.n if isinstance(v, Seq) else lift(len(v.xs)) if hasattr(v, 'xs') else lift(len(v.items))


def measurements(src, k=None, n=None):
    """caller-owned Measurements with k concrete points or a symbolic number n of points"""
    def m(i):
        i_ = lift(i)
        return Obj('Measurement', dict(x=app('mx', i_), t=app('mt', i_), p=app('mp', i_)), owner='external', tag='measurement')
    if k is not None: lst = PList([m(i) for i in range(k)], owner='external', tag='caller data list')
    else: lst = Seq(n, m, owner='external', tag=('caller data list',))
    return Obj('Measurements', dict(data=lst), owner='external', tag='caller Measurements')


def minimize_contract(ex, b):
    """assumed contract of scipy.optimize.minimize(fun, x0, method): terminates, does not modify its inputs, returns a result whose
    .x has the shape of x0 and is a deterministic function of (fun, x0, method)"""
    a = b['args']; k = b['kwargs']
    fun = a[0] if a else k.get('fun'); x0 = k.get('x0', a[1] if len(a) > 1 else None); method = k.get('method')
    ex.minimize_calls = getattr(ex, 'minimize_calls', []) + [dict(fun=fun, x0=x0, method=method)]
    n = x0.n if isinstance(x0, Seq) else lift(len(x0.xs)) if hasattr(x0, 'xs') else lift(len(x0.items)) if isinstance(x0, PList) else None
    if n is None: raise Unsupported("minimize x0 %r" % (x0,))
    idn = len(ex.minimize_calls)
    x = Seq(n, lambda i: app('opt.x', lift(idn), lift(i)), tag=('opt.x', idn))
    # `success` is whatever the optimiser reports: an unconstrained boolean per call
    from ..ir import bvar as _bv
    return Result_(dict(x=x, success=_bv('opt.success.%d' % idn), fun=app('opt.fun', lift(idn))))


def from_array_contract(ex, b):
    """PervaporationFunction.from_array(array, n, m): proved on the body for all shapes n, m <= 5 below; fresh result"""
    arr = b['array']
    ex.from_array_calls = getattr(ex, 'from_array_calls', []) + [dict(array=arr, n=b['n'], m=b['m'])]
    return Obj('PervaporationFunction', dict(n=b['n'], m=b['m'], alpha=app('fa.alpha', *flatten(arr.tag if isinstance(arr, Seq) and arr.tag else 0)), a=Opaque('a'), b=Opaque('b')), tag=('from_array', arr))


def loop_bodies(fdef):
    """(outer statements before the loops, innermost loop body, loop variable names, statements after) of a function whose
    search loop is `for ..: [for ..:] body`"""
    pre = []; post = []
    loop = None
    for st in fdef.body:
        if isinstance(st, ast.For) and loop is None: loop = st
        elif loop is None: pre.append(st)
        else: post.append(st)
    if loop is None: raise Unsupported("no search loop in %s" % fdef.name, fdef)
    names = [loop.target.id]; body = loop.body
    while len(body) == 1 and isinstance(body[0], ast.For):
        names.append(body[0].target.id); body = body[0].body
    for st in body:
        for n in ast.walk(st):
            if isinstance(n, (ast.For, ast.While, ast.Break)): raise Unsupported("nested control flow in the search loop body", n)
    return pre, body, names, post, loop


def tracking_names(body, default):
    """(best, best_loss) locals of a min-tracking search loop, recognised by their role: `if <loss> < <best_loss>: <best> = <candidate>; <best_loss> = <loss>`"""
    for st in body:
        for n in ast.walk(st):
            if isinstance(n, ast.If) and isinstance(n.test, ast.Compare) and len(n.test.ops) == 1 and isinstance(n.test.ops[0], ast.Lt) \
                    and isinstance(n.test.left, ast.Name) and isinstance(n.test.comparators[0], ast.Name):
                loss, bl = n.test.left.id, n.test.comparators[0].id
                best = None
                for a in n.body:
                    if isinstance(a, ast.Assign) and len(a.targets) == 1 and isinstance(a.targets[0], ast.Name):
                        if a.targets[0].id != bl: best = a.targets[0].id
                if best: return best, bl
    return default


def obligations(cx):
    src = cx.src
    # ------------------------------------------------------------------ (a) frame of fit(): the caller's measurements are never modified
    fit = cx.under_contract('fit'); cx.under_contract('_suggest_n_m'); cx.under_contract('Measurements.append')
    ctr = {'optimize.minimize': minimize_contract, 'PervaporationFunction.from_array': from_array_contract}
    for iz in (False, True):
        for ci in (0, 1):
            for data, dl in ((measurements(src, k=3), '3pts'), (measurements(src, k=0), 'empty')):
                for nm in ((None, None), (2, 1)):
                    tag = "fit.%s.ci%d.%s.%s" % ('zero' if iz else 'nozero', ci, dl, 'auto' if nm[0] is None else 'n2m1')
                    ps = cx.explore(call(src, 'fit', [], dict(data=data, n=nm[0], m=nm[1], include_zero=iz, component_index=ci), inline=True), contracts=ctr)
                    rs = returns(ps)
                    if dl == '3pts': cx.ob(tag + ".returns", [], blit(len(rs) >= 1), kind='paths', function='fit')
                    writes = [w for p in ps for w in p.ex.ext_writes]
                    cx.ob(tag + ".frame", [], blit(not writes), kind='frame', function='fit', writes=str([w[1] for w in writes][:3]),
                          statement="fit() does not modify the measurements it is given (also with zero points requested)")
                    same_len = all(len(data.f['data'].items) == (3 if dl == '3pts' else 0) for p in ps)
                    cx.ob(tag + ".caller-list-length-unchanged", [], blit(same_len), kind='frame', function='fit')
                    for pi, r in enumerate(rs):
                        mc = getattr(r.ex, 'minimize_calls', []); fc = getattr(r.ex, 'from_array_calls', [])
                        ok = len(mc) == 1 and len(fc) == 1 and mc[0]['method'] == 'Powell' and isinstance(fc[0]['array'], Seq) and fc[0]['array'].tag == ('opt.x', 1) and r.value.tag[0] == 'from_array'
                        cx.ob("%s.path%d.result-is-the-optimiser-result" % (tag, pi), [], blit(ok), kind='paths', function='fit',
                              statement="fit returns from_array(minimize(objective on a private copy, zeros, 'Powell').x, n, m): a deterministic function of the data contents given the assumed purity of the optimiser")
                        if ok and nm[0] is not None:
                            cx.ob("%s.path%d.orders" % (tag, pi), r.pc, band(eq(lift(fc[0]['n']), nm[0]), eq(lift(fc[0]['m']), nm[1]), eq(len_of(mc[0]['x0']), 2 + nm[0] + nm[1])), function='fit')
    bad = cx.explore(call(src, 'fit', [], dict(data=measurements(src, k=3), n=1, m=1, include_zero=False, component_index=2), inline=True), contracts=ctr)
    all_raise(cx, "fit.bad-component-index-raises", bad, function='fit')
    # objective(): root-mean-square error of the candidate function on the data it is given; no writes
    cx.under_contract('optimizer.py:objective')
    data = measurements(src, k=3)
    params = PList([var('q%d' % i) for i in range(4)], owner='external')
    fo = src.find('optimizer.py:objective')
    ps = cx.explore(lambda ex: ex.call_function(fo, [], dict(data=data, params=params, n=1, m=1), inline=True), contracts={'PervaporationFunction.__call__': lambda ex, b: app('F', lift(b['x']), lift(b['t']), *[lift(v) for v in ([b['self'].f['alpha']] + list(b['self'].f['a'].items) + list(b['self'].f['b'].items))])})
    for pi, r in enumerate(returns(ps)):
        sse = lift(0)
        for i in range(3):
            sse = sse + power(app('F', app('mx', i), app('mt', i), var('q0'), var('q1'), var('q2'), var('q3')) - app('mp', i), 2)
        cx.ob("objective.path%d.rmse" % pi, r.pc, eq(r.value, app('sqrt', sse / 3)), function='optimizer.py:objective', statement="objective = sqrt(mean squared error of from_array(params) on the data)")
        cx.ob("objective.path%d.frame" % pi, [], blit(not r.ex.ext_writes), kind='frame', function='optimizer.py:objective')
    # ------------------------------------------------------------------ (c) find_best_fit: min-tracking invariant of the search loop (generic iteration)
    fbf = cx.under_contract('find_best_fit')
    pre, body, names, post, loop = loop_bodies(fbf)
    BEST, BLOSS = tracking_names(body, ('best_curve', 'best_loss'))
    nsym = var('n_pts', 'I')
    data = measurements(src, n=nsym)
    def fit_contract(ex, b):
        ex.fit_calls = getattr(ex, 'fit_calls', []) + [b]
        f = Obj('PervaporationFunction', dict(n=b['n'], m=b['m'], alpha=app('fit.alpha', lift(b['n']), lift(b['m'])), a=Opaque('a'), b=Opaque('b')), tag=('fit', b['n'], b['m']))
        return f
    def call_contract(ex, b):
        s_ = b['self']
        return app('F', lift(b['x']), lift(b['t']), *(flatten(s_.tag[1]) + flatten(s_.tag[2])))
    def set_contract(ex, b):
        xs = b['args'][0]
        if not isinstance(xs, Seq): raise Unsupported("set(%r)" % (xs,))
        nd = app('n_distinct', xs.n)
        ex.assume(band(nd >= 0, nd <= xs.n), 'set(): number of distinct elements')
        return Seq(nd, lambda i: app('set.element', lift(i), xs.n), tag=('set',))
    ctr2 = {'fit': fit_contract, 'PervaporationFunction.__call__': call_contract, 'set()': set_contract}
    for iz, forced, CI in [(a_, b_, c_) for a_ in (False, True) for b_ in (False, True) for c_ in (0, 1)]:
        if True:
            tag = "find_best_fit.%s.%s.ci%d" % ('zero' if iz else 'nozero', 'forced-orders' if forced else 'auto-orders', CI)
            kw = dict(data=data, include_zero=iz, component_index=CI, n=(var('n_user', 'I') if forced else None), m=(var('m_user', 'I') if forced else None))
            bl = var('best_loss'); tried = bvar('tried_any')
            def run_iteration(ex, havoc=True):
                env = ex.bind(fbf, [], kw)
                ex.block(pre, env)
                ex.prefix = dict(env)
                if havoc:
                    env[BEST] = Obj('PervaporationFunction', dict(n=None, m=None, alpha=var('best.alpha'), a=Opaque('a'), b=Opaque('b')), tag=('best',))
                    env[BLOSS] = bl
                for nm_ in names: env[nm_] = var(nm_ + '_try', 'I')
                try: ex.block(body, env)
                except ContinueLoop: pass          # `continue`: the iteration ends here
                return env
            # initial state
            ps0 = cx.explore(lambda ex: (lambda env: (ex.block(pre, env), env)[1])(ex.bind(fbf, [], kw)), contracts=ctr2, pre=[nsym >= 1, var('n_user', 'I') >= 0, var('m_user', 'I') >= 0])
            for pi, r in enumerate(returns(ps0)):
                e = r.value
                cx.ob("%s.init%d" % (tag, pi), [], blit(e.get(BEST) is None and e.get(BLOSS) is INF), kind='paths', function='find_best_fit',
                      statement="before the search: no candidate, best loss = +infinity")
                if forced:
                    nt, mt = e.get('n_tries'), e.get('m_tries')
                    ok = isinstance(nt, Seq) and isinstance(mt, Seq)
                    cx.ob("%s.init%d.tries" % (tag, pi), r.pc, band(eq(nt.n, var('n_user', 'I') + 1), eq(mt.n, var('m_user', 'I') + 1)) if ok else FALSE, function='find_best_fit',
                          statement="forced orders: every n' in 0..n and m' in 0..m is tried")
            # first iteration from the real initial state (best_loss = inf)
            ps1 = cx.explore(lambda ex: run_iteration(ex, havoc=False), contracts=ctr2, pre=[nsym >= 1, var('n_user', 'I') >= 0, var('m_user', 'I') >= 0])
            for pi, r in enumerate(returns(ps1)):
                e = r.value
                fc = getattr(r.ex, 'fit_calls', [])
                cx.ob("%s.first-iteration%d.takes-the-candidate" % (tag, pi), [], blit(len(fc) == 1 and isinstance(e[BEST], Obj) and e[BEST].tag[0] == 'fit' and isinstance(e[BLOSS], T)), kind='paths',
                      function='find_best_fit', statement="the first candidate always replaces the empty best (loss < +infinity)")
            # generic iteration from an arbitrary state satisfying the invariant
            ps = cx.explore(lambda ex: run_iteration(ex, havoc=True), contracts=ctr2, pre=[nsym >= 1, var('n_user', 'I') >= 0, var('m_user', 'I') >= 0])
            rs = returns(ps)
            cx.ob(tag + ".iteration.paths", [], blit(len(rs) >= 2), kind='paths', function='find_best_fit')
            for pi, r in enumerate(rs):
                e = r.value
                fc = getattr(r.ex, 'fit_calls', [])
                okc = len(fc) == 1 and fc[0]['data'] is data and fc[0]['include_zero'] == iz and fc[0]['component_index'] == CI and fc[0]['n'] is var(names[0] + '_try', 'I') and fc[0]['m'] is var(names[1] + '_try', 'I')
                cx.ob("%s.iteration%d.candidate=fit(data,n',m')" % (tag, pi), [], blit(okc), kind='paths', function='find_best_fit',
                      statement="each candidate is the public fit() of the supplied data for the tried orders")
                sums = getattr(r.ex, 'sums', [])
                oks = len(sums) == 1
                cx.ob("%s.iteration%d.loss-is-one-sum-over-the-data" % (tag, pi), [], blit(oks), kind='paths', function='find_best_fit')
                if not oks: continue
                loss, seq = sums[0]
                j = var('jj', 'I')
                for q in returns(explore_thunk(r.ex, lambda: r.ex.seq_get(seq, j), list(r.pc) + [j >= 0, j < nsym])):
                    want = power(app('F', app('mx', j), app('mt', j), *(flatten(var(names[0] + '_try', 'I')) + flatten(var(names[1] + '_try', 'I')))) - app('mp', j), 2)
                    cx.ob("%s.iteration%d.loss-summand" % (tag, pi), q.pc, band(eq(q.value, want), eq(seq.n, nsym)), function='find_best_fit',
                          statement="loss of a candidate = sum over the supplied data of (candidate(x,t) - p)^2")
                nb = e[BLOSS]; nc = e[BEST]
                took = isinstance(nc, Obj) and nc.tag[0] == 'fit'
                cx.ob("%s.iteration%d.min-tracking" % (tag, pi), r.pc, band(eq(nb, loss), loss < bl) if took else band(eq(nb, bl), bnot(loss < bl)), function='find_best_fit',
                      statement="invariant preserved: the best loss is the minimum of the losses seen so far and the best curve attains it (strict '<': first minimiser kept)")
                cx.ob("%s.iteration%d.frame" % (tag, pi), [], blit(not r.ex.ext_writes), kind='frame', function='find_best_fit', writes=str(r.ex.ext_writes[:2]))
            # exit: the function returns the tracked best curve
            okp = len(post) == 1 and isinstance(post[0], ast.Return) and isinstance(post[0].value, ast.Name) and post[0].value.id == BEST
            cx.ob(tag + ".returns-the-tracked-best", [], blit(okp), kind='scan', function='find_best_fit', inductive=True)        # syntactic: counts only with a native reproduction
    # lemma: min-tracking invariant  =>  SSE(result) <= SSE(every tried fit)
    Lr, Lk, Lb = var('L_result'), var('L_k'), var('L_best_before')
    cx.ob("lemma.best-of", [eq(Lr, ite(Lk < Lb, Lk, Lb))], band(Lr <= Lk, Lr <= Lb), kind='lemma', statement="after processing candidate k the tracked loss is <= its loss and <= every earlier one (induction over the tries)")
    # ------------------------------------------------------------------ fit_vle: min-tracking over the optimisation methods
    fv = cx.under_contract('fit_vle')
    pre, body, names, post, loop = loop_bodies(fv)
    VBEST, VERR = tracking_names(body, ('best_fit', 'error'))
    vdata = Obj('VLEPoints', dict(components=PList([W.component(src, '1'), W.component(src, '2')], owner='external'), data=Seq(var('n_vle', 'I'), lambda i: Opaque('vle point'), owner='external', tag=('vle',))), owner='external', tag='vle data')
    def obj_contract(ex, b):
        ex.obj_calls = getattr(ex, 'obj_calls', []) + [b]
        p = b['params']
        return app('vle.err', *flatten(p.tag if isinstance(p, Seq) and p.tag else 0))
    def uq_from_array(ex, b): return Obj('UNIQUACParameters', dict(params=b['array']), tag=('uq', b['array']))
    ctr3 = {'optimize.minimize': minimize_contract, 'uniquac_fitting.py:objective': obj_contract, 'UNIQUACParameters.from_array': uq_from_array}
    for meth in (None, 'Powell'):
        tag = "fit_vle.%s" % ('all-methods' if meth is None else 'one-method')
        err = var('error_so_far')
        def run_v(ex, havoc=True):
            env = ex.bind(fv, [], dict(data=vdata, method=meth))
            ex.block(pre, env)
            ex.prefix = dict(env)
            if havoc:
                env[VBEST] = Seq(lift(5), lambda i: app('bf', lift(i)), tag=('best_fit',)); env[VERR] = err
            env[names[0]] = 'SomeMethod'
            try: ex.block(body, env)
            except ContinueLoop: pass              # `continue`: the iteration ends here
            return env
        ps0 = cx.explore(lambda ex: (lambda env: (ex.block(pre, env), env)[1])(ex.bind(fv, [], dict(data=vdata, method=meth))), contracts=ctr3)
        for pi, r in enumerate(returns(ps0)):
            e = r.value
            algs = e.get('algs')
            n_algs = len(algs.items) if isinstance(algs, PList) else len(algs) if isinstance(algs, (list, tuple)) else -1
            cx.ob("%s.init%d" % (tag, pi), [], blit(n_algs == (9 if meth is None else 1) and is_num(e.get(VERR))), kind='paths', function='fit_vle', found="algs=%s error=%s" % (n_algs, e.get(VERR)))
        ps = cx.explore(lambda ex: run_v(ex), contracts=ctr3)
        rs = returns(ps)
        cx.ob(tag + ".iteration.paths", [], blit(len(rs) >= 2), kind='paths', function='fit_vle')
        for pi, r in enumerate(rs):
            e = r.value
            oc = getattr(r.ex, 'obj_calls', []); mc = getattr(r.ex, 'minimize_calls', [])
            ok = len(mc) == 1 and mc[0]['method'] == 'SomeMethod' and len(oc) == 1 and oc[0]['data'] is vdata and isinstance(oc[0]['params'], Seq) and oc[0]['params'].tag == ('opt.x', 1)
            cx.ob("%s.iteration%d.candidate" % (tag, pi), [], blit(ok), kind='paths', function='fit_vle', statement="each method's candidate is scored by the objective on the supplied data")
            if not ok: continue
            cur = app('vle.err', *flatten(('opt.x', 1)))
            took = isinstance(e[VBEST], Seq) and e[VBEST].tag == ('opt.x', 1)
            cx.ob("%s.iteration%d.min-tracking" % (tag, pi), r.pc, band(eq(lift(e[VERR]), cur), cur < err) if took else band(eq(lift(e[VERR]), err), bnot(cur < err)), function='fit_vle',
                  statement="the VLE fit keeps the parameters of the method with the smallest error seen so far")
            cx.ob("%s.iteration%d.frame" % (tag, pi), [], blit(not r.ex.ext_writes), kind='frame', function='fit_vle')
        okp = len(post) == 1 and isinstance(post[0], ast.Return) and VBEST in ast.unparse(post[0].value)
        cx.ob(tag + ".returns-the-tracked-best", [], blit(okp), kind='scan', function='fit_vle', inductive=True)
    # the VLE objective itself: root-mean-square deviation of the UNIQUAC partial pressures from the measured ones on the supplied points
    cx.under_contract('uniquac_fitting.py:objective')
    from ..contracts import flux as CFX, thermo
    pts = PList([Obj('VLEPoint', dict(composition=W.composition(src, var('vx%d' % i), 'molar'), pressures=(var('vp1_%d' % i), var('vp2_%d' % i)), temperature=var('vT%d' % i)), owner='external') for i in range(2)], owner='external')
    comps = PList([W.component(src, '1'), W.component(src, '2')], owner='external')
    vd = Obj('VLEPoints', dict(components=comps, data=pts), owner='external', tag='vle data')
    prm = PList([var('u%d' % i) for i in range(5)], owner='external')
    fo2 = src.find('uniquac_fitting.py:objective')
    psv = cx.explore(lambda ex: ex.call_function(fo2, [], dict(data=vd, params=prm), inline=True), contracts={'get_partial_pressures': CFX.gpp_contract})
    for pi, r in enumerate(returns(psv)):
        sse = lift(0)
        ok = True
        mixs = [c[1]['mixture'] for c in r.ex.calls if c[0] == 'get_partial_pressures']
        okm = len(mixs) >= 2 and all(m.f['first_component'] is comps.items[0] and m.f['second_component'] is comps.items[1] and m.f['nrtl_params'] is None for m in mixs)
        cx.ob("vle-objective.path%d.mixture-built-from-the-data-components-and-the-parameters" % pi, [], blit(okm), kind='paths', function='uniquac_fitting.py:objective')
        if okm:
            up = mixs[0].f['uniquac_params']
            cx.ob("vle-objective.path%d.parameters" % pi, r.pc, band(eq(up.f['alpha_12'], var('u0')), eq(up.f['alpha_21'], var('u1')), eq(up.f['beta_12'], var('u2')), eq(up.f['beta_21'], var('u3'))), function='uniquac_fitting.py:objective')
            for i in range(2):
                pp_ = thermo.gpp_apps(var('vT%d' % i), mixs[0], pts.items[i].f['composition'], 'UNIQUAC')
                sse = sse + power(pp_[0] - var('vp1_%d' % i), 2) + power(pp_[1] - var('vp2_%d' % i), 2)
            cx.ob("vle-objective.path%d.rmse" % pi, r.pc, eq(r.value, app('sqrt', sse / 2)), function='uniquac_fitting.py:objective',
                  statement="VLE objective = sqrt(mean over the supplied points of the squared deviations of both UNIQUAC partial pressures)")
        cx.ob("vle-objective.path%d.frame" % pi, [], blit(not r.ex.ext_writes), kind='frame', function='uniquac_fitting.py:objective')
    cx.ob("vle-objective.paths", [], blit(len(returns(psv)) >= 1), kind='paths', function='uniquac_fitting.py:objective')
    # ------------------------------------------------------------------ (d) PervaporationFunction against the closed form, all shapes n, m <= 5
    for q in ('PervaporationFunction.from_array', 'PervaporationFunction.__call__', 'PervaporationFunction.__mul__'): cx.under_contract(q)
    x, t, c = var('xq'), var('tq'), var('cm')
    fa = src.find('PervaporationFunction.from_array')
    maxo = 3 if cx.tier == 'quick' else 5
    for n in range(maxo + 1):
        for m in range(maxo + 1):
            arr = PList([var('p%d' % i) for i in range(2 + n + m)], owner='external')
            def run(ex):
                f = ex.call_function(fa, [], dict(array=arr, n=n, m=m), cls='PervaporationFunction', inline=True)
                v = ex.call_function(src.find('PervaporationFunction.__call__'), [x, t], {}, self_obj=f, inline=True)
                g = ex.call_function(src.find('PervaporationFunction.__mul__'), [c], {}, self_obj=f, inline=True)
                w = ex.call_function(src.find('PervaporationFunction.__call__'), [x, t], {}, self_obj=g, inline=True)
                return f, v, w
            r = only_return(cx.explore(run, pre=[t > 0]), 'PervaporationFunction n=%d m=%d' % (n, m))
            f, v, w = r.value
            A = lift(0); Bq = lift(0)
            for i in range(n): A = A + var('p%d' % (1 + i)) * power(x, i + 1)
            for i in range(m + 1): Bq = Bq + var('p%d' % (1 + n + i)) * power(x, i)
            cx.ob("function.n%d.m%d.closed-form" % (n, m), r.pc, eq(v, var('p0') * exp(A - Bq / t)), function='PervaporationFunction.__call__',
                  statement="f(x,t) = alpha exp(sum a_i x^(i+1) - sum b_i x^i / t)")
            cx.ob("function.n%d.m%d.times-constant" % (n, m), r.pc, eq(w, c * v), function='PervaporationFunction.__mul__', statement="(f*c)(x,t) = c f(x,t)")
            cx.ob("function.n%d.m%d.shape" % (n, m), [], blit(len(f.f['a'].items) == n and len(f.f['b'].items) == m + 1 and not r.ex.ext_writes), kind='paths', function='PervaporationFunction.from_array')
    cx.bounded.append(dict(function='PervaporationFunction.from_array/__call__/__mul__', bound="all %d shapes with n, m <= %d" % ((maxo + 1) ** 2, maxo),
                           reason="coefficient lists are sliced and summed: unrolled per shape (complete for the orders find_best_fit tries by default, <= 4); __call__ is additionally proved for lists of arbitrary length (function.generic.*), from_array's slicing stays per shape"))
    # __call__ and __mul__ for coefficient lists of ARBITRARY length (builtin sum() by contract; generic summands)
    from ..symex import Seq as _Seq
    la, lb, jg = var('la', 'I'), var('lb', 'I'), var('jg', 'I')
    fobj = Obj('PervaporationFunction', dict(n=var('n', 'I'), m=var('m', 'I'), alpha=var('alpha'), a=_Seq(la, lambda i: app('a', lift(i)), tag=('a',), owner='external'),
                                             b=_Seq(lb, lambda i: app('b', lift(i)), tag=('b',), owner='external')), owner='external')
    def rung(ex):
        v = ex.call_function(src.find('PervaporationFunction.__call__'), [x, t], {}, self_obj=fobj, inline=True)
        return v, list(getattr(ex, 'sums', []))
    rg = only_return(cx.explore(rung, pre=[t > 0, x > 0, la >= 1, lb >= 1]), 'PervaporationFunction.__call__ (generic)')
    vg, sums = rg.value
    fnq = 'PervaporationFunction.__call__'
    cx.ob("function.generic.two-sums", [], blit(len(sums) == 2 and isinstance(vg, T)), kind='paths', function=fnq, statement="the body takes exactly two sums over lists built from a and b")
    if len(sums) == 2 and isinstance(vg, T):
        (Sa, qa), (Sb, qb) = sums
        cx.ob("function.generic.a.length", rg.pc, eq(lift(qa.n), la), function=fnq)
        cx.ob("function.generic.b.length", rg.pc, eq(lift(qb.n), lb), function=fnq)
        cx.ob("function.generic.a.summand", rg.pc + [jg >= 0, jg < la], eq(qa.fn(jg), app('a', jg) * exp(log(x) * (jg + 1))), function=fnq, statement="summand j of the first sum is a[j] x^(j+1)")
        cx.ob("function.generic.b.summand", rg.pc + [jg >= 0, jg < lb], eq(qb.fn(jg), app('b', jg) * exp(log(x) * jg)), function=fnq, statement="summand j of the second sum is b[j] x^j")
        cx.ob("function.generic.closed-form", rg.pc, eq(vg, var('alpha') * exp(Sa - Sb / t)), function=fnq, statement="f(x,t) = alpha exp(sum_a - sum_b / t) for coefficient lists of arbitrary length")
        cx.must_fail("function.generic.b.summand", rg.pc + [jg >= 0, jg < lb], eq(qb.fn(jg), app('b', jg) * exp(log(x) * (jg + 1))))
    cx.assume_note("assumed contract of the builtin sum(iterable): the sum of its elements; x^j is exp(j log x) for x > 0 in the generic-length closed form of PervaporationFunction.__call__ (x = 0 is covered by the per-shape unrolling)")
    cx.assume_note("assumed contract of scipy.optimize.minimize: terminates, deterministic function of (objective, x0, method), does not modify its inputs")
    cx.assume_note("determinism of fit/find_best_fit/fit_vle = frame conditions (proved) + purity of the optimiser (assumed): equal data contents give identical coefficients")
    cx.assume_note("induction over the tried candidates (base: first-iteration obligations; step: generic iteration) is the standard loop rule; the induction principle is trusted")


def replay_case(r):
    return dict(name=r['name'])
