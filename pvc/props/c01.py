"""C01 - process models conserve total and per-component mass on a regular time grid (DESIGN 3, C01)"""
from .common import *
from . import procs
from ..contracts import flux as CF

ID = "C01"
NATIVE_BOUNDED = (14, 60)        # native corpus: ideal processes over step-count / step-length grids (float rounding of the time grid)
MIN_OBLIGATIONS = 300
SERIES = ('feed_temperature', 'feed_compositions', 'permeate_composition', 'permeate_temperature', 'permeate_pressure', 'feed_mass',
          'partial_fluxes', 'permeances', 'time', 'feed_evaporation_heat', 'permeate_condensation_heat')


def series_len(v):
    if isinstance(v, Post): return v.length()
    if isinstance(v, Seq): return v.n
    if isinstance(v, PList): return lift(len(v.items))
    raise Unsupported("series %r" % (v,))


def obligations(cx):
    src = cx.src
    for f in procs.FUNCS: cx.under_contract('Pervaporation.' + f)
    cfgs = procs.configs(comp_types=('weight',)) + [procs.Config(f, 'vacuum', False, 'molar', 'one', False) for f in procs.FUNCS] \
        + [procs.Config(f, 'temperature', False, 'weight', 'many', True, model='UNIQUAC') for f in procs.FUNCS]
    if cx.tier == 'quick':
        cfgs = [c for c in cfgs if not (not c.ideal and c.curves == 'many' and c.initial and c.mode != 'temperature')]
    N, DT, A_, M0, T0, X0 = procs.N, procs.DT, procs.A_, procs.M0, procs.T0, procs.X0
    k = var('k', 'I')
    kept = []
    for cfg in cfgs:
        tag = cfg.tag()
        pv, kw, ps = procs.run(cx, cfg, extra_contracts={'__allow_shape_change__': True})
        fn = 'Pervaporation.' + cfg.func
        steps = procs.normal_steps(ps)
        cx.ob(tag + ".paths", [], blit(len(steps) >= 1 and all(p.outcome == 'raise' or (isinstance(p.value, Obj) and p.value.cls == 'ProcessModel') for p in ps)),
              kind='paths', function=fn, outcomes=str(outcome_set(ps)))
        cx.requires_obs(tag, [s.path for s in steps])
        if cfg.ideal and cfg.comp_type == 'weight' and cfg.model == 'NRTL' and steps: kept.append((cfg, steps[0], pv))
        for si, st in enumerate(steps):
            t = "%s.path%d" % (tag, si)
            changes = [n for n in st.ex.notes if isinstance(n, dict) and 'shape_change' in n]
            cx.ob(t + ".series-keep-their-shape", [], blit(not changes), kind='paths', function=fn, found=str(changes),
                  statement="every element of a reported series has the shape of its first element (in particular feed compositions are mass fractions from step 0 on)")
            J = st.appended('partial_fluxes')
            m_k = st.read('feed_mass', 0); m_n = st.appended('feed_mass')
            xk = st.read('feed_composition', 0); xn = st.appended('feed_composition')
            if not (isinstance(J, tuple) and len(J) == 2 and isinstance(xk, Obj) and isinstance(xn, Obj) and m_k is not None):
                raise Unsupported("unexpected shape of the step state in %s" % cfg.func)
            dm = (lift(J[0]) + lift(J[1])) * A_ * DT
            cx.ob(t + ".step.total-mass", st.pc, eq(m_n, m_k - dm), function=fn,
                  statement="feed_mass[k+1] = feed_mass[k] - (flux1+flux2) x area x step length")
            cx.ob(t + ".step.component-mass", st.pc, eq(xn.f['p'] * m_n, xk.f['p'] * m_k - lift(J[0]) * A_ * DT), function=fn,
                  statement="mass of component 1: x[k+1] m[k+1] = x[k] m[k] - flux1 x area x step length")
            cx.ob(t + ".step.composition-type", [], blit(xn.f['type'] == 'weight' and xk.f['type'] == 'weight'), kind='paths', function=fn,
                  statement="feed compositions are reported as mass fractions")
            if si == 0:
                cx.cover(t + ".step", st.pc)
                cx.must_fail(t + ".step.total-mass", st.pc + [lift(J[1]) > 0], eq(m_n, m_k - lift(J[0]) * A_ * DT))
            # prefix: the series start at the stated initial amount, composition (as mass fraction) and temperature
            im = st.init('feed_mass'); ix = st.init('feed_composition')
            cx.ob(t + ".init.mass", st.pc, band(blit(len(im) == 1), eq(lift(im[0]), M0)) if len(im) == 1 else FALSE, function=fn, statement="feed_mass[0] = initial feed amount")
            if cfg.comp_type == 'weight': want_x0 = X0
            else: want_x0 = (var('M1') * X0) / (var('M1') * X0 + var('M2') * (1 - X0))
            cx.ob(t + ".init.composition", st.pc, band(eq(ix[0].f['p'], want_x0), blit(ix[0].f['type'] == 'weight')) if len(ix) == 1 else FALSE, function=fn,
                  statement="feed_compositions[0] = initial composition converted to mass fraction")
            if cfg.iso:
                ft = st.field('feed_temperature')
                cx.ob(t + ".init.temperature", st.pc, eq(need_seq(ft, 'feed_temperature').fn(k), T0), function=fn, statement="isothermal: feed_temperature[k] = initial temperature for every k")
            else:
                it_ = st.init('feed_temperature')
                cx.ob(t + ".init.temperature", st.pc, eq(lift(it_[0]), T0) if len(it_) == 1 else FALSE, function=fn, statement="feed_temperature[0] = initial temperature")
            # the returned ProcessModel exposes the loop's series, each of length N, time[k] = k x step length
            lens = []
            for name in SERIES:
                lens.append(eq(series_len(st.field(name)), N))
            cx.ob(t + ".lengths", st.pc, band(*lens), function=fn, statement="every series of the returned model has exactly number_of_steps entries")
            tm = st.field('time')
            cx.ob(t + ".time-grid", st.pc + [k >= 0, k < N], eq(need_seq(tm, 'time').fn(k), DT * k), function=fn, statement="time[k] = k x step length")
            same = True
            for fld, lst in (('feed_mass', 'feed_mass'), ('feed_compositions', 'feed_composition'), ('partial_fluxes', 'partial_fluxes'), ('permeate_composition', 'permeate_composition')):
                v = st.field(fld)
                same = same and isinstance(v, Post) and lst in st.lists and v.grow is st.lists[lst]
            cx.ob(t + ".model-exposes-the-series", [], blit(same), kind='paths', function=fn,
                  statement="the reported series are the lists built by the step loop (look-ahead element removed)")
            if si == 0: cx.must_fail(t + ".time-grid", st.pc + [k >= 1, k < N], eq(need_seq(tm, 'time').fn(k), DT * (k + 1)))
    recurrence_differential(cx, kept)
    cx.assume_note("induction over steps: prefix = base case, generic iteration = step, append-only frame checked syntactically (DESIGN 2.6); the induction principle itself is trusted")
    cx.assume_note("calculate_partial_fluxes, get_permeance, find_best_fit, PervaporationFunction.__call__, TemperatureProgram.program by contract")
    cx.assume_note("'exactly up to floating-point rounding': rounding is outside the real-number model")


def recurrence_differential(cx, kept):
    """extracted recurrence == CPython: the real ideal models are run natively; at every step the recurrence terms of the generic
    iteration, evaluated at the real state of step k with the real callee results (fluxes, permeances, programme value), must
    reproduce the real state of step k+1 and the heats of step k.  A disagreement is exit 3 (engine problem), not a verdict."""
    from ..nativeio import native
    from ..ir import ev, EvalError
    cases = []; metas = []
    for cfg, st, pv in kept:
        case = dict(func=cfg.func, mode=cfg.mode, program=cfg.program, comp_type='weight', N=5, dt=0.25, A=0.03, m0=2.0, T0=333.15, x0=0.2, Tp=285.0, pp=0.7, builtin='H2O_EtOH', program_offset=0.0)
        cases.append(case); metas.append((cfg, st, pv))
    if not cases: return
    outs = native(dict(cmd='procs_series', cases=cases))
    total = 0
    for (cfg, st, pv), S in zip(metas, outs):
        if 'error' in S: raise Unsupported("recurrence differential: native run failed: %s" % S['error'])
        mix = pv.f['mixture']
        env0 = dict(A=S['A'], dt=S['dt'], m0=S['m0'], T0=S['T0'], x0=S['x0'], prec=S['prec'], N=S['N'])
        if S['Tp'] is not None: env0['Tp'] = S['Tp']
        if S['pp'] is not None: env0['pp'] = S['pp']
        for t_, c in (('1', S['c1']), ('2', S['c2'])):
            if c['vptype'] != 'antoine': raise Unsupported("recurrence differential expects Antoine components")
            env0.update({'M' + t_: c['M'], 'vpa' + t_: c['vpa'], 'vpb' + t_: c['vpb'], 'vpc' + t_: c['vpc'], 'ca' + t_: c['ca'], 'cb' + t_: c['cb'], 'cc' + t_: c['cc'], 'cd' + t_: c['cd']})
        names = [flatten(mix.f['first_component'].f['name'])[0], flatten(mix.f['second_component'].f['name'])[0]]
        terms = dict(m=st.appended('feed_mass'), x=st.appended('feed_composition').f['p'], y=st.appended('permeate_composition').f['p'], Q=st.appended('feed_evaporation_heat'))
        cnd = st.appended('permeate_condensation_heat')
        if isinstance(cnd, T): terms['C'] = cnd
        if not cfg.iso: terms['T'] = st.appended('feed_temperature')
        apps = collect(list(terms.values()), lambda n: isinstance(n, T) and n.op == 'app')
        for k in range(S['N'] - 1):
            env = dict(env0); env['k'] = k
            def setread(name, val):
                v = st.read(name, 0)
                if isinstance(v, Obj): env[v.f['p'].a[0]] = val
                elif isinstance(v, T) and v.op == 'v': env[v.a[0]] = val
            setread('feed_mass', S['feed_mass'][k]); setread('feed_composition', S['x'][k])
            if not cfg.iso: setread('feed_temperature', S['T'][k])
            for a in apps:
                nm = a.a[0]
                if nm == 'cpf1': env[('#', a.id)] = S['J'][k][0]
                elif nm == 'cpf2': env[('#', a.id)] = S['J'][k][1]
                elif nm == 'perm': env[('#', a.id)] = S['P'][k][0 if a.a[2] is names[0] else 1]
                elif nm == 'program': env[('#', a.id)] = S['T'][k + 1]
                elif nm == 'log' or nm == 'sqrt': pass
                else: raise Unsupported("recurrence differential: unexpected callee application %s" % nm)
            want = dict(m=S['feed_mass'][k + 1], x=S['x'][k + 1], y=S['y'][k], Q=S['Q'][k])
            if 'C' in terms: want['C'] = S['C'][k]
            if 'T' in terms: want['T'] = S['T'][k + 1]
            for key, t_ in terms.items():
                try: got = ev(t_, env)
                except EvalError as x: raise Unsupported("recurrence differential: cannot evaluate %s at step %d: %s" % (key, k, x))
                if abs(got - want[key]) > 1e-8 * max(1.0, abs(want[key])):
                    raise Unsupported("ENGINE-DIFFERENTIAL %s (%s): extracted recurrence gives %s=%r at step %d, the real model has %r" % (cfg.func, cfg.tag(), key, got, k, want[key]))
                total += 1
    cx.notes.append(dict(recurrence_differential=dict(models=len(metas), compared_values=total)))
    cx.diff_total = getattr(cx, 'diff_total', 0) + total


def replay_case(r):
    m = dict(r.get('model') or {})
    from . import procs_native_case as PN
    return PN.case_from(r['name'], m)
