"""C01 - process models conserve total and per-component mass on a regular time grid (DESIGN 3, C01)"""
from .common import *
from . import procs
from ..contracts import flux as CF

ID = "C01"
NATIVE_BOUNDED = (14, 60)        # native corpus: ideal processes over step-count / step-length grids (float rounding of the time grid)
MIN_OBLIGATIONS = 300
SERIES = ('feed_temperature', 'feed_compositions', 'permeate_composition', 'permeate_temperature', 'permeate_pressure', 'feed_mass',
          'partial_fluxes', 'permeances', 'time', 'feed_evaporation_heat', 'permeate_condensation_heat')


def series_len(v):
    if isinstance(v, Post): return v.length()
    if isinstance(v, Seq): return v.n
    if isinstance(v, PList): return lift(len(v.items))
    raise Unsupported("series %r" % (v,))


def obligations(cx):
    src = cx.src
    for f in procs.FUNCS: cx.under_contract('Pervaporation.' + f)
    cfgs = procs.configs(comp_types=('weight',)) + [procs.Config(f, 'vacuum', False, 'molar', 'one', False) for f in procs.FUNCS] \
        + [procs.Config(f, 'temperature', False, 'weight', 'many', True, model='UNIQUAC') for f in procs.FUNCS]
    if cx.tier == 'quick':
        cfgs = [c for c in cfgs if not (not c.ideal and c.curves == 'many' and c.initial and c.mode != 'temperature')]
    N, DT, A_, M0, T0, X0 = procs.N, procs.DT, procs.A_, procs.M0, procs.T0, procs.X0
    k = var('k', 'I')
    for cfg in cfgs:
        tag = cfg.tag()
        pv, kw, ps = procs.run(cx, cfg, extra_contracts={'__allow_shape_change__': True})
        fn = 'Pervaporation.' + cfg.func
        steps = procs.normal_steps(ps)
        cx.ob(tag + ".paths", [], blit(len(steps) >= 1 and all(p.outcome == 'raise' or (isinstance(p.value, Obj) and p.value.cls == 'ProcessModel') for p in ps)),
              kind='paths', function=fn, outcomes=str(outcome_set(ps)))
        cx.requires_obs(tag, [s.path for s in steps])
        for si, st in enumerate(steps):
            t = "%s.path%d" % (tag, si)
            changes = [n for n in st.ex.notes if isinstance(n, dict) and 'shape_change' in n]
            cx.ob(t + ".series-keep-their-shape", [], blit(not changes), kind='paths', function=fn, found=str(changes),
                  statement="every element of a reported series has the shape of its first element (in particular feed compositions are mass fractions from step 0 on)")
            J = st.appended('partial_fluxes')
            m_k = st.read('feed_mass', 0); m_n = st.appended('feed_mass')
            xk = st.read('feed_composition', 0); xn = st.appended('feed_composition')
            if not (isinstance(J, tuple) and len(J) == 2 and isinstance(xk, Obj) and isinstance(xn, Obj) and m_k is not None):
                raise Unsupported("unexpected shape of the step state in %s" % cfg.func)
            dm = (lift(J[0]) + lift(J[1])) * A_ * DT
            cx.ob(t + ".step.total-mass", st.pc, eq(m_n, m_k - dm), function=fn,
                  statement="feed_mass[k+1] = feed_mass[k] - (flux1+flux2) x area x step length")
            cx.ob(t + ".step.component-mass", st.pc, eq(xn.f['p'] * m_n, xk.f['p'] * m_k - lift(J[0]) * A_ * DT), function=fn,
                  statement="mass of component 1: x[k+1] m[k+1] = x[k] m[k] - flux1 x area x step length")
            cx.ob(t + ".step.composition-type", [], blit(xn.f['type'] == 'weight' and xk.f['type'] == 'weight'), kind='paths', function=fn,
                  statement="feed compositions are reported as mass fractions")
            if si == 0:
                cx.cover(t + ".step", st.pc)
                cx.must_fail(t + ".step.total-mass", st.pc + [lift(J[1]) > 0], eq(m_n, m_k - lift(J[0]) * A_ * DT))
            # prefix: the series start at the stated initial amount, composition (as mass fraction) and temperature
            im = st.init('feed_mass'); ix = st.init('feed_composition')
            cx.ob(t + ".init.mass", st.pc, band(blit(len(im) == 1), eq(lift(im[0]), M0)) if len(im) == 1 else FALSE, function=fn, statement="feed_mass[0] = initial feed amount")
            if cfg.comp_type == 'weight': want_x0 = X0
            else: want_x0 = (var('M1') * X0) / (var('M1') * X0 + var('M2') * (1 - X0))
            cx.ob(t + ".init.composition", st.pc, band(eq(ix[0].f['p'], want_x0), blit(ix[0].f['type'] == 'weight')) if len(ix) == 1 else FALSE, function=fn,
                  statement="feed_compositions[0] = initial composition converted to mass fraction")
            if cfg.iso:
                ft = st.field('feed_temperature')
                ok = isinstance(ft, Seq)
                cx.ob(t + ".init.temperature", st.pc, eq(ft.fn(k), T0) if ok else FALSE, function=fn, statement="isothermal: feed_temperature[k] = initial temperature for every k")
            else:
                it_ = st.init('feed_temperature')
                cx.ob(t + ".init.temperature", st.pc, eq(lift(it_[0]), T0) if len(it_) == 1 else FALSE, function=fn, statement="feed_temperature[0] = initial temperature")
            # the returned ProcessModel exposes the loop's series, each of length N, time[k] = k x step length
            lens = []
            for name in SERIES:
                lens.append(eq(series_len(st.field(name)), N))
            cx.ob(t + ".lengths", st.pc, band(*lens), function=fn, statement="every series of the returned model has exactly number_of_steps entries")
            tm = st.field('time')
            cx.ob(t + ".time-grid", st.pc + [k >= 0, k < N], eq(tm.fn(k), DT * k) if isinstance(tm, Seq) else FALSE, function=fn, statement="time[k] = k x step length")
            same = True
            for fld, lst in (('feed_mass', 'feed_mass'), ('feed_compositions', 'feed_composition'), ('partial_fluxes', 'partial_fluxes'), ('permeate_composition', 'permeate_composition')):
                v = st.field(fld)
                same = same and isinstance(v, Post) and lst in st.lists and v.grow is st.lists[lst]
            cx.ob(t + ".model-exposes-the-series", [], blit(same), kind='paths', function=fn,
                  statement="the reported series are the lists built by the step loop (look-ahead element removed)")
            if si == 0: cx.must_fail(t + ".time-grid", st.pc + [k >= 1, k < N], eq(tm.fn(k), DT * (k + 1)) if isinstance(tm, Seq) else FALSE)
    cx.assume_note("induction over steps: prefix = base case, generic iteration = step, append-only frame checked syntactically (DESIGN 2.6); the induction principle itself is trusted")
    cx.assume_note("calculate_partial_fluxes, get_permeance, find_best_fit, PervaporationFunction.__call__, TemperatureProgram.program by contract")
    cx.assume_note("'exactly up to floating-point rounding': rounding is outside the real-number model")


def replay_case(r):
    m = dict(r.get('model') or {})
    from . import procs_native_case as PN
    return PN.case_from(r['name'], m)
