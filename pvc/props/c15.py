"""C15 - mole-/mass-fraction conversion is a consistent bijection (DESIGN 3, C15)"""
from .common import *
from ..nativeio import differential

ID = "C15"
NATIVE_BOUNDED = (40, 400)        # (quick, thorough) native corpus sizes - bounded stand-in for rounding effects
MIN_OBLIGATIONS = 20


def conv(cx, mix, p, typ, meth, pre):
    """Composition(p, typ).<meth>(mix) on the real constructor + method: all paths"""
    src = cx.src
    def run(ex):
        c = ex.construct('Composition', [], dict(p=p, type=typ))
        return ex.call_function(src.find('Composition.' + meth), [mix], {}, self_obj=c, inline=True)
    return cx.explore(run, pre=pre)


def obligations(cx):
    src = cx.src
    for q in ('Composition.to_molar', 'Composition.to_weight', 'Composition.first', 'Composition.second', '_is_in_0_to_1_range'):
        cx.under_contract(q)
    cx.functions['Composition.__init__'] = dict(span=src.span(src.cls('Composition')), how="attrs constructor derived from the class body; real validator executed")
    mix = W.mixture(src)
    M = W.positive('M1', 'M2')
    p = var('p'); M1, M2 = var('M1'), var('M2')
    # --- construction: rejected outside [0,1], accepted inside
    ps = cx.explore(lambda ex: ex.construct('Composition', [], dict(p=p, type='weight')))
    lo = [q for q in ps if q.outcome == 'raise']; ok = returns(ps)
    cx.ob("ctor.paths", [], blit(len(ok) == 1 and len(lo) >= 1 and all(q.value == 'ValueError' for q in lo)), kind='paths', function='Composition.__init__')
    cx.ob("ctor.accepts-only-[0,1]", ok[0].pc, band(p >= 0, p <= 1), function='Composition.__init__', statement="a constructed Composition has 0 <= p <= 1 (class invariant)")
    for i, q in enumerate(lo):
        cx.ob("ctor.rejects-outside.%d" % i, q.pc, bor(p < 0, p > 1), function='Composition.__init__')
    # every p outside [0,1] is rejected: the accepting path is infeasible there
    cx.ob("ctor.rejects-below", ok[0].pc + [p < 0], FALSE, function='Composition.__init__', statement="p < 0 is rejected")
    cx.ob("ctor.rejects-above", ok[0].pc + [p > 1], FALSE, function='Composition.__init__', statement="p > 1 is rejected")
    cx.cover("ctor.accept", ok[0].pc)
    # accessors
    c0 = W.composition(src, p, 'weight')
    f = only_return(cx.explore(lambda ex: ex.getattr(c0, 'first'))).value
    s2 = only_return(cx.explore(lambda ex: ex.getattr(c0, 'second'))).value
    cx.ob("first-is-p", [], eq(f, p), function='Composition.first')
    cx.ob("first+second=1", [], eq(f + s2, 1), function='Composition.second')
    # --- conversions
    spec = {'to_molar': lambda w: (w / M1) / (w / M1 + (1 - w) / M2), 'to_weight': lambda x: (M1 * x) / (M1 * x + M2 * (1 - x))}
    own = {'to_molar': 'molar', 'to_weight': 'weight'}; other = {'to_molar': 'weight', 'to_weight': 'molar'}
    res = {}
    for meth in ('to_molar', 'to_weight'):
        fn = 'Composition.' + meth
        # identity on own type: the very same object is returned
        csame = W.composition(src, p, own[meth])
        r = only_return(cx.explore(call(src, fn, [mix], self_obj=csame), pre=M), fn)
        cx.ob("%s.identity-on-own-type" % meth, [], blit(r.value is csame), kind='paths', function=fn)
        # conversion from the other type
        pre = M
        ps = conv(cx, mix, p, other[meth], meth, pre + [p >= 0, p <= 1])
        none_raise(cx, "%s.never-raises-for-admissible-input" % meth, ps, function=fn,
                   statement="inner construction of the converted Composition never fails for p in [0,1], M>0")
        no_abnormal(cx, meth, ps, function=fn)
        # the formula below is a contract for EVERY call, whatever was converted before: no state that outlives the call is written
        writes = [w for q_ in ps for w in q_.ex.ext_writes]
        cx.ob("%s.frame" % meth, [], blit(not writes), kind='frame', function=fn, writes=str(sorted({w[1] for w in writes}))[:300], **frame_meta(writes),
              statement="the conversion writes nothing but its freshly allocated result (no cache, no module-level state, arguments untouched)")
        r = only_return(ps, fn)
        if not (isinstance(r.value, Obj) and r.value.cls == 'Composition'): raise Unsupported("%s does not return a Composition" % fn)
        cx.ob("%s.result-type" % meth, [], blit(r.value.f['type'] == own[meth]), kind='paths', function=fn)
        cx.ob("%s.formula" % meth, r.pc, eq(r.value.f['p'], spec[meth](p)), function=fn)
        cx.ob("%s.range" % meth, r.pc, band(r.value.f['p'] >= 0, r.value.f['p'] <= 1), function=fn)
        cx.cover(meth, r.pc)
        res[meth] = r
        # fixes 0 and 1
        for v in (0, 1):
            rr = only_return(conv(cx, mix, lift(v), other[meth], meth, pre), fn)
            cx.ob("%s.fixes-%d" % (meth, v), rr.pc, eq(rr.value.f['p'], v), function=fn)
        # strictly increasing
        q = var('p2')
        r2 = only_return(conv(cx, mix, q, other[meth], meth, pre + [q >= 0, q <= 1]), fn)
        cx.ob("%s.strictly-increasing" % meth, r.pc + r2.pc + [p < q], r.value.f['p'] < r2.value.f['p'], function=fn)
        cx.must_fail("%s.strictly-increasing" % meth, r.pc + r2.pc + [p < q], r.value.f['p'] > r2.value.f['p'])
        differential(cx, fn, W.composition(src, p, other[meth]), [mix], {}, cx.explore(call(src, fn, [mix], self_obj=W.composition(src, p, other[meth])), pre=pre + [p >= 0, p <= 1]),
                     dict(p=(0.0, 1.0), M1=(10, 200), M2=(10, 200), **{'*': (0.1, 2.0)}))
    # --- round trips
    def rt(first, second, t0):
        def run(ex):
            c1 = ex.construct('Composition', [], dict(p=p, type=t0))
            c2 = ex.call_function(src.find('Composition.' + first), [mix], {}, self_obj=c1, inline=True)
            return ex.call_function(src.find('Composition.' + second), [mix], {}, self_obj=c2, inline=True)
        return cx.explore(run, pre=M + [p >= 0, p <= 1])
    for first, second, t0 in (('to_molar', 'to_weight', 'weight'), ('to_weight', 'to_molar', 'molar')):
        ps = rt(first, second, t0)
        none_raise(cx, "roundtrip.%s-%s.never-raises" % (first, second), ps, function='Composition.' + second)
        r = only_return(ps)
        cx.ob("roundtrip.%s-%s" % (first, second), r.pc, eq(r.value.f['p'], p), function='Composition.' + second,
              statement="%s then %s returns the original fraction" % (first, second))
        cx.ob("roundtrip.%s-%s.type" % (first, second), [], blit(r.value.f['type'] == t0), kind='paths')
        cx.must_fail("roundtrip.%s-%s" % (first, second), r.pc, eq(r.value.f['p'], 1 - p))
    # --- ratio law: x/(1-x) == w/(1-w) * M2/M1
    r = res['to_molar']; x = r.value.f['p']
    cx.ob("ratio.mole-ratio=mass-ratio*M2/M1", r.pc + [p < 1], eq(x / (1 - x), p / (1 - p) * M2 / M1), function='Composition.to_molar')
    r = res['to_weight']; w = r.value.f['p']
    cx.ob("ratio.mass-ratio=mole-ratio*M1/M2", r.pc + [p < 1], eq(w / (1 - w), p / (1 - p) * M1 / M2), function='Composition.to_weight')
    # class invariant relies on p never being assigned after construction
    wr = [x for x in src.writes_to_field('p')]
    cx.ob("invariant.no-assignment-to-p", [], blit(not wr), kind='scan', found=str(wr))
    cx.assume_note("molar masses are positive (property quantifier)")


def replay_case(r):
    m = r.get('model') or {}
    meth = 'to_weight' if 'to_weight' in r['name'].split('.')[0] or r['name'].startswith('roundtrip.to_weight') else 'to_molar'
    return dict(p=m.get('p', 0.3), p2=m.get('p2', 0.6), M1=m.get('M1', 18.0), M2=m.get('M2', 46.0))
