"""C11 - process models scale correctly with size and with the area/time trade-off (DESIGN 3, C11)"""
from .common import *
from . import procs
from .c03 import step0_subst, sub_value

ID = "C11"
FRAME_SENSITIVE = True        # the statement relates several calls / call histories: a certain write to state that outlives a call is a violation even where the engine cannot follow its effect
MIN_OBLIGATIONS = 200


def leaves(v, out=None):
    """numeric leaves of a step value, with a label"""
    if out is None: out = []
    if isinstance(v, T): out.append(v)
    elif isinstance(v, (int, float)) and not isinstance(v, bool): out.append(lift(v))
    elif isinstance(v, Obj):
        for x in v.f.values(): leaves(x, out)
    elif isinstance(v, tuple):
        for x in v: leaves(x, out)
    return out


def obligations(cx):
    src = cx.src
    for f in procs.FUNCS: cx.under_contract('Pervaporation.' + f)
    A_, M0, DT, N = procs.A_, procs.M0, procs.DT, procs.N
    c = var('c'); kf = var('kf')
    cfgs = procs.configs(comp_types=('weight',))
    if cx.tier == 'quick': cfgs = [x for x in cfgs if x.ideal or not (x.curves == 'many' and x.initial)]
    EXT = ('feed_mass', 'feed_evaporation_heat', 'permeate_condensation_heat')       # extensive series: scale with c
    for cfg in cfgs:
        tag = cfg.tag(); fn = 'Pervaporation.' + cfg.func
        pv, kw, ps = procs.run(cx, cfg)
        steps = procs.normal_steps(ps)
        cx.ob(tag + ".paths", [], blit(len(steps) >= 1), kind='paths', function=fn)
        for si, st in enumerate(steps):
            t = "%s.path%d" % (tag, si)
            mk_name = st.read('feed_mass', 0).a[0]
            # ---- (area, feed amount) -> (c area, c feed amount): coupling m' = c m, everything intensive equal
            s1 = {'A': c * A_, 'm0': c * M0, mk_name: c * st.read('feed_mass', 0)}
            hy = st.pc + [c > 0]
            goals_int, goals_ext = [], []
            for name, g in st.lists.items():
                for ai, v in enumerate(g.app):
                    for lf in leaves(v):
                        w = subst(lf, s1)
                        (goals_ext if name in EXT else goals_int).append(eq(w, c * lf) if name in EXT else eq(w, lf))
                for v in g.init:
                    for lf in leaves(v):
                        w = subst(lf, s1)
                        (goals_ext if name in EXT else goals_int).append(eq(w, c * lf) if name in EXT else eq(w, lf))
            cx.ob(t + ".size.intensive-unchanged", hy, band(*goals_int), function=fn,
                  statement="area and feed amount x c: fluxes, compositions, permeances, temperatures of step k+1 (and the prefix) unchanged, given the coupling at step k")
            cx.ob(t + ".size.extensive-scale", hy, band(*goals_ext), function=fn, statement="area and feed amount x c: feed masses and heats x c")
            # same control path: the scaled run satisfies the same path condition
            cx.ob(t + ".size.same-path", hy, band(*[subst(p, s1) for p in st.pc]), function=fn, statement="the scaled run takes the same path (same guards, same validations)")
            # ---- (area, step) -> (k area, step / k), no programme: every per-step state unchanged (time grid excluded)
            if not cfg.program:
                s2 = {'A': kf * A_, 'dt': DT / kf}
                hy2 = st.pc + [kf > 0]
                goals = []
                for name, g in st.lists.items():
                    for v in list(g.app) + list(g.init):
                        for lf in leaves(v): goals.append(eq(subst(lf, s2), lf))
                cx.ob(t + ".area-time.states-unchanged", hy2, band(*goals), function=fn, statement="area x k, step / k (no programme): every per-step state unchanged")
                cx.ob(t + ".area-time.same-path", hy2, band(*[subst(p, s2) for p in st.pc]), function=fn)
            if si == 0:
                cx.cover(t + ".size", hy)
                cx.must_fail(t + ".size", hy + [c > 1, st.appended('feed_mass') > 0], eq(subst(st.appended('feed_mass'), s1), st.appended('feed_mass')))
                # ---- fluxes at step 0 never depend on area, feed amount or step length
                m0s = step0_subst(st)
                J0 = sub_value(st.appended('partial_fluxes'), m0s)
                fv = free_vars(*leaves(J0))
                cx.ob(t + ".step0-fluxes-independent", [], blit(not ({'A', 'm0', 'dt'} & set(fv))), kind='scan', function=fn, found=str(sorted(set(fv) & {'A', 'm0', 'dt'})),
                      statement="the step-0 flux term does not mention area, feed amount or step length")
    cx.assume_note("coupling at step k is the induction hypothesis (m'_k = c m_k, intensive states equal); base case = prefix values; induction principle trusted")
    cx.assume_note("the time grid itself is excluded from the area/time statement; with a programme the statement does not apply (as in the property)")
    from . import procs as _procs
    _procs.frame_probe(cx)
    cx.no_hidden_state(function=None)



def replay_case(r):
    m = dict(r.get('model') or {})
    from . import procs_native_case as PN
    cs = PN.case_from(r['name'], m)
    for c in cs:
        for k in ('c', 'kf'):
            if isinstance(m.get(k), (int, float)) and 1e-3 <= m[k] <= 1e3: c[k] = m[k]
    return cs
