"""C05 - non-ideal models follow the fitted permeance functions they return (DESIGN 3, C05)"""
from .common import *
from . import procs
from ..contracts import process as CP

ID = "C05"
FRAME_SENSITIVE = True        # the statement relates several calls / call histories: a certain write to state that outlives a call is a violation even where the engine cannot follow its effect
MIN_OBLIGATIONS = 150


def fval(f, x, t):
    """value of a fitted permeance function by its contract: alpha * exp(A(a,x) - B(b,x)/t)"""
    ex = Exec(None)
    return CP.pf_call_contract(ex, dict(self=f, x=x, t=t))


def Rconst(src): return lift(src.consts[('pyvaporation/utils/utils.py', 'R')].value)


def check_fits(cx, t, fn, fits, kwargs, curves, Tref, pc, mix, dcs, include_zero_single, single_rescale_always):
    """the returned functions are the public best-fit results for each component's measurements (rescaled for a single curve)"""
    src = cx.src; R = Rconst(src)
    ok = isinstance(fits, tuple) and len(fits) == 2 and all(isinstance(f, Obj) and f.cls == 'PervaporationFunction' for f in fits)
    cx.ob(t + ".fits.shape", [], blit(ok), kind='paths', function=fn)
    if not ok: return None
    out = []
    for i, f in enumerate(fits):
        base = f
        tg = getattr(f, 'tag', None)
        # provenance: walk back through __mul__ (fresh object sharing a and b) to the find_best_fit result
        a_tag = f.f['a'].tag if isinstance(f.f['a'], Seq) else None
        want_n = kwargs.get('n_first' if i == 0 else 'n_second')
        want_m = 0 if curves == 'one' else kwargs.get('m_first' if i == 0 else 'm_second')
        want_iz = include_zero_single if curves == 'one' else kwargs.get('include_zero', False)
        L = [CP.tag_id(('measurements', i + 1, dcs.tag))] + flatten(want_iz) + flatten(i) + flatten(want_n) + flatten(want_m)
        cx.ob(t + ".fits.%d.provenance" % (i + 1), [], blit(a_tag == ('fit.a',) + tuple(L)), kind='paths', function=fn,
              statement="returned function %d = find_best_fit(measurements of component %d of the supplied curve set, n, m (0 for a single curve), component_index=%d)" % (i + 1, i + 1, i))
        alpha0 = app('fit.alpha', *L)
        if curves == 'one':
            b0 = app('fit.b0', *L)
            Ea = app('Ea_regressed', *flatten(mix.f['first_component' if i == 0 else 'second_component'].f['name']))
            Tc = var('Tc')
            bnow = f.f['b']
            okb = isinstance(bnow, PList) and len(bnow.items) == 1
            cx.ob(t + ".fits.%d.single-curve.b-shape" % (i + 1), [], blit(okb), kind='paths', function=fn)
            if okb:
                resc = band(eq(f.f['alpha'], alpha0 * exp(-(b0 / Tc) + Ea / (R * Tc))), eq(bnow.items[0], Ea / R))
                same = band(eq(f.f['alpha'], alpha0), eq(bnow.items[0], b0))
                if single_rescale_always:
                    cx.ob(t + ".fits.%d.single-curve.rescaled" % (i + 1), pc, resc, function=fn)
                else:
                    cx.ob(t + ".fits.%d.single-curve.rescaled-or-unchanged" % (i + 1), pc, bor(band(ne(Tc, Tref), resc), band(eq(Tc, Tref), same)), function=fn,
                          statement="single curve: unchanged at the curve's temperature, Arrhenius-rescaled otherwise")
                # Arrhenius lemma: f'(x,T) = f(x,Tc) * exp(-Ea/R (1/T - 1/Tc))
                x, Tq = var('xq'), var('Tq')
                f0 = Obj('PervaporationFunction', dict(n=f.f['n'], m=f.f['m'], alpha=alpha0, a=f.f['a'], b=PList([b0])))
                fr = Obj('PervaporationFunction', dict(n=f.f['n'], m=f.f['m'], alpha=alpha0 * exp(-(b0 / Tc) + Ea / (R * Tc)), a=f.f['a'], b=PList([Ea / R])))
                # lemma on the rescaled function of the `rescaled` obligation above (exponent identity): f'(x,T) = f(x,Tc) exp(-Ea/R (1/T - 1/Tc))
                cx.ob(t + ".fits.%d.single-curve.arrhenius" % (i + 1), [Tq > 0, Tc > 0], eq(fval(fr, x, Tq), fval(f0, x, Tc) * exp(-(Ea / R) * (1 / Tq - 1 / Tc))), kind='lemma', function=fn,
                      statement="single curve: permeance modelled at T = permeance at the curve temperature x exp(-Ea_i/R (1/T - 1/Tc)) with the membrane's activation energy")
        else:
            cx.ob(t + ".fits.%d.multi-curve.unchanged" % (i + 1), pc, eq(f.f['alpha'], alpha0), function=fn)
        out.append(f)
    return out


def obligations(cx):
    src = cx.src
    for f in ('non_ideal_isothermal_process', 'non_ideal_non_isothermal_process', 'non_ideal_diffusion_curve'): cx.under_contract('Pervaporation.' + f)
    cx.under_contract('PervaporationFunction.__mul__')
    T0, X0 = procs.T0, procs.X0
    M1, M2 = var('M1'), var('M2')
    cfgs = [c for c in procs.configs(funcs=procs.FUNCS[2:], comp_types=('weight', 'molar')) if c.mode == 'vacuum' or (c.comp_type == 'weight' and not c.program)]
    if cx.tier == 'quick': cfgs = [c for c in cfgs if not (c.mode != 'vacuum' and c.curves == 'many')]
    # initial permeances stated in other units: the models convert them, and it is the CONVERTED value that fixes the factor
    cfgs += [procs.Config(f, 'vacuum', False, 'weight', 'one', True, init_units=u) for f in procs.FUNCS[2:] for u in (('SI',) if cx.tier == 'quick' else ('SI', 'GPU'))]
    for cfg in cfgs:
        tag = cfg.tag(); fn = 'Pervaporation.' + cfg.func
        pv, kw, ps = procs.run(cx, cfg)
        mix = pv.f['mixture']; dcs = kw['diffusion_curve_set']
        steps = procs.normal_steps(ps)
        cx.ob(tag + ".paths", [], blit(len(steps) >= 1), kind='paths', function=fn)
        x0m = X0 if cfg.comp_type == 'weight' else (M1 * X0) / (M1 * X0 + M2 * (1 - X0))
        for si, st in enumerate(steps):
            t = "%s.path%d" % (tag, si)
            fits = check_fits(cx, t, fn, st.field('permeance_fits'), kw, cfg.curves, T0, st.pc, mix, dcs, False, not cfg.iso)
            if fits is None: continue
            P0 = st.init('permeances')
            okp = len(P0) == 1 and isinstance(P0[0], tuple) and len(P0[0]) == 2
            cx.ob(t + ".initial-permeances.shape", [], blit(okp), kind='paths', function=fn)
            if not okp: continue
            Pn = st.appended('permeances')
            for i in (0, 1):
                f = fits[i]; p0 = P0[0][i].f['value']
                f00 = fval(f, x0m, T0)
                if cfg.initial:
                    from .c12 import to_kg as _to_kg
                    cx.ob(t + ".P0.%d.user-supplied" % (i + 1), st.pc, eq(p0, _to_kg(var('Pi%d' % (i + 1)), cfg.init_units, M1 if i == 0 else M2)), function=fn,
                          statement="step 0 uses the user-supplied initial permeance, converted to kg/(m2 h kPa) with the component's own molar mass")
                else:
                    cx.ob(t + ".P0.%d.from-fit" % (i + 1), st.pc, eq(p0, f00), function=fn, statement="no initial permeances: step 0 uses the fit at the initial mass fraction and temperature (factor 1)")
                FR = p0 / f00
                if cfg.iso: xk, Tk1 = st.read('feed_composition', 0).f['p'], T0
                else: xk, Tk1 = st.appended('feed_composition').f['p'], st.appended('feed_temperature')
                cx.ob(t + ".P%d.follows-fit" % (i + 1), st.pc + [lift(Tk1) > 0], eq(Pn[i].f['value'], fval(f, xk, Tk1) * FR), function=fn,
                      statement="permeance of step k+1 = returned fit(feed composition of step %s, feed temperature of step k+1) x constant factor fixed at step 0" % ('k' if cfg.iso else 'k+1'))
                cx.ob(t + ".P%d.units" % (i + 1), [], blit(Pn[i].f['units'] == 'kg/(m2*h*kPa)' and P0[0][i].f['units'] == 'kg/(m2*h*kPa)'), kind='paths', function=fn)
            if si == 0:
                cx.cover(t, st.pc)
                f = fits[0]
                cx.must_fail(t + ".P1.follows-fit", st.pc + [lift(Tk1) > 0, P0[0][0].f['value'] > 0], eq(Pn[0].f['value'], fval(f, xk, Tk1) * (P0[0][0].f['value'] / fval(f, x0m, T0)) * 2))
    # ------------------------------------------------------------------ non_ideal_diffusion_curve
    fn = 'Pervaporation.non_ideal_diffusion_curve'
    TF = procs.TF
    for comp_type in ('weight', 'molar'):
        for curves in ('one', 'many'):
            for initial in (False, True):
                if cx.tier == 'quick' and curves == 'many' and initial and comp_type == 'molar': continue
                tag = "curve.%s.%s-curve%s" % (comp_type, curves, '.initial' if initial else '')
                pv, kw, ps = procs.run_curve(cx, 'vacuum', comp_type, curves, initial)
                mix = pv.f['mixture']; dcs = kw['diffusion_curve_set']
                steps = [procs.Step(p) for p in ps if p.outcome == 'return' and any(l['kind'] == 'recurrence' for l in p.ex.loops)]
                cx.ob(tag + ".paths", [], blit(len(steps) >= 1), kind='paths', function=fn)
                x0m = X0 if comp_type == 'weight' else (M1 * X0) / (M1 * X0 + M2 * (1 - X0))
                for si, st in enumerate(steps):
                    t = "%s.path%d" % (tag, si)
                    # the fits are locals of the function: recover them from the appended permeances via the contract applications logged on the path
                    fobjs = [c[1]['self'] for c in st.ex.calls if c[0] == 'PervaporationFunction.__call__']
                    firsts = [f for f in fobjs if _cidx(f) == 0]; seconds = [f for f in fobjs if _cidx(f) == 1]
                    if not firsts or not seconds: raise Unsupported("non_ideal_diffusion_curve no longer evaluates both fitted functions")
                    fits = check_fits(cx, t, fn, (firsts[-1], seconds[-1]), kw, curves, TF, st.pc, mix, dcs, kw['include_zero'], False)
                    if fits is None: continue
                    P0 = st.init('permeances'); Pn = st.appended('permeances')
                    xs0 = st.init('compositions')
                    cx.ob(t + ".x0.mass-fraction", st.pc, band(eq(xs0[0].f['p'], x0m), blit(xs0[0].f['type'] == 'weight')), function=fn)
                    xn = st.appended('compositions').f['p']; xk = st.read('compositions', 0).f['p']
                    cx.ob(t + ".x.step", st.pc, eq(xn, xk + procs.DX), function=fn, statement="composition grid: x[i+1] = x[i] + delta")
                    for i in (0, 1):
                        f = fits[i]; p0 = P0[0][i].f['value']; f00 = fval(f, x0m, TF)
                        if initial: cx.ob(t + ".P0.%d.user-supplied" % (i + 1), st.pc, eq(p0, var('Pi%d' % (i + 1))), function=fn)
                        else: cx.ob(t + ".P0.%d.from-fit" % (i + 1), st.pc, eq(p0, f00), function=fn, statement="no initial permeances: first point uses the fit at the initial mass fraction (factor 1)")
                        cx.ob(t + ".P%d.follows-fit" % (i + 1), st.pc, eq(Pn[i].f['value'], fval(f, xn, TF) * (p0 / f00)), function=fn,
                              statement="permeance of point i+1 = fit(composition of point i+1, feed temperature) x constant factor fixed at point 0")
    # ------------------------------------------------------------------ PervaporationFunction.__mul__: same coefficient lists (aliased), alpha x c
    fobj = Obj('PervaporationFunction', dict(n=var('n', 'I'), m=var('m', 'I'), alpha=var('alpha'), a=Seq(var('la', 'I'), lambda i: app('a', lift(i)), tag=('a',)), b=PList([var('b0')])), owner='external')
    r = only_return(cx.explore(call(src, 'PervaporationFunction.__mul__', [var('cm')], self_obj=fobj)))
    cx.ob("mul.alpha-scaled-coefficients-shared", [], band(eq(r.value.f['alpha'], var('alpha') * var('cm')), blit(r.value.f['a'] is fobj.f['a'] and r.value.f['b'] is fobj.f['b'] and r.value is not fobj)),
          function='PervaporationFunction.__mul__', statement="f*c: fresh function with alpha*c sharing the coefficient lists a and b")
    cx.assume_note("hypothesis of C05: fitted alpha > 0 (otherwise the Permeance clamp intervenes)")
    cx.assume_note("find_best_fit / Measurements.from_diffusion_curves_* / PervaporationFunction.__call__ / calculate_activation_energy by contract (pure functions; C16, C07, C12)")
    cx.assume_note("initial permeances in kg/(m2 h kPa) in most configurations; SI (thorough: and GPU) for one configuration per model")
    cx.no_hidden_state(function=None)



def _cidx(f):
    tg = f.f['a'].tag if isinstance(f.f['a'], Seq) else None
    if not tg or tg[0] != 'fit.a': return None
    ci = tg[3]
    return int(ci.a[0]) if isinstance(ci, T) and ci.op == 'c' else None


def replay_case(r):
    m = dict(r.get('model') or {})
    from . import procs_native_case as PN
    if r['name'].startswith('curve.') or r['name'].startswith('mul.'):
        p = r['name'].split('.')
        return dict(curve=True, comp_type='molar' if 'molar' in p else 'weight', curves='many' if 'many-curve' in p else 'one', initial='initial' in p)
    return PN.case_from(r['name'], m)
