"""C07 - results do not depend on mole- vs mass-fraction input basis (DESIGN 3, C07)"""
from .common import *
from . import procs, c02 as C2, lockstep
from .c03 import sub_value
from .c06 import swap_lemma
from ..contracts import flux as CF, thermo, process as CP
from ..symex import explore_thunk

ID = "C07"
FRAME_SENSITIVE = True        # the statement relates several calls / call histories: a certain write to state that outlives a call is a violation even where the engine cannot follow its effect
MIN_OBLIGATIONS = 80
TIMEOUT = dict(quick=180, thorough=900)
Wv = var('w')                                  # a mass fraction; the equivalent mole fraction is XM
M1, M2 = var('M1'), var('M2')
XM = (Wv / M1) / (Wv / M1 + (1 - Wv) / M2)


def basis_lemma(name, L):
    """get_partial_pressures(T, mix, Composition(w,'weight'), m) == get_partial_pressures(T, mix, Composition(to_molar(w),'molar'), m)
    (proved from the body: `pressures.basis` below and C04), applied by rewriting to pairs of applications"""
    from ..symex import flatten as fl
    tw, tm = fl('weight')[0], fl('molar')[0]
    def lem(apps):
        out = []
        A = [a for a in apps if a.a[0] == name]
        for a in A:
            for b in A:
                ra, rb = a.a[1:], b.a[1:]
                if len(ra) != len(rb) or a is b: continue
                # leaves: [T] + mixture + [p, type] + [model]
                if ra[-2] is not tw or rb[-2] is not tm: continue
                if any(x is not y for x, y in zip(ra[1:-3], rb[1:-3])) or ra[-1] is not rb[-1]: continue
                w = ra[-3]; x = rb[-3]
                prem = band(eq(ra[0], rb[0]), eq(x, (w / M1) / (w / M1 + (1 - w) / M2)))
                out.append((prem, [(a, b)], "%s(weight w) = %s(molar to_molar(w))" % (name, name)))
        return out
    return lem


def obligations(cx):
    src = cx.src
    Tt = C2.Tt
    base = [Wv > 0, Wv < 1, Tt > 0] + W.mixture_pre()
    mix = W.mixture(src)
    # ------------------------------------------------------------------ thermodynamics (bodies): basis lemma for gamma and partial pressures
    for q, label in (('calculate_activity_coefficients', 'gamma'), ('get_partial_pressures', 'pressures')):
        cx.under_contract(q)
        for model in ('NRTL', 'UNIQUAC'):
            pre = base + (W.positive('r1', 'r2', 'q1', 'q2', 'qi1', 'qi2') if model == 'UNIQUAC' else [])
            rw = only_return(cx.explore(call(src, q, [], dict(temperature=Tt, mixture=mix, composition=W.composition(src, Wv, 'weight'), calculation_type=model)), pre=pre), q)
            rm = only_return(cx.explore(call(src, q, [], dict(temperature=Tt, mixture=mix, composition=W.composition(src, XM, 'molar'), calculation_type=model)), pre=pre), q)
            cx.ob("%s.%s.basis" % (label, model), rw.pc + rm.pc, band(eq(rw.value[0], rm.value[0]), eq(rw.value[1], rm.value[1])), function=q,
                  statement="the same physical composition as mass or mole fraction gives the same %s" % label)
    # ------------------------------------------------------------------ flux solver: lock-step (weight feed vs equivalent molar feed)
    ctr = {'get_partial_pressures': CF.gpp_contract, 'Membrane.get_permeance': CF.get_permeance_contract}
    cx.under_contract(C2.CPF)
    for mode in C2.MODES:
        pv = C2.pv_obj(src, mix, experiments=Opaque('experiments'))
        fa, ba, _ = C2.cpf_bind(src, pv, mode, 'NRTL', True, feed=W.composition(src, Wv, 'weight'))
        fb, bb, _ = C2.cpf_bind(src, pv, mode, 'NRTL', True, feed=W.composition(src, XM, 'molar'))
        ya, yb, da, db = var('y_a'), var('y_b'), var('d_a'), var('d_b')
        lems = [basis_lemma('pp1', None), basis_lemma('pp2', None)]
        lockstep.run_pair(cx, "solver.%s" % mode, (fa, ba), (fb, bb), band(eq(yb, ya), eq(db, da)), lambda r1, r2: band(eq(r2[0], r1[0]), eq(r2[1], r1[1])),
                          ctr, C2.BASE + [C2.PREC > 0, Wv > 0, Wv < 1], lemmas=lems)
    # ------------------------------------------------------------------ helpers by contract + solver basis lemma (cpf apps related by rewriting)
    def cpf_basis(name):
        from ..symex import flatten as fl
        tw, tm = fl('weight')[0], fl('molar')[0]
        def lem(apps):
            out = []
            A = [a for a in apps if a.a[0] == name]
            for a in A:
                for b in A:
                    ra, rb = a.a[1:], b.a[1:]
                    if len(ra) != len(rb) or a is b: continue
                    # leaves: [T, p, type, ...rest]
                    if ra[2] is not tw or rb[2] is not tm: continue
                    if any(x is not y for x, y in zip(ra[3:], rb[3:])): continue
                    prem = band(eq(ra[0], rb[0]), eq(rb[1], (ra[1] / M1) / (ra[1] / M1 + (1 - ra[1]) / M2)))
                    out.append((prem, [(a, b)], "%s(weight) = %s(equivalent molar)" % (name, name)))
            return out
        return lem
    clems = [cpf_basis('cpf1'), cpf_basis('cpf2')]
    ctrc = {'Pervaporation.calculate_partial_fluxes': CF.cpf_contract, '__class_invariants__': CP.CLASS_INVARIANTS}
    pv = C2.pv_obj(src, mix, experiments=Opaque('experiments'))
    for name in ('Pervaporation.calculate_permeate_composition', 'Pervaporation.calculate_separation_factor'):
        cx.under_contract(name)
        for mode in C2.MODES:
            Tp, pp = C2.mode_args(mode)
            kw = dict(feed_temperature=Tt, permeate_temperature=Tp, permeate_pressure=pp, precision=C2.PREC)
            ra = returns(cx.explore(call(src, name, [], dict(kw, composition=W.composition(src, Wv, 'weight')), self_obj=pv), contracts=ctrc, pre=C2.BASE + base))
            rb = returns(cx.explore(call(src, name, [], dict(kw, composition=W.composition(src, XM, 'molar')), self_obj=pv), contracts=ctrc, pre=C2.BASE + base))
            cx.ob("%s.%s.paths" % (name.split('.')[1], mode), [], blit(bool(ra) and bool(rb)), kind='paths', function=name)
            if ra and rb:
                va, vb = ra[0].value, rb[0].value
                va = va.f['p'] if isinstance(va, Obj) else va; vb = vb.f['p'] if isinstance(vb, Obj) else vb
                cx.ob("%s.%s.basis" % (name.split('.')[1], mode), ra[0].pc + rb[0].pc, eq(va, vb), lemmas=clems, function=name,
                      statement="same result whether the feed state is given as mass fraction or as the equivalent mole fraction")
    # ------------------------------------------------------------------ process models: the whole run coincides (initial feed converted to mass fraction)
    for f in procs.FUNCS:
        cx.under_contract('Pervaporation.' + f)
        ideal = f.startswith('ideal')
        variants = [dict()] if ideal else [dict(curves='one', initial=False), dict(curves='many', initial=False), dict(curves='one', initial=True)]
        for v in variants:
            for mode in ('vacuum',) if cx.tier == 'quick' else ('vacuum', 'temperature'):
                cw = procs.Config(f, mode, False, 'weight', **v); cm = procs.Config(f, mode, False, 'molar', **v)
                pw = procs.normal_steps(procs.run(cx, cw)[2]); pm = procs.normal_steps(procs.run(cx, cm)[2])
                tag = "process." + cw.tag()
                cx.ob(tag + ".paths", [], blit(len(pw) >= 1 and len(pw) == len(pm)), kind='paths', function='Pervaporation.' + f)
                for si, (a, b) in enumerate(zip(pw, pm)):
                    # weight run with x0 := w ; molar run with x0 := to_molar(w)
                    sa = {'x0': Wv}; sb = {'x0': XM}
                    hy = [subst(c, sa) for c in a.pc] + [subst(c, sb) for c in b.pc] + [Wv > 0, Wv < 1]
                    goals = []
                    for name, g in a.lists.items():
                        gb = b.lists.get(name)
                        if gb is None: raise Unsupported("list %s missing in the molar run" % name)
                        for va, vb in zip(list(g.init) + list(g.app), list(gb.init) + list(gb.app)):
                            for la, lb in zip(leaves(va), leaves(vb)): goals.append(eq(subst(la, sa), subst(lb, sb)))
                            if isinstance(va, Obj) and va.cls == 'Composition': goals.append(blit(va.f['type'] == 'weight' and vb.f['type'] == 'weight'))
                    cx.ob("%s.path%d.same-prefix-and-step" % (tag, si), hy, band(*goals), function='Pervaporation.' + f,
                          statement="initial feed as mole fraction or as the equivalent mass fraction: identical prefix and identical step recurrence (hence identical trajectories)")
    # non_ideal_diffusion_curve
    cx.under_contract('Pervaporation.non_ideal_diffusion_curve')
    for curves in ('one', 'many'):
        for initial in (False, True):
            pw = [procs.Step(p) for p in procs.run_curve(cx, 'vacuum', 'weight', curves, initial)[2] if p.outcome == 'return' and any(l['kind'] == 'recurrence' for l in p.ex.loops)]
            pm = [procs.Step(p) for p in procs.run_curve(cx, 'vacuum', 'molar', curves, initial)[2] if p.outcome == 'return' and any(l['kind'] == 'recurrence' for l in p.ex.loops)]
            tag = "curve.%s-curve%s" % (curves, '.initial' if initial else '')
            cx.ob(tag + ".paths", [], blit(len(pw) >= 1 and len(pw) == len(pm)), kind='paths', function='Pervaporation.non_ideal_diffusion_curve')
            for si, (a, b) in enumerate(zip(pw, pm)):
                sa = {'x0': Wv}; sb = {'x0': XM}
                hy = [subst(c, sa) for c in a.pc] + [subst(c, sb) for c in b.pc] + [Wv > 0, Wv < 1]
                goals = []
                for name, g in a.lists.items():
                    gb = b.lists[name]
                    for va, vb in zip(list(g.init) + list(g.app), list(gb.init) + list(gb.app)):
                        for la, lb in zip(leaves(va), leaves(vb)): goals.append(eq(subst(la, sa), subst(lb, sb)))
                cx.ob("%s.path%d.same-prefix-and-step" % (tag, si), hy, band(*goals), function='Pervaporation.non_ideal_diffusion_curve',
                      statement="non-ideal curve: molar or mass initial composition give the same points, fluxes and permeances")
    # ------------------------------------------------------------------ curve metrics and measurement extraction: feed points in either basis
    n = var('n', 'I'); j = var('jj', 'I')
    ci = {'__class_invariants__': CP.CLASS_INVARIANTS}
    wj = app('wf', j)
    xmj = (wj / M1) / (wj / M1 + (1 - wj) / M2)
    def curve_obj(typ):
        def comp(i):
            wi = app('wf', lift(i))
            p = wi if typ == 'weight' else (wi / M1) / (wi / M1 + (1 - wi) / M2)
            return Obj('Composition', dict(p=p, type=typ), owner='external')
        fc = Seq(n, comp, owner='external', tag=('wf', typ))
        fl = Seq(n, lambda i: (app('J1', lift(i)), app('J2', lift(i))), owner='external', tag=('J',))
        perms = Seq(n, lambda i: (Obj('Permeance', dict(value=app('Pa', lift(i)), units=CF.KG)), Obj('Permeance', dict(value=app('Pb', lift(i)), units=CF.KG))), owner='external', tag=('P',))
        return Obj('DiffusionCurve', dict(mixture=mix, membrane_name='m', feed_temperature=Tt, feed_compositions=fc, partial_fluxes=fl, permeate_temperature=None, permeate_pressure=None,
                                         permeances=perms, comments=None), owner='external', tag=('curve', typ))
    hyp = [n >= 1, j >= 0, j < n, wj > 0, wj < 1, app('Pa', j) >= 0, app('Pb', j) >= 0] + W.mixture_pre()
    def element_values(obj, getter, what):
        ps = cx.explore(getter(obj), contracts=ci, pre=[n >= 1] + W.mixture_pre())
        out = []
        for r in returns(ps):
            v = r.value
            if isinstance(v, Obj) and 'data' in v.f: v = v.f['data']
            from ..symex import Post as _Post
            if not isinstance(v, (Seq, _Post)): raise Unsupported("%s is not built element-wise" % what)
            for q in returns(explore_thunk(r.ex, lambda: r.ex.index(v, j), list(r.pc) + hyp)): out.append(q)       # comprehension (Seq) or append loop (Post)
        return out
    for attr, fnm in (('get_separation_factor', 'DiffusionCurve.get_separation_factor'), ('get_psi', 'DiffusionCurve.get_psi')):
        cx.under_contract(fnm)
        ew = element_values(curve_obj('weight'), lambda o: (lambda ex: ex.getattr(o, attr)), fnm)
        em = element_values(curve_obj('molar'), lambda o: (lambda ex: ex.getattr(o, attr)), fnm)
        cx.ob("metric.%s.paths" % attr, [], blit(len(ew) >= 1 and len(em) >= 1), kind='paths', function=fnm)
        for i, (a, b) in enumerate(zip(ew, em)):
            cx.ob("metric.%s.basis.%d" % (attr, i), a.pc + b.pc, eq(a.value, b.value), function=fnm, statement="curve metric is the same for molar and mass feed points")
    for which, fnm in (('first', 'Measurements.from_diffusion_curve_first'), ('second', 'Measurements.from_diffusion_curve_second')):
        cx.under_contract(fnm)
        f = src.find(fnm)
        ew = element_values(curve_obj('weight'), lambda o: (lambda ex: ex.call_function(f, [o], {}, cls='Measurements', inline=True)), fnm)
        em = element_values(curve_obj('molar'), lambda o: (lambda ex: ex.call_function(f, [o], {}, cls='Measurements', inline=True)), fnm)
        cx.ob("measurements.%s.paths" % which, [], blit(len(ew) >= 1 and len(em) >= 1), kind='paths', function=fnm)
        P = app('Pa', j) if which == 'first' else app('Pb', j)
        for i, (a, b) in enumerate(zip(ew, em)):
            ma, mb = a.value, b.value
            cx.ob("measurements.%s.basis.%d" % (which, i), a.pc + b.pc, band(eq(ma.f['x'], mb.f['x']), eq(ma.f['t'], mb.f['t']), eq(ma.f['p'], mb.f['p'])), function=fnm,
                  statement="measurement points extracted for fitting are identical for molar and mass curve compositions")
            cx.ob("measurements.%s.point.%d" % (which, i), a.pc, band(eq(ma.f['x'], wj), eq(ma.f['t'], Tt), eq(ma.f['p'], P)), function=fnm,
                  statement="measurement point = (mass fraction of the feed point, curve temperature, permeance of the component)")
    # ------------------------------------------------------------------ curves whose points are given in DIFFERENT bases (point by point): two concrete points
    def mixed_curve(types):
        ws = [var('wm0'), var('wm1')]
        fc = PList([Obj('Composition', dict(p=(w if t_ == 'weight' else (w / M1) / (w / M1 + (1 - w) / M2)), type=t_), owner='external') for w, t_ in zip(ws, types)], owner='external')
        fl = PList([(var('Jm1_%d' % i), var('Jm2_%d' % i)) for i in range(2)], owner='external')
        perms = PList([(Obj('Permeance', dict(value=var('Pma%d' % i), units=CF.KG)), Obj('Permeance', dict(value=var('Pmb%d' % i), units=CF.KG))) for i in range(2)], owner='external')
        return Obj('DiffusionCurve', dict(mixture=mix, membrane_name='m', feed_temperature=Tt, feed_compositions=fc, partial_fluxes=fl, permeate_temperature=None, permeate_pressure=None,
                                         permeances=perms, comments=None), owner='external', tag=('curve', types))
    hypm = [var('wm0') > 0, var('wm0') < 1, var('wm1') > 0, var('wm1') < 1, var('Pma0') >= 0, var('Pma1') >= 0, var('Pmb0') >= 0, var('Pmb1') >= 0] + W.mixture_pre()
    getters = [('metric.' + a_, (lambda a_: (lambda o: (lambda ex: ex.getattr(o, a_))))(a_), 'DiffusionCurve.' + a_) for a_ in ('get_separation_factor', 'get_psi')]
    for which in ('first', 'second'):
        f_ = src.find('Measurements.from_diffusion_curve_' + which)
        getters.append(('measurements.' + which, (lambda f_: (lambda o: (lambda ex: ex.call_function(f_, [o], {}, cls='Measurements', inline=True))))(f_), 'Measurements.from_diffusion_curve_' + which))
    for label, getter, fnm in getters:
        ref = returns(cx.explore(getter(mixed_curve(('weight', 'weight'))), contracts=ci, pre=hypm))
        for types in (('weight', 'molar'), ('molar', 'weight')):
            got = returns(cx.explore(getter(mixed_curve(types)), contracts=ci, pre=hypm))
            t = "%s.mixed-basis.%s-%s" % (label, types[0], types[1])
            cx.ob(t + ".paths", [], blit(len(ref) >= 1 and len(got) >= 1), kind='paths', function=fnm)
            for i, (a, b) in enumerate(zip(ref, got)):
                la, lb = leaves(a.value), leaves(b.value)
                cx.ob("%s.%d" % (t, i), a.pc + b.pc, band(blit(len(la) == len(lb) and len(la) >= 2), *[eq(x_, y_) for x_, y_ in zip(la, lb)]), function=fnm,
                      statement="a curve whose points are given partly in mass and partly in mole fractions gives the same %s as the all-mass curve" % label)
    set_level_measurements(cx, mix, Tt)
    cx.assume_note("fitted coefficients are compared only through their inputs (identical measurement points / identical find_best_fit application), as in the statement")
    cx.assume_note("solver and helper lemmas use get_partial_pressures / calculate_partial_fluxes by contract with their basis lemmas applied by rewriting")
    from . import procs as _procs
    _procs.frame_probe(cx)
    cx.no_hidden_state(function=None)



def leaves(v, out=None):
    if out is None: out = []
    if isinstance(v, T): out.append(v)
    elif isinstance(v, (int, float)) and not isinstance(v, bool): out.append(lift(v))
    elif isinstance(v, Obj):
        for x in v.f.values(): leaves(x, out)
    elif isinstance(v, (tuple, list)):
        for x in v: leaves(x, out)
    elif isinstance(v, PList):
        for x in v.items: leaves(x, out)
    return out


def replay_case(r):
    nm = r['name']
    return dict(name=nm, mode='temperature' if 'temperature' in nm else 'pressure' if 'pressure' in nm else 'vacuum', env=dict(r.get('model') or {}))


def set_level_measurements(cx, mix, Tt):
    """Measurements.from_diffusion_curves_first/second on curve sets of 1..3 curves (each of symbolic length): the result is the
    concatenation, curve by curve, of the per-curve measurement points (bounded in the number of curves, labelled)"""
    src = cx.src
    from ..contracts import flux as CF
    ci = {'__class_invariants__': CP.CLASS_INVARIANTS}
    maxk = 2 if cx.tier == 'quick' else 3
    for which in ('first', 'second'):
        fnm = 'Measurements.from_diffusion_curves_' + which
        cx.under_contract(fnm)
        f = src.find(fnm)
        for k in range(1, maxk + 1):
            curves = []
            for c in range(k):
                nc = var('n%d' % c, 'I')
                fc = Seq(nc, lambda i, c=c: Obj('Composition', dict(p=app('w%d' % c, lift(i)), type='weight'), owner='external'), owner='external', tag=('w', c))
                perms = Seq(nc, lambda i, c=c: (Obj('Permeance', dict(value=app('Pa%d' % c, lift(i)), units=CF.KG)), Obj('Permeance', dict(value=app('Pb%d' % c, lift(i)), units=CF.KG))), owner='external', tag=('P', c))
                curves.append(Obj('DiffusionCurve', dict(mixture=mix, membrane_name='m', feed_temperature=var('Tc%d' % c), feed_compositions=fc, partial_fluxes=None, permeate_temperature=None, permeate_pressure=None,
                                                        permeances=perms, comments=None), owner='external', tag=('curve', c)))
            dset = Obj('DiffusionCurveSet', dict(name='set', diffusion_curves=PList(curves, owner='external')), owner='external', tag=('dcs', k))
            pre = [var('n%d' % c, 'I') >= 1 for c in range(k)] + W.mixture_pre()
            ps = cx.explore(lambda ex: ex.call_function(f, [dset], {}, cls='Measurements', inline=True), contracts=ci, pre=pre)
            rs = returns(ps)
            cx.ob("measurements-set.%s.%d-curves.paths" % (which, k), [], blit(len(rs) >= 1 and all(not p.ex.ext_writes for p in ps)), kind='paths', function=fnm)
            j = var('jj', 'I')
            for ri, r in enumerate(rs):
                data = r.value.f['data']
                total = lift(0)
                for c in range(k): total = total + var('n%d' % c, 'I')
                cx.ob("measurements-set.%s.%d-curves.%d.length" % (which, k, ri), r.pc, eq(need_seq(data, 'measurement list').n, total), function=fnm,
                      statement="the set-level measurements contain every point of every curve")
                off = lift(0)
                for c in range(k):
                    nc = var('n%d' % c, 'I')
                    for q in returns(explore_thunk(r.ex, lambda: r.ex.seq_get(data, off + j), list(r.pc) + [j >= 0, j < nc, app('w%d' % c, j) >= 0, app('w%d' % c, j) <= 1, app('Pa%d' % c, j) >= 0, app('Pb%d' % c, j) >= 0])):
                        m = q.value
                        P = app(('Pa%d' if which == 'first' else 'Pb%d') % c, j)
                        cx.ob("measurements-set.%s.%d-curves.%d.curve%d-points" % (which, k, ri, c), q.pc, band(eq(m.f['x'], app('w%d' % c, j)), eq(m.f['t'], var('Tc%d' % c)), eq(m.f['p'], P)), function=fnm,
                              statement="points of curve c appear in order at offset n_0+...+n_(c-1): (mass fraction, curve temperature, permeance of the component)")
                    off = off + nc
    cx.bounded.append(dict(function='Measurements.from_diffusion_curves_first/second', bound="curve sets of 1..%d curves (each curve of arbitrary symbolic length)" % maxk,
                           reason="accumulation loop over the curves of a set: unrolled per set size"))
