"""C17 - saved curves, functions, conditions and process models load back unchanged  (BOUNDED, level `other`; DESIGN 3, C17)

Float formatting in pandas, pickling in joblib and JSON encoding decide this property and are outside any contract pvc can
verify.  What is checked: (1) bounded: run-time round-trip contracts on the REAL save/load functions over an enumerated corpus
(native, pvc/native/c17.py); (2) deductive (AST-level frame argument): every file a ProcessModel.save writes lies below the
directory returned by _generate_process_path, which is created with mkdir(exist_ok=False)."""
import ast
from .common import *

ID = "C17"
MIN_OBLIGATIONS = 4
LEVEL = 'other'


def obligations(cx):
    src = cx.src
    gp = cx.under_contract('ProcessModel._generate_process_path', how="AST-level frame argument")
    sv = cx.under_contract('ProcessModel.save', how="AST-level frame argument")
    # _generate_process_path returns a path it has just created with exist_ok=False
    mk = [n for n in ast.walk(gp) if isinstance(n, ast.Call) and isinstance(n.func, ast.Attribute) and n.func.attr == 'mkdir']
    rets = [n for n in ast.walk(gp) if isinstance(n, ast.Return)]
    ok = False
    if len(rets) == 1 and isinstance(rets[0].value, ast.Name):
        rn = rets[0].value.id
        for c in mk:
            if isinstance(c.func.value, ast.Name) and c.func.value.id == rn:
                kws = {k.arg: k.value for k in c.keywords}
                if isinstance(kws.get('exist_ok'), ast.Constant) and kws['exist_ok'].value is False: ok = True
        assigns = [n for n in ast.walk(gp) if isinstance(n, ast.Assign) and any(isinstance(t, ast.Name) and t.id == rn for t in n.targets)]
        ok = ok and len(assigns) == 1
    cx.ob("process-path.created-exclusively", [], blit(ok), kind='scan', function='ProcessModel._generate_process_path',
          statement="the returned process directory is created by mkdir(exist_ok=False) (assumed pathlib contract: raises if it exists), so it never is a previously saved directory")
    # save(): every write goes below that directory
    pp = [n for n in ast.walk(sv) if isinstance(n, ast.Assign) and isinstance(n.value, ast.Call) and '_generate_process_path' in ast.unparse(n.value.func)]
    okp = len(pp) == 1 and isinstance(pp[0].targets[0], ast.Name)
    pname = pp[0].targets[0].id if okp else None
    writes = []
    for n in ast.walk(sv):
        if isinstance(n, ast.Call) and isinstance(n.func, ast.Attribute) and n.func.attr in ('to_csv', 'save', 'safe_save', 'dump', 'to_json', 'to_pickle', 'write_text', 'write_bytes', 'mkdir', 'open'):
            writes.append(n)
        if isinstance(n, ast.Call) and isinstance(n.func, ast.Name) and n.func.id == 'open': writes.append(n)
    bad = []
    for w in writes:
        if w.func.attr == 'mkdir' if isinstance(w.func, ast.Attribute) else False:
            kws = {k.arg: k.value for k in w.keywords}
            continue          # directories: results/ (exist_ok=True, no file content) and the exclusive process directory
        args = list(w.args) + [k.value for k in w.keywords]
        target = args[-1] if w.func.attr == 'dump' else (args[0] if args else None)
        txt = ast.unparse(target) if target is not None else ''
        if not (pname and txt.replace('(', '').strip().startswith(pname + ' /')): bad.append(ast.unparse(w)[:100])
    cx.ob("save.writes-only-below-the-new-directory", [], blit(okp and len(writes) >= 5 and not bad), kind='scan', function='ProcessModel.save', found=str(bad),
          statement="every file written by ProcessModel.save is `process_path / <name>` with process_path the freshly created directory")
    reassigned = [n for n in ast.walk(sv) if isinstance(n, (ast.Assign, ast.AugAssign)) and any(isinstance(t, ast.Name) and t.id == pname for t in (n.targets if isinstance(n, ast.Assign) else [n.target]))]
    cx.ob("save.process-path-assigned-once", [], blit(len(reassigned) == 1), kind='scan', function='ProcessModel.save')
    cx.ob("lemma.save-never-writes-into-an-existing-process-directory", [], TRUE, kind='lemma',
          statement="from the two scans and the pathlib contract: a save cannot write into or alter a previously saved process directory")
    cx.assume_note("pathlib.Path.mkdir(exist_ok=False) raises FileExistsError if the directory exists (assumed)")
    cx.assume_note("pandas.to_csv/read_csv, joblib.dump/load and json are outside the contracts: the round trip itself is only checked on the bounded native corpus")


def native_checks(cx, results):
    from ..nativeio import native
    n = 10 if cx.tier == 'quick' else 200
    cases = native(dict(cmd='corpus', prop='C17', seed=getattr(cx, 'seed', 0), n=n))
    out = native(dict(cmd='check', prop='C17', cases=cases), timeout=3000)
    viol = []; errs = []
    nontrivial = 0
    for c, fails in zip(cases, out):
        if any(str(f).startswith('CHECKER-EXCEPTION') for f in fails): errs.append(dict(name='round-trip', detail=str(fails[0])[:600])); continue
        nontrivial += 1
        if fails and not viol:
            viol.append(dict(name="round-trip.%s" % c.get('kind'), prop='C17', status='refuted', native_case=c, native_failures=fails, detail="save/load round trip failed on the real code",
                             meta=dict(function='save/load', statement="every persisted field agrees to 1e-9 relative after save and load")))
    cx.bounded.append(dict(function='DiffusionCurve.save/DiffusionCurveSet.load, PervaporationFunction.save/load/safe_save/safe_load, Conditions.safe_save/safe_load, ProcessModel.save/load',
                           bound="%d enumerated objects (curves: 3 permeate modes x molar/mass x value scales 1e-9..1e3; functions and conditions; process models of all 4 kinds, both storage modes, forced name collision)" % len(cases),
                           reason="serialisation libraries are outside the contracts: bounded run-time check, never counted as proved"))
    return dict(violations=viol, errors=errs[:1], coverage=dict(evaluations=len(cases), distinct_nontrivial=nontrivial,
                                                                 rule="one case = one object saved and re-loaded through the real code in a temporary directory; non-trivial = the round trip ran to completion",
                                                                 explanation="bounded run-time round-trip check of the real persistence code over an enumerated corpus + AST-level frame argument that a save only writes below a freshly, exclusively created directory"))


def replay_case(r):
    return None
