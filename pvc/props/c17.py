"""C17 - saved curves, functions, conditions and process models load back unchanged (DESIGN 3, C17; 2.11)

(1) deductive: the REAL save/load functions are executed against the persistence model pvc/iomodel.py (pathlib, open+json, joblib,
pandas by ASSUMED contract); every persisted field of the re-loaded object is proved equal to the stored one for series of
arbitrary length (generic element index jj) and arbitrary values;  (2) frame, on the same model: one save writes into ONE directory
that this call created, and with the generated name forced to collide (clock hash pinned) a second save neither alters nor adds to
the first directory;  (3) bounded,
labelled: native round trips through the real libraries over an enumerated corpus (float formatting, pickling and csv parsing are
outside any contract pvc can verify)."""
import ast
from .common import *
from ..symex import Raised

ID = "C17"
FALLBACK_N = (16, 50)        # native fallback corpus sizes (quick, thorough): these native cases are expensive
MIN_OBLIGATIONS = 400
LEVEL = 'proof'


def same_value(cx, name, pc, a, b, function, what):
    """loaded value b agrees with original a: numbers equal, lists of equal length with equal generic elements, None/str identical"""
    from ..symex import Seq, PList
    if isinstance(a, (Seq, PList)) or isinstance(b, (Seq, PList)):
        la = a.n if isinstance(a, Seq) else len(a.items) if isinstance(a, PList) else None
        lb = b.n if isinstance(b, Seq) else len(b.items) if isinstance(b, PList) else None
        if la is None or lb is None:
            cx.ob(name + ".is-a-list", pc, FALSE, function=function, statement="%s re-loads as a list" % what); return
        cx.ob(name + ".length", pc, eq(lift(la), lift(lb)), function=function, statement="%s re-loads with the same length" % what)
        if isinstance(a, PList) and isinstance(b, PList):
            for i, (x, y) in enumerate(zip(a.items, b.items)): same_value(cx, "%s.%d" % (name, i), pc, x, y, function, what)
            return
        j = var('j.' + name, 'I')
        ga = a.fn(j) if isinstance(a, Seq) else None; gb = b.fn(j) if isinstance(b, Seq) else None
        if ga is None or gb is None:
            cx.ob(name + ".element", pc, FALSE, function=function, statement="%s: list kinds differ" % what); return
        same_value(cx, name + ".element", list(pc) + [j >= 0, j < lift(la)], ga, gb, function, what + " (generic element)")
        return
    if isinstance(a, T) or isinstance(b, T) or (is_num(a) and is_num(b) and not isinstance(a, bool)):
        if not (is_num(a) and is_num(b)):
            cx.ob(name, pc, FALSE, function=function, statement="%s re-loads as a number (%r vs %r)" % (what, a, b)); return
        cx.ob(name, pc, eq(lift(a), lift(b)), function=function, statement="%s re-loads unchanged" % what); return
    cx.ob(name, pc, blit(type(a) is type(b) and a == b), kind='paths', function=function, statement="%s re-loads unchanged (%r vs %r)" % (what, a, b))


def is_num(v): return isinstance(v, T) or (isinstance(v, (int, float)) and not isinstance(v, bool))


def symbolic_round_trips(cx):
    """the REAL save/load functions executed against the persistence model (pvc.iomodel): which field goes to which key/column and
    back.  Library behaviour is assumed (iomodel.ASSUMPTIONS); the data flow of the package's own code is proved for every value."""
    from ..symex import Seq, PList
    from .. import iomodel
    src = cx.src
    for a in iomodel.ASSUMPTIONS: cx.assume_note(a)
    # ------------------------------------------------------------------ PervaporationFunction: binary and JSON
    for q in ('PervaporationFunction.save', 'PervaporationFunction.load', 'PervaporationFunction.safe_save', 'PervaporationFunction.safe_load'): cx.under_contract(q)
    def pf():
        return Obj('PervaporationFunction', dict(n=var('n', 'I'), m=var('m', 'I'), alpha=var('alpha'), a=Seq(var('la', 'I'), lambda i: app('a', lift(i)), tag=('a',)),
                                                 b=Seq(var('lb', 'I'), lambda i: app('b', lift(i)), tag=('b',))), owner='external')
    W.check_layout(src, 'PervaporationFunction', ['n', 'm', 'alpha', 'a', 'b'])
    for mode, sv, ld in (('json', 'safe_save', 'safe_load'), ('binary', 'save', 'load')):
        f0 = pf()
        def run(ex, f0=f0, sv=sv, ld=ld):
            path = Opaque('path')
            ex.call_function(src.find('PervaporationFunction.' + sv), [path], {}, self_obj=f0, inline=True)
            return ex.call_function(src.find('PervaporationFunction.' + ld), [path], {}, cls='PervaporationFunction', inline=True)
        ps = cx.explore(run, pre=[var('la', 'I') >= 0, var('lb', 'I') >= 0])
        fn = 'PervaporationFunction.' + ld
        none_raise(cx, "function.%s.never-raises" % mode, ps, function=fn, statement="saving and re-loading a permeance function does not fail")
        rs = returns(ps)
        cx.ob("function.%s.paths" % mode, [], blit(len(rs) >= 1 and all(isinstance(r.value, Obj) and r.value.cls == 'PervaporationFunction' for r in rs)), kind='paths', function=fn)
        for k, r in enumerate(rs):
            if not (isinstance(r.value, Obj) and r.value.cls == 'PervaporationFunction'): continue
            for fld in ('n', 'm', 'alpha', 'a', 'b'):
                same_value(cx, "function.%s.%d.%s" % (mode, k, fld), r.pc, f0.f[fld], r.value.f.get(fld), fn, "PervaporationFunction.%s" % fld)
            cx.ob("function.%s.%d.fresh" % (mode, k), [], blit(r.value is not f0), kind='frame', function=fn)
            writes = [w for w in r.ex.ext_writes]
            cx.ob("function.%s.%d.original-untouched" % (mode, k), [], blit(not writes), kind='frame', function='PervaporationFunction.' + sv, writes=str(writes)[:200])
    # ------------------------------------------------------------------ Conditions: JSON
    for q in ('Conditions.safe_save', 'Conditions.safe_load'): cx.under_contract(q)
    for ct in ('weight', 'molar'):
        for pt, ppv in ((False, False), (True, False), (False, True)):
            c0 = W.conditions(src, comp_type=ct, perm_T=pt, perm_p=ppv)
            def run(ex, c0=c0):
                path = Opaque('path')
                ex.call_function(src.find('Conditions.safe_save'), [path], {}, self_obj=c0, inline=True)
                return ex.call_function(src.find('Conditions.safe_load'), [path], {}, cls='Conditions', inline=True)
            pre = [var('x0') >= 0, var('x0') <= 1]
            ps = cx.explore(run, pre=pre)
            tag = "conditions.%s.%s" % (ct, 'Tp' if pt else 'pp' if ppv else 'vacuum')
            fn = 'Conditions.safe_load'
            none_raise(cx, tag + ".never-raises", ps, function=fn)
            rs = returns(ps)
            cx.ob(tag + ".paths", [], blit(len(rs) >= 1 and all(isinstance(r.value, Obj) and r.value.cls == 'Conditions' for r in rs)), kind='paths', function=fn)
            for k, r in enumerate(rs):
                if not (isinstance(r.value, Obj) and r.value.cls == 'Conditions'): continue
                for fld in ('membrane_area', 'initial_feed_temperature', 'initial_feed_amount', 'permeate_temperature', 'permeate_pressure'):
                    same_value(cx, "%s.%d.%s" % (tag, k, fld), r.pc, c0.f[fld], r.value.f.get(fld), fn, "Conditions.%s" % fld)
                ic = r.value.f.get('initial_feed_composition')
                okc = isinstance(ic, Obj) and ic.cls == 'Composition'
                cx.ob("%s.%d.composition.is-a-composition" % (tag, k), [], blit(okc), kind='paths', function=fn)
                if okc:
                    same_value(cx, "%s.%d.composition.p" % (tag, k), r.pc, c0.f['initial_feed_composition'].f['p'], ic.f['p'], fn, "initial feed composition value")
                    same_value(cx, "%s.%d.composition.type" % (tag, k), r.pc, c0.f['initial_feed_composition'].f['type'], ic.f['type'], fn, "initial feed composition type")
                cx.ob("%s.%d.original-untouched" % (tag, k), [], blit(not r.ex.ext_writes), kind='frame', function='Conditions.safe_save')


JJ = var('jj', 'I')


def observe(ex, lst, n_expected=None):
    """(length, element at the generic index jj) of a list-like value, read through the executor (so that IndexError / element
    conditions are path outcomes)"""
    from ..symex import Seq, PList, Post, _len
    if isinstance(lst, Obj) and lst.cls == '$Series':
        from .. import iomodel
        return iomodel.model_len(ex, lst), iomodel.series_get(ex, lst, JJ)
    n = _len(ex, lst)
    return n, ex.index(lst, JJ)


def to_weight_spec(p, typ, M1, M2):
    if typ == 'weight': return p
    return (M1 * p) / (M1 * p + M2 * (1 - p))


def curve_round_trips(cx):
    from ..symex import Seq, PList, Fn
    from ..contracts import process as CP
    from .. import iomodel
    src = cx.src
    for q in ('DiffusionCurve.save', 'DiffusionCurve.from_frame', 'DiffusionCurveSet.load'): cx.under_contract(q)
    N = var('N', 'I')
    KG = 'kg/(m2*h*kPa)'
    for ct in ('weight', 'molar'):
        for mode in ('vacuum', 'temperature', 'pressure'):
            tag = "curve.%s.%s" % (ct, mode)
            Tp = var('Tp') if mode == 'temperature' else None; pp = var('pp') if mode == 'pressure' else None
            orig = {}
            def run(ex, ct=ct, Tp=Tp, pp=pp, orig=orig):
                mix = ex.getattr(Fn('class', name='Mixtures'), 'H2O_EtOH')
                fc = Seq(N, lambda i: Obj('Composition', dict(p=app('x', lift(i)), type=ct), owner='external'), owner='external')
                fl = Seq(N, lambda i: (app('J1', lift(i)), app('J2', lift(i))), owner='external')
                pm = Seq(N, lambda i: (Obj('Permeance', dict(value=app('P1', lift(i)), units=KG), owner='external'), Obj('Permeance', dict(value=app('P2', lift(i)), units=KG), owner='external')), owner='external')
                c = W.mk(src, 'DiffusionCurve', mixture=mix, membrane_name='m', feed_temperature=var('T'), feed_compositions=fc, partial_fluxes=fl, permeate_temperature=Tp,
                         permeate_pressure=pp, permeances=pm, comments='c')
                orig.update(curve=c, mix=mix)
                ex.assume(band(JJ >= 0, JJ < N), 'generic element index')
                # class invariants of the stored objects (established by their constructors)
                ex.assume(band(app('x', JJ) >= 0, app('x', JJ) <= 1, app('P1', JJ) >= 0, app('P2', JJ) >= 0, app('x', lift(0)) >= 0, app('x', lift(0)) <= 1), 'class invariants of the curve elements')
                path = iomodel.mkpath((Opaque('dir'), 'curves.csv'))
                ex.call_function(src.find('DiffusionCurve.save'), [path], {}, self_obj=c, inline=True)
                back = ex.call_function(src.find('DiffusionCurveSet.load'), [path], {}, cls='DiffusionCurveSet', inline=True)
                curves = back.f['diffusion_curves']
                n_curves = _plen(ex, curves)
                b0 = ex.index(curves, 0)
                obs = dict(set_name=back.f['name'], n_curves=n_curves, curve=b0)
                for fld in ('feed_compositions', 'partial_fluxes', 'permeances'):
                    obs[fld] = observe(ex, b0.f[fld])
                return obs
            ps = cx.explore(run, contracts={'__class_invariants__': CP.CLASS_INVARIANTS}, pre=[N >= 1])
            fn = 'DiffusionCurveSet.load'
            none_raise(cx, tag + ".never-raises", ps, function=fn, statement="saving a curve and re-loading it as a set does not fail (N >= 1 points)")
            rs = returns(ps)
            cx.ob(tag + ".paths", [], blit(len(rs) >= 1), kind='paths', function=fn)
            c0 = orig.get('curve'); mix = orig.get('mix')
            if c0 is None: continue
            M1 = mix.f['first_component'].f['molecular_weight']; M2 = mix.f['second_component'].f['molecular_weight']
            for k, r in enumerate(rs):
                o = r.value; b0 = o['curve']; t = "%s.%d" % (tag, k)
                cx.ob(t + ".one-curve", [], blit(o['n_curves'] == 1 and isinstance(b0, Obj) and b0.cls == 'DiffusionCurve'), kind='paths', function=fn)
                if not (isinstance(b0, Obj) and b0.cls == 'DiffusionCurve'): continue
                cx.ob(t + ".mixture", [], blit(b0.f['mixture'] is mix), kind='paths', function='DiffusionCurve.from_frame', statement="the re-loaded curve refers to the same built-in mixture")
                for fld in ('membrane_name', 'feed_temperature', 'permeate_temperature', 'permeate_pressure'):
                    same_value(cx, "%s.%s" % (t, fld), r.pc, c0.f[fld], b0.f[fld], 'DiffusionCurve.from_frame', "DiffusionCurve.%s" % fld)
                # compositions: same length, re-loaded as mass fractions of the physically identical composition
                n, el = o['feed_compositions']
                cx.ob(t + ".compositions.length", r.pc, eq(lift(n), N), function='DiffusionCurve.from_frame')
                okc = isinstance(el, Obj) and el.cls == 'Composition'
                cx.ob(t + ".compositions.element-type", [], blit(okc and el.f['type'] == 'weight'), kind='paths', function='DiffusionCurve.from_frame', statement="curves re-load as mass fractions")
                if okc and is_num(el.f['p']):
                    cx.ob(t + ".compositions.element", r.pc, eq(lift(el.f['p']), to_weight_spec(app('x', JJ), ct, lift(M1), lift(M2))), function='DiffusionCurve.from_frame',
                          statement="re-loaded composition j is the mass fraction of the stored composition j")
                n, el = o['partial_fluxes']
                cx.ob(t + ".fluxes.length", r.pc, eq(lift(n), N), function='DiffusionCurve.from_frame')
                okf = isinstance(el, tuple) and len(el) == 2 and all(is_num(x) for x in el)
                cx.ob(t + ".fluxes.shape", [], blit(okf), kind='paths', function='DiffusionCurve.from_frame')
                if okf:
                    cx.ob(t + ".fluxes.element", r.pc, band(eq(lift(el[0]), app('J1', JJ)), eq(lift(el[1]), app('J2', JJ))), function='DiffusionCurve.from_frame', statement="both partial fluxes of point j re-load unchanged")
                n, el = o['permeances']
                cx.ob(t + ".permeances.length", r.pc, eq(lift(n), N), function='DiffusionCurve.from_frame')
                okp = isinstance(el, tuple) and len(el) == 2 and all(isinstance(x, Obj) and x.cls == 'Permeance' and is_num(x.f['value']) for x in el)
                cx.ob(t + ".permeances.shape", [], blit(okp), kind='paths', function='DiffusionCurve.from_frame')
                if okp:
                    cx.ob(t + ".permeances.element", r.pc, band(eq(lift(el[0].f['value']), app('P1', JJ)), eq(lift(el[1].f['value']), app('P2', JJ))), function='DiffusionCurve.from_frame',
                          statement="both permeances of point j re-load unchanged")
                    cx.ob(t + ".permeances.units", [], blit(el[0].f['units'] == KG and el[1].f['units'] == KG), kind='paths', function='DiffusionCurve.from_frame', statement="units re-load unchanged")
                cx.ob(t + ".original-untouched", [], blit(not r.ex.ext_writes), kind='frame', function='DiffusionCurve.save', writes=str(r.ex.ext_writes)[:200])
            if rs: cx.cover(tag, rs[0].pc)


def process_round_trips(cx):
    from ..symex import Seq, PList, Fn
    from ..contracts import process as CP
    from .. import iomodel
    src = cx.src
    for q in ('ProcessModel.save', 'ProcessModel.load', 'ProcessModel._generate_process_path'): cx.under_contract(q)
    N = var('N', 'I')
    KG = 'kg/(m2*h*kPa)'
    series = ('feed_temperature', 'feed_mass', 'time', 'feed_evaporation_heat', 'permeate_condensation_heat')
    def pf(t):
        return Obj('PervaporationFunction', dict(n=var('n' + t, 'I'), m=var('m' + t, 'I'), alpha=var('alpha' + t), a=Seq(var('la' + t, 'I'), lambda i: app('a' + t, lift(i)), tag=('a' + t,)),
                                                 b=Seq(var('lb' + t, 'I'), lambda i: app('b' + t, lift(i)), tag=('b' + t,))), owner='external')
    for safe in (False, True):
        for mode in ('vacuum', 'temperature', 'pressure'):
            for fits in (True, False):
                if not fits and mode != 'vacuum': continue
                tag = "process.%s.%s.%s" % ('json' if safe else 'binary', mode, 'fits' if fits else 'nofits')
                Tp = var('Tp') if mode == 'temperature' else None; pp = var('pp') if mode == 'pressure' else None
                orig = {}
                def run(ex, Tp=Tp, pp=pp, orig=orig, safe=safe, fits=fits, mode=mode):
                    mix = ex.getattr(Fn('class', name='Mixtures'), 'H2O_EtOH')
                    comp = lambda nm: Seq(N, lambda i: Obj('Composition', dict(p=app(nm, lift(i)), type='weight'), owner='external'), owner='external')
                    num = lambda nm: Seq(N, lambda i: app(nm, lift(i)), owner='external')
                    cond = W.conditions(src, comp_type='weight', perm_T=mode == 'temperature', perm_p=mode == 'pressure')
                    f0, f1 = pf('0'), pf('1')
                    m = W.mk(src, 'ProcessModel', mixture=mix, membrane_name='m', feed_temperature=num('ft'), feed_compositions=comp('x'), permeate_composition=comp('y'),
                             permeate_temperature=Seq(N, lambda i: Tp, owner='external'), permeate_pressure=Seq(N, lambda i: pp, owner='external'), feed_mass=num('fm'),
                             partial_fluxes=Seq(N, lambda i: (app('J1', lift(i)), app('J2', lift(i))), owner='external'),
                             permeances=Seq(N, lambda i: (Obj('Permeance', dict(value=app('P1', lift(i)), units=KG), owner='external'), Obj('Permeance', dict(value=app('P2', lift(i)), units=KG), owner='external')), owner='external'),
                             time=num('t'), feed_evaporation_heat=num('he'), permeate_condensation_heat=num('hc') if mode != 'vacuum' else Seq(N, lambda i: None, owner='external'),
                             initial_conditions=cond, permeance_fits=(f0, f1) if fits else None, comments='c', membrane_path=None)
                    orig.update(model=m, mix=mix, cond=cond, fits=(f0, f1))
                    ex.assume(band(JJ >= 0, JJ < N), 'generic element index')
                    inv = []
                    for i_ in (JJ, lift(0), var('k', 'I')):
                        inv += [app('x', i_) >= 0, app('x', i_) <= 1, app('y', i_) >= 0, app('y', i_) <= 1, app('P1', i_) >= 0, app('P2', i_) >= 0]
                    inv += [var('x0') >= 0, var('x0') <= 1]
                    ex.assume(band(*inv), 'class invariants of the stored objects')
                    mdir = iomodel.mkpath((Opaque('membrane dir'),))
                    ex.call_function(src.find('ProcessModel.save'), [mdir], dict(is_safe=safe), self_obj=m, inline=True)
                    F = iomodel.fs(ex)
                    csvs = [pth for how, pth in F['writes'] if how == 'csv']
                    if len(csvs) != 1: raise Unsupported("ProcessModel.save wrote %d csv files" % len(csvs))
                    pdir = iomodel.mkpath(csvs[0].f['parts'][:-1])
                    orig['files'] = [(how, pth.f['parts'][-1]) for how, pth in F['writes']]
                    parents = {iomodel.pkey(pth)[:-1] for how, pth in F['writes']}
                    orig['frame'] = dict(parents=len(parents), created=all(q in F['dirs'] for q in parents), below_membrane=all(len(q) >= 2 and q[0] == iomodel.pkey(mdir)[0] for q in parents), files=len(F['writes']))
                    back = ex.call_function(src.find('ProcessModel.load'), [pdir], dict(is_safe=safe), cls='ProcessModel', inline=True)
                    obs = dict(model=back)
                    for fld in series + ('feed_compositions', 'permeate_composition', 'partial_fluxes', 'permeances'):
                        obs[fld] = observe(ex, back.f[fld])
                    return obs
                ps = cx.explore(run, contracts={'__class_invariants__': CP.CLASS_INVARIANTS}, pre=[N >= 1, var('la0', 'I') >= 0, var('lb0', 'I') >= 0, var('la1', 'I') >= 0, var('lb1', 'I') >= 0])
                fn = 'ProcessModel.load'
                none_raise(cx, tag + ".never-raises", ps, function=fn, statement="saving a process model and re-loading its directory does not fail (N >= 1 steps)")
                rs = returns(ps)
                cx.ob(tag + ".paths", [], blit(len(rs) >= 1), kind='paths', function=fn)
                m0 = orig.get('model'); mix = orig.get('mix')
                if m0 is None: continue
                fr = orig.get('frame', {})
                cx.ob(tag + ".save.writes-below-one-directory-it-created", [], blit(fr.get('parents') == 1 and fr.get('created') and fr.get('below_membrane') and fr.get('files', 0) >= 4), kind='frame', function='ProcessModel.save',
                      found=str(fr), statement="every file written by one save lies in ONE directory below the membrane directory, and that directory was created by this call")
                for k, r in enumerate(rs):
                    o = r.value; b0 = o['model']; t = "%s.%d" % (tag, k)
                    ok = isinstance(b0, Obj) and b0.cls == 'ProcessModel'
                    cx.ob(t + ".is-a-process-model", [], blit(ok), kind='paths', function=fn)
                    if not ok: continue
                    cx.ob(t + ".mixture", [], blit(b0.f['mixture'] is mix), kind='paths', function=fn, statement="the re-loaded model refers to the same built-in mixture")
                    same_value(cx, t + ".membrane_name", r.pc, m0.f['membrane_name'], b0.f['membrane_name'], fn, "membrane name")
                    # permeate condition: the scalar that re-loads equals the stored (constant) series
                    same_value(cx, t + ".permeate_temperature", r.pc, Tp, b0.f['permeate_temperature'], fn, "permeate temperature")
                    same_value(cx, t + ".permeate_pressure", r.pc, pp, b0.f['permeate_pressure'], fn, "permeate pressure")
                    for fld, sym in (('feed_temperature', 'ft'), ('feed_mass', 'fm'), ('time', 't'), ('feed_evaporation_heat', 'he'), ('permeate_condensation_heat', 'hc')):
                        n, el = o[fld]
                        cx.ob("%s.%s.length" % (t, fld), r.pc, eq(lift(n), N), function=fn, statement="series %s re-loads with the same length" % fld)
                        if fld == 'permeate_condensation_heat' and mode == 'vacuum':
                            cx.ob("%s.%s.element" % (t, fld), [], blit(el is None or el is iomodel.NAN), kind='paths', function=fn, statement="an absent condensation heat re-loads as absent (None/NaN), not as a number")
                        elif is_num(el):
                            cx.ob("%s.%s.element" % (t, fld), r.pc, eq(lift(el), app(sym, JJ)), function=fn, statement="%s[j] re-loads unchanged" % fld)
                        else:
                            cx.ob("%s.%s.element" % (t, fld), [], FALSE, kind='paths', function=fn, statement="%s[j] re-loads as a number (found %r)" % (fld, el))
                    for fld, sym in (('feed_compositions', 'x'), ('permeate_composition', 'y')):
                        n, el = o[fld]
                        cx.ob("%s.%s.length" % (t, fld), r.pc, eq(lift(n), N), function=fn)
                        okc = isinstance(el, Obj) and el.cls == 'Composition' and is_num(el.f['p'])
                        cx.ob("%s.%s.element-type" % (t, fld), [], blit(okc and el.f['type'] == 'weight'), kind='paths', function=fn)
                        if okc: cx.ob("%s.%s.element" % (t, fld), r.pc, eq(lift(el.f['p']), app(sym, JJ)), function=fn, statement="%s[j] re-loads unchanged" % fld)
                    n, el = o['partial_fluxes']
                    cx.ob(t + ".fluxes.length", r.pc, eq(lift(n), N), function=fn)
                    okf = isinstance(el, tuple) and len(el) == 2 and all(is_num(x) for x in el)
                    cx.ob(t + ".fluxes.shape", [], blit(okf), kind='paths', function=fn)
                    if okf: cx.ob(t + ".fluxes.element", r.pc, band(eq(lift(el[0]), app('J1', JJ)), eq(lift(el[1]), app('J2', JJ))), function=fn, statement="both partial fluxes of step j re-load unchanged")
                    n, el = o['permeances']
                    cx.ob(t + ".permeances.length", r.pc, eq(lift(n), N), function=fn)
                    okp = isinstance(el, tuple) and len(el) == 2 and all(isinstance(x, Obj) and x.cls == 'Permeance' and is_num(x.f['value']) for x in el)
                    cx.ob(t + ".permeances.shape", [], blit(okp), kind='paths', function=fn)
                    if okp:
                        cx.ob(t + ".permeances.element", r.pc, band(eq(lift(el[0].f['value']), app('P1', JJ)), eq(lift(el[1].f['value']), app('P2', JJ))), function=fn, statement="both permeances of step j re-load unchanged")
                        cx.ob(t + ".permeances.units", [], blit(el[0].f['units'] == KG and el[1].f['units'] == KG), kind='paths', function=fn)
                    # side files
                    ic = b0.f['initial_conditions']; c0 = orig['cond']
                    okic = isinstance(ic, Obj) and ic.cls == 'Conditions'
                    cx.ob(t + ".initial-conditions.present", [], blit(okic), kind='paths', function=fn)
                    if okic:
                        for fld in ('membrane_area', 'initial_feed_temperature', 'initial_feed_amount', 'permeate_temperature', 'permeate_pressure'):
                            same_value(cx, "%s.initial-conditions.%s" % (t, fld), r.pc, c0.f[fld], ic.f.get(fld), fn, "initial conditions: %s" % fld)
                        icc = ic.f.get('initial_feed_composition')
                        if isinstance(icc, Obj):
                            same_value(cx, t + ".initial-conditions.composition.p", r.pc, c0.f['initial_feed_composition'].f['p'], icc.f['p'], fn, "initial feed composition")
                            same_value(cx, t + ".initial-conditions.composition.type", r.pc, c0.f['initial_feed_composition'].f['type'], icc.f['type'], fn, "initial feed composition type")
                    pfs = b0.f['permeance_fits']
                    okpf = isinstance(pfs, tuple) and len(pfs) == 2 and all(isinstance(x, Obj) and x.cls == 'PervaporationFunction' for x in pfs)
                    cx.ob(t + ".permeance-fits.present", [], blit(okpf), kind='paths', function=fn)
                    if okpf and fits:
                        for i_, (f_o, f_b) in enumerate(zip(orig['fits'], pfs)):
                            for fld in ('n', 'm', 'alpha', 'a', 'b'):
                                same_value(cx, "%s.permeance-fits.%d.%s" % (t, i_, fld), r.pc, f_o.f[fld], f_b.f.get(fld), fn, "permeance fit %d: %s" % (i_, fld))
                if rs: cx.cover(tag, rs[0].pc)


def collision_obligations(cx):
    """forced directory-name collision: with the clock hash pinned to one value, a second save (of a different model) into the same
    membrane directory must not write into, or alter, the directory of the first save"""
    from ..symex import Seq, Fn
    from ..contracts import process as CP
    from .. import iomodel
    src = cx.src
    N = var('N', 'I'); KG = 'kg/(m2*h*kPa)'
    def model(ex, sfx, mix):
        comp = lambda nm: Seq(N, lambda i: Obj('Composition', dict(p=app(nm + sfx, lift(i)), type='weight'), owner='external'), owner='external')
        num = lambda nm: Seq(N, lambda i: app(nm + sfx, lift(i)), owner='external')
        return W.mk(src, 'ProcessModel', mixture=mix, membrane_name='m', feed_temperature=num('ft'), feed_compositions=comp('x'), permeate_composition=comp('y'),
                    permeate_temperature=Seq(N, lambda i: None, owner='external'), permeate_pressure=Seq(N, lambda i: None, owner='external'), feed_mass=num('fm'),
                    partial_fluxes=Seq(N, lambda i: (app('J1' + sfx, lift(i)), app('J2' + sfx, lift(i))), owner='external'),
                    permeances=Seq(N, lambda i: (Obj('Permeance', dict(value=app('P1' + sfx, lift(i)), units=KG), owner='external'), Obj('Permeance', dict(value=app('P2' + sfx, lift(i)), units=KG), owner='external')), owner='external'),
                    time=num('t'), feed_evaporation_heat=num('he'), permeate_condensation_heat=Seq(N, lambda i: None, owner='external'),
                    initial_conditions=W.conditions(src), permeance_fits=None, comments='c', membrane_path=None)
    for safe in (False, True):
        tag = "collision.%s" % ('json' if safe else 'binary')
        def run(ex, safe=safe):
            mix = ex.getattr(Fn('class', name='Mixtures'), 'H2O_EtOH')
            mdir = iomodel.mkpath((Opaque('membrane dir'),))
            ex.call_function(src.find('ProcessModel.save'), [mdir], dict(is_safe=safe), self_obj=model(ex, 'A', mix), inline=True)
            F = iomodel.fs(ex)
            before = dict(F['files']); nwrites = len(F['writes'])
            try:
                ex.call_function(src.find('ProcessModel.save'), [mdir], dict(is_safe=safe), self_obj=model(ex, 'B', mix), inline=True)
                second = 'returned'
            except Raised as r:
                second = r.exc
            after = dict(F['files'])
            changed = [k for k in before if after.get(k) is not before[k]]
            dirs_first = {k[:-1] for k in before}
            intruders = [k for k in after if k not in before and k[:-1] in dirs_first]
            return dict(second=second, changed=len(changed), files_first=len(before), intruders=len(intruders), writes_second=len(F['writes']) - nwrites)
        ps = cx.explore(run, contracts={'__class_invariants__': CP.CLASS_INVARIANTS, '__fixed_clock__': 1234567}, pre=[N >= 1])
        rs = returns(ps)
        fn = 'ProcessModel.save'
        cx.ob(tag + ".paths", [], blit(len(rs) >= 1 and all(r.value['files_first'] >= 4 for r in rs)), kind='paths', function=fn, found=str([r.value for r in rs])[:300])
        cx.ob(tag + ".first-directory-unaltered", [], blit(all(r.value['changed'] == 0 for r in rs)), kind='frame', function=fn, found=str([r.value for r in rs])[:300],
              statement="with the generated directory name forced to collide, the second save leaves every file of the first save as it was")
        cx.ob(tag + ".nothing-added-to-the-first-directory", [], blit(all(r.value['intruders'] == 0 for r in rs)), kind='frame', function=fn, found=str([r.value for r in rs])[:300],
              statement="with the generated directory name forced to collide, the second save creates no file below the directory of the first save")


def _plen(ex, v):
    from ..symex import _len
    return _len(ex, v)


def obligations(cx):
    src = cx.src
    symbolic_round_trips(cx)
    curve_round_trips(cx)
    process_round_trips(cx)
    collision_obligations(cx)
    cx.assume_note("pathlib.Path.mkdir(exist_ok=False) raises FileExistsError if the directory exists (assumed)")
    cx.assume_note("the real text/binary formats of pandas.to_csv/read_csv, joblib.dump/load and json are outside the contracts: the 1e-9 agreement through them is only checked on the bounded native corpus")


def native_checks(cx, results):
    from ..nativeio import native
    n = 10 if cx.tier == 'quick' else 200
    cases = native(dict(cmd='corpus', prop='C17', seed=getattr(cx, 'seed', 0), n=n))
    out = native(dict(cmd='check', prop='C17', cases=cases), timeout=3000)
    viol = []; errs = []
    nontrivial = 0
    for c, fails in zip(cases, out):
        if any(str(f).startswith('CHECKER-EXCEPTION') for f in fails): errs.append(dict(name='round-trip', detail=str(fails[0])[:600])); continue
        nontrivial += 1
        if fails and not viol:
            viol.append(dict(name="round-trip.%s" % c.get('kind'), prop='C17', status='refuted', native_case=c, native_failures=fails, detail="save/load round trip failed on the real code",
                             meta=dict(function='save/load', statement="every persisted field agrees to 1e-9 relative after save and load")))
    cx.bounded.append(dict(function='DiffusionCurve.save/DiffusionCurveSet.load, PervaporationFunction.save/load/safe_save/safe_load, Conditions.safe_save/safe_load, ProcessModel.save/load',
                           bound="%d enumerated objects (curves: 3 permeate modes x molar/mass x value scales 1e-9..1e3; functions and conditions; process models of all 4 kinds, both storage modes, forced name collision)" % len(cases),
                           reason="serialisation libraries are outside the contracts: bounded run-time check, never counted as proved"))
    return dict(violations=viol, errors=errs[:1], coverage=dict(evaluations=len(cases), distinct_nontrivial=nontrivial,
                                                                 rule="one case = one object saved and re-loaded through the real code in a temporary directory; non-trivial = the round trip ran to completion",
                                                                 explanation="bounded run-time round-trip check of the real persistence code over an enumerated corpus + AST-level frame argument that a save only writes below a freshly, exclusively created directory"))


def replay_case(r):
    return None
