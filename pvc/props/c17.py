"""C17 - saved curves, functions, conditions and process models load back unchanged  (BOUNDED, level `other`; DESIGN 3, C17)

Float formatting in pandas, pickling in joblib and JSON encoding decide this property and are outside any contract pvc can
verify.  What is checked: (1) bounded: run-time round-trip contracts on the REAL save/load functions over an enumerated corpus
(native, pvc/native/c17.py); (2) deductive (AST-level frame argument): every file a ProcessModel.save writes lies below the
directory returned by _generate_process_path, which is created with mkdir(exist_ok=False)."""
import ast
from .common import *

ID = "C17"
MIN_OBLIGATIONS = 4
LEVEL = 'other'


def same_value(cx, name, pc, a, b, function, what):
    """loaded value b agrees with original a: numbers equal, lists of equal length with equal generic elements, None/str identical"""
    from ..symex import Seq, PList
    if isinstance(a, (Seq, PList)) or isinstance(b, (Seq, PList)):
        la = a.n if isinstance(a, Seq) else len(a.items) if isinstance(a, PList) else None
        lb = b.n if isinstance(b, Seq) else len(b.items) if isinstance(b, PList) else None
        if la is None or lb is None:
            cx.ob(name + ".is-a-list", pc, FALSE, function=function, statement="%s re-loads as a list" % what); return
        cx.ob(name + ".length", pc, eq(lift(la), lift(lb)), function=function, statement="%s re-loads with the same length" % what)
        if isinstance(a, PList) and isinstance(b, PList):
            for i, (x, y) in enumerate(zip(a.items, b.items)): same_value(cx, "%s.%d" % (name, i), pc, x, y, function, what)
            return
        j = var('j.' + name, 'I')
        ga = a.fn(j) if isinstance(a, Seq) else None; gb = b.fn(j) if isinstance(b, Seq) else None
        if ga is None or gb is None:
            cx.ob(name + ".element", pc, FALSE, function=function, statement="%s: list kinds differ" % what); return
        same_value(cx, name + ".element", list(pc) + [j >= 0, j < lift(la)], ga, gb, function, what + " (generic element)")
        return
    if isinstance(a, T) or isinstance(b, T) or (is_num(a) and is_num(b) and not isinstance(a, bool)):
        if not (is_num(a) and is_num(b)):
            cx.ob(name, pc, FALSE, function=function, statement="%s re-loads as a number (%r vs %r)" % (what, a, b)); return
        cx.ob(name, pc, eq(lift(a), lift(b)), function=function, statement="%s re-loads unchanged" % what); return
    cx.ob(name, pc, blit(type(a) is type(b) and a == b), kind='paths', function=function, statement="%s re-loads unchanged (%r vs %r)" % (what, a, b))


def is_num(v): return isinstance(v, T) or (isinstance(v, (int, float)) and not isinstance(v, bool))


def symbolic_round_trips(cx):
    """the REAL save/load functions executed against the persistence model (pvc.iomodel): which field goes to which key/column and
    back.  Library behaviour is assumed (iomodel.ASSUMPTIONS); the data flow of the package's own code is proved for every value."""
    from ..symex import Seq, PList
    from .. import iomodel
    src = cx.src
    for a in iomodel.ASSUMPTIONS: cx.assume_note(a)
    # ------------------------------------------------------------------ PervaporationFunction: binary and JSON
    for q in ('PervaporationFunction.save', 'PervaporationFunction.load', 'PervaporationFunction.safe_save', 'PervaporationFunction.safe_load'): cx.under_contract(q)
    def pf():
        return Obj('PervaporationFunction', dict(n=var('n', 'I'), m=var('m', 'I'), alpha=var('alpha'), a=Seq(var('la', 'I'), lambda i: app('a', lift(i)), tag=('a',)),
                                                 b=Seq(var('lb', 'I'), lambda i: app('b', lift(i)), tag=('b',))), owner='external')
    W.check_layout(src, 'PervaporationFunction', ['n', 'm', 'alpha', 'a', 'b'])
    for mode, sv, ld in (('json', 'safe_save', 'safe_load'), ('binary', 'save', 'load')):
        f0 = pf()
        def run(ex, f0=f0, sv=sv, ld=ld):
            path = Opaque('path')
            ex.call_function(src.find('PervaporationFunction.' + sv), [path], {}, self_obj=f0, inline=True)
            return ex.call_function(src.find('PervaporationFunction.' + ld), [path], {}, cls='PervaporationFunction', inline=True)
        ps = cx.explore(run, pre=[var('la', 'I') >= 0, var('lb', 'I') >= 0])
        fn = 'PervaporationFunction.' + ld
        none_raise(cx, "function.%s.never-raises" % mode, ps, function=fn, statement="saving and re-loading a permeance function does not fail")
        rs = returns(ps)
        cx.ob("function.%s.paths" % mode, [], blit(len(rs) >= 1 and all(isinstance(r.value, Obj) and r.value.cls == 'PervaporationFunction' for r in rs)), kind='paths', function=fn)
        for k, r in enumerate(rs):
            if not (isinstance(r.value, Obj) and r.value.cls == 'PervaporationFunction'): continue
            for fld in ('n', 'm', 'alpha', 'a', 'b'):
                same_value(cx, "function.%s.%d.%s" % (mode, k, fld), r.pc, f0.f[fld], r.value.f.get(fld), fn, "PervaporationFunction.%s" % fld)
            cx.ob("function.%s.%d.fresh" % (mode, k), [], blit(r.value is not f0), kind='frame', function=fn)
            writes = [w for w in r.ex.ext_writes]
            cx.ob("function.%s.%d.original-untouched" % (mode, k), [], blit(not writes), kind='frame', function='PervaporationFunction.' + sv, writes=str(writes)[:200])
    # ------------------------------------------------------------------ Conditions: JSON
    for q in ('Conditions.safe_save', 'Conditions.safe_load'): cx.under_contract(q)
    for ct in ('weight', 'molar'):
        for pt, ppv in ((False, False), (True, False), (False, True)):
            c0 = W.conditions(src, comp_type=ct, perm_T=pt, perm_p=ppv)
            def run(ex, c0=c0):
                path = Opaque('path')
                ex.call_function(src.find('Conditions.safe_save'), [path], {}, self_obj=c0, inline=True)
                return ex.call_function(src.find('Conditions.safe_load'), [path], {}, cls='Conditions', inline=True)
            pre = [var('x0') >= 0, var('x0') <= 1]
            ps = cx.explore(run, pre=pre)
            tag = "conditions.%s.%s" % (ct, 'Tp' if pt else 'pp' if ppv else 'vacuum')
            fn = 'Conditions.safe_load'
            none_raise(cx, tag + ".never-raises", ps, function=fn)
            rs = returns(ps)
            cx.ob(tag + ".paths", [], blit(len(rs) >= 1 and all(isinstance(r.value, Obj) and r.value.cls == 'Conditions' for r in rs)), kind='paths', function=fn)
            for k, r in enumerate(rs):
                if not (isinstance(r.value, Obj) and r.value.cls == 'Conditions'): continue
                for fld in ('membrane_area', 'initial_feed_temperature', 'initial_feed_amount', 'permeate_temperature', 'permeate_pressure'):
                    same_value(cx, "%s.%d.%s" % (tag, k, fld), r.pc, c0.f[fld], r.value.f.get(fld), fn, "Conditions.%s" % fld)
                ic = r.value.f.get('initial_feed_composition')
                okc = isinstance(ic, Obj) and ic.cls == 'Composition'
                cx.ob("%s.%d.composition.is-a-composition" % (tag, k), [], blit(okc), kind='paths', function=fn)
                if okc:
                    same_value(cx, "%s.%d.composition.p" % (tag, k), r.pc, c0.f['initial_feed_composition'].f['p'], ic.f['p'], fn, "initial feed composition value")
                    same_value(cx, "%s.%d.composition.type" % (tag, k), r.pc, c0.f['initial_feed_composition'].f['type'], ic.f['type'], fn, "initial feed composition type")
                cx.ob("%s.%d.original-untouched" % (tag, k), [], blit(not r.ex.ext_writes), kind='frame', function='Conditions.safe_save')


JJ = var('jj', 'I')


def observe(ex, lst, n_expected=None):
    """(length, element at the generic index jj) of a list-like value, read through the executor (so that IndexError / element
    conditions are path outcomes)"""
    from ..symex import Seq, PList, Post, _len
    if isinstance(lst, Obj) and lst.cls == '$Series':
        from .. import iomodel
        return iomodel.model_len(ex, lst), iomodel.series_get(ex, lst, JJ)
    n = _len(ex, lst)
    return n, ex.index(lst, JJ)


def to_weight_spec(p, typ, M1, M2):
    if typ == 'weight': return p
    return (M1 * p) / (M1 * p + M2 * (1 - p))


def curve_round_trips(cx):
    from ..symex import Seq, PList, Fn
    from ..contracts import process as CP
    from .. import iomodel
    src = cx.src
    for q in ('DiffusionCurve.save', 'DiffusionCurve.from_frame', 'DiffusionCurveSet.load'): cx.under_contract(q)
    N = var('N', 'I')
    KG = 'kg/(m2*h*kPa)'
    for ct in ('weight', 'molar'):
        for mode in ('vacuum', 'temperature', 'pressure'):
            tag = "curve.%s.%s" % (ct, mode)
            Tp = var('Tp') if mode == 'temperature' else None; pp = var('pp') if mode == 'pressure' else None
            orig = {}
            def run(ex, ct=ct, Tp=Tp, pp=pp, orig=orig):
                mix = ex.getattr(Fn('class', name='Mixtures'), 'H2O_EtOH')
                fc = Seq(N, lambda i: Obj('Composition', dict(p=app('x', lift(i)), type=ct), owner='external'), owner='external')
                fl = Seq(N, lambda i: (app('J1', lift(i)), app('J2', lift(i))), owner='external')
                pm = Seq(N, lambda i: (Obj('Permeance', dict(value=app('P1', lift(i)), units=KG), owner='external'), Obj('Permeance', dict(value=app('P2', lift(i)), units=KG), owner='external')), owner='external')
                c = W.mk(src, 'DiffusionCurve', mixture=mix, membrane_name='m', feed_temperature=var('T'), feed_compositions=fc, partial_fluxes=fl, permeate_temperature=Tp,
                         permeate_pressure=pp, permeances=pm, comments='c')
                orig.update(curve=c, mix=mix)
                ex.assume(band(JJ >= 0, JJ < N), 'generic element index')
                # class invariants of the stored objects (established by their constructors)
                ex.assume(band(app('x', JJ) >= 0, app('x', JJ) <= 1, app('P1', JJ) >= 0, app('P2', JJ) >= 0, app('x', lift(0)) >= 0, app('x', lift(0)) <= 1), 'class invariants of the curve elements')
                path = iomodel.mkpath((Opaque('dir'), 'curves.csv'))
                ex.call_function(src.find('DiffusionCurve.save'), [path], {}, self_obj=c, inline=True)
                back = ex.call_function(src.find('DiffusionCurveSet.load'), [path], {}, cls='DiffusionCurveSet', inline=True)
                curves = back.f['diffusion_curves']
                n_curves = _plen(ex, curves)
                b0 = ex.index(curves, 0)
                obs = dict(set_name=back.f['name'], n_curves=n_curves, curve=b0)
                for fld in ('feed_compositions', 'partial_fluxes', 'permeances'):
                    obs[fld] = observe(ex, b0.f[fld])
                return obs
            ps = cx.explore(run, contracts={'__class_invariants__': CP.CLASS_INVARIANTS}, pre=[N >= 1])
            fn = 'DiffusionCurveSet.load'
            none_raise(cx, tag + ".never-raises", ps, function=fn, statement="saving a curve and re-loading it as a set does not fail (N >= 1 points)")
            rs = returns(ps)
            cx.ob(tag + ".paths", [], blit(len(rs) >= 1), kind='paths', function=fn)
            c0 = orig.get('curve'); mix = orig.get('mix')
            if c0 is None: continue
            M1 = mix.f['first_component'].f['molecular_weight']; M2 = mix.f['second_component'].f['molecular_weight']
            for k, r in enumerate(rs):
                o = r.value; b0 = o['curve']; t = "%s.%d" % (tag, k)
                cx.ob(t + ".one-curve", [], blit(o['n_curves'] == 1 and isinstance(b0, Obj) and b0.cls == 'DiffusionCurve'), kind='paths', function=fn)
                if not (isinstance(b0, Obj) and b0.cls == 'DiffusionCurve'): continue
                cx.ob(t + ".mixture", [], blit(b0.f['mixture'] is mix), kind='paths', function='DiffusionCurve.from_frame', statement="the re-loaded curve refers to the same built-in mixture")
                for fld in ('membrane_name', 'feed_temperature', 'permeate_temperature', 'permeate_pressure'):
                    same_value(cx, "%s.%s" % (t, fld), r.pc, c0.f[fld], b0.f[fld], 'DiffusionCurve.from_frame', "DiffusionCurve.%s" % fld)
                # compositions: same length, re-loaded as mass fractions of the physically identical composition
                n, el = o['feed_compositions']
                cx.ob(t + ".compositions.length", r.pc, eq(lift(n), N), function='DiffusionCurve.from_frame')
                okc = isinstance(el, Obj) and el.cls == 'Composition'
                cx.ob(t + ".compositions.element-type", [], blit(okc and el.f['type'] == 'weight'), kind='paths', function='DiffusionCurve.from_frame', statement="curves re-load as mass fractions")
                if okc and is_num(el.f['p']):
                    cx.ob(t + ".compositions.element", r.pc, eq(lift(el.f['p']), to_weight_spec(app('x', JJ), ct, lift(M1), lift(M2))), function='DiffusionCurve.from_frame',
                          statement="re-loaded composition j is the mass fraction of the stored composition j")
                n, el = o['partial_fluxes']
                cx.ob(t + ".fluxes.length", r.pc, eq(lift(n), N), function='DiffusionCurve.from_frame')
                okf = isinstance(el, tuple) and len(el) == 2 and all(is_num(x) for x in el)
                cx.ob(t + ".fluxes.shape", [], blit(okf), kind='paths', function='DiffusionCurve.from_frame')
                if okf:
                    cx.ob(t + ".fluxes.element", r.pc, band(eq(lift(el[0]), app('J1', JJ)), eq(lift(el[1]), app('J2', JJ))), function='DiffusionCurve.from_frame', statement="both partial fluxes of point j re-load unchanged")
                n, el = o['permeances']
                cx.ob(t + ".permeances.length", r.pc, eq(lift(n), N), function='DiffusionCurve.from_frame')
                okp = isinstance(el, tuple) and len(el) == 2 and all(isinstance(x, Obj) and x.cls == 'Permeance' and is_num(x.f['value']) for x in el)
                cx.ob(t + ".permeances.shape", [], blit(okp), kind='paths', function='DiffusionCurve.from_frame')
                if okp:
                    cx.ob(t + ".permeances.element", r.pc, band(eq(lift(el[0].f['value']), app('P1', JJ)), eq(lift(el[1].f['value']), app('P2', JJ))), function='DiffusionCurve.from_frame',
                          statement="both permeances of point j re-load unchanged")
                    cx.ob(t + ".permeances.units", [], blit(el[0].f['units'] == KG and el[1].f['units'] == KG), kind='paths', function='DiffusionCurve.from_frame', statement="units re-load unchanged")
                cx.ob(t + ".original-untouched", [], blit(not r.ex.ext_writes), kind='frame', function='DiffusionCurve.save', writes=str(r.ex.ext_writes)[:200])
            if rs: cx.cover(tag, rs[0].pc)


def _plen(ex, v):
    from ..symex import _len
    return _len(ex, v)


def obligations(cx):
    src = cx.src
    symbolic_round_trips(cx)
    curve_round_trips(cx)
    gp = cx.under_contract('ProcessModel._generate_process_path', how="AST-level frame argument")
    sv = cx.under_contract('ProcessModel.save', how="AST-level frame argument")
    # _generate_process_path returns a path it has just created with exist_ok=False
    mk = [n for n in ast.walk(gp) if isinstance(n, ast.Call) and isinstance(n.func, ast.Attribute) and n.func.attr == 'mkdir']
    rets = [n for n in ast.walk(gp) if isinstance(n, ast.Return)]
    ok = False
    if len(rets) == 1 and isinstance(rets[0].value, ast.Name):
        rn = rets[0].value.id
        for c in mk:
            if isinstance(c.func.value, ast.Name) and c.func.value.id == rn:
                kws = {k.arg: k.value for k in c.keywords}
                if isinstance(kws.get('exist_ok'), ast.Constant) and kws['exist_ok'].value is False: ok = True
        assigns = [n for n in ast.walk(gp) if isinstance(n, ast.Assign) and any(isinstance(t, ast.Name) and t.id == rn for t in n.targets)]
        ok = ok and len(assigns) == 1
    cx.ob("process-path.created-exclusively", [], blit(ok), kind='scan', function='ProcessModel._generate_process_path',
          statement="the returned process directory is created by mkdir(exist_ok=False) (assumed pathlib contract: raises if it exists), so it never is a previously saved directory")
    # save(): every write goes below that directory
    pp = [n for n in ast.walk(sv) if isinstance(n, ast.Assign) and isinstance(n.value, ast.Call) and '_generate_process_path' in ast.unparse(n.value.func)]
    okp = len(pp) == 1 and isinstance(pp[0].targets[0], ast.Name)
    pname = pp[0].targets[0].id if okp else None
    writes = []
    for n in ast.walk(sv):
        if isinstance(n, ast.Call) and isinstance(n.func, ast.Attribute) and n.func.attr in ('to_csv', 'save', 'safe_save', 'dump', 'to_json', 'to_pickle', 'write_text', 'write_bytes', 'mkdir', 'open'):
            writes.append(n)
        if isinstance(n, ast.Call) and isinstance(n.func, ast.Name) and n.func.id == 'open': writes.append(n)
    bad = []
    for w in writes:
        if w.func.attr == 'mkdir' if isinstance(w.func, ast.Attribute) else False:
            kws = {k.arg: k.value for k in w.keywords}
            continue          # directories: results/ (exist_ok=True, no file content) and the exclusive process directory
        args = list(w.args) + [k.value for k in w.keywords]
        target = args[-1] if w.func.attr == 'dump' else (args[0] if args else None)
        txt = ast.unparse(target) if target is not None else ''
        if not (pname and txt.replace('(', '').strip().startswith(pname + ' /')): bad.append(ast.unparse(w)[:100])
    cx.ob("save.writes-only-below-the-new-directory", [], blit(okp and len(writes) >= 5 and not bad), kind='scan', function='ProcessModel.save', found=str(bad),
          statement="every file written by ProcessModel.save is `process_path / <name>` with process_path the freshly created directory")
    reassigned = [n for n in ast.walk(sv) if isinstance(n, (ast.Assign, ast.AugAssign)) and any(isinstance(t, ast.Name) and t.id == pname for t in (n.targets if isinstance(n, ast.Assign) else [n.target]))]
    cx.ob("save.process-path-assigned-once", [], blit(len(reassigned) == 1), kind='scan', function='ProcessModel.save')
    cx.ob("lemma.save-never-writes-into-an-existing-process-directory", [], TRUE, kind='lemma',
          statement="from the two scans and the pathlib contract: a save cannot write into or alter a previously saved process directory")
    cx.assume_note("pathlib.Path.mkdir(exist_ok=False) raises FileExistsError if the directory exists (assumed)")
    cx.assume_note("pandas.to_csv/read_csv, joblib.dump/load and json are outside the contracts: the round trip itself is only checked on the bounded native corpus")


def native_checks(cx, results):
    from ..nativeio import native
    n = 10 if cx.tier == 'quick' else 200
    cases = native(dict(cmd='corpus', prop='C17', seed=getattr(cx, 'seed', 0), n=n))
    out = native(dict(cmd='check', prop='C17', cases=cases), timeout=3000)
    viol = []; errs = []
    nontrivial = 0
    for c, fails in zip(cases, out):
        if any(str(f).startswith('CHECKER-EXCEPTION') for f in fails): errs.append(dict(name='round-trip', detail=str(fails[0])[:600])); continue
        nontrivial += 1
        if fails and not viol:
            viol.append(dict(name="round-trip.%s" % c.get('kind'), prop='C17', status='refuted', native_case=c, native_failures=fails, detail="save/load round trip failed on the real code",
                             meta=dict(function='save/load', statement="every persisted field agrees to 1e-9 relative after save and load")))
    cx.bounded.append(dict(function='DiffusionCurve.save/DiffusionCurveSet.load, PervaporationFunction.save/load/safe_save/safe_load, Conditions.safe_save/safe_load, ProcessModel.save/load',
                           bound="%d enumerated objects (curves: 3 permeate modes x molar/mass x value scales 1e-9..1e3; functions and conditions; process models of all 4 kinds, both storage modes, forced name collision)" % len(cases),
                           reason="serialisation libraries are outside the contracts: bounded run-time check, never counted as proved"))
    return dict(violations=viol, errors=errs[:1], coverage=dict(evaluations=len(cases), distinct_nontrivial=nontrivial,
                                                                 rule="one case = one object saved and re-loaded through the real code in a temporary directory; non-trivial = the round trip ran to completion",
                                                                 explanation="bounded run-time round-trip check of the real persistence code over an enumerated corpus + AST-level frame argument that a save only writes below a freshly, exclusively created directory"))


def replay_case(r):
    return None
