"""C14 - permeance unit conversion is an exact, invertible change of units (DESIGN 3, C14)"""
from .common import *
from ..nativeio import differential

ID = "C14"
NATIVE_BOUNDED = (30, 300)        # (quick, thorough) native corpus sizes - bounded stand-in for rounding effects
MIN_OBLIGATIONS = 40
UNITS = ['kg/(m2*h*kPa)', 'SI', 'GPU']


def factor(u, M):
    """SI value of one unit u (from the property statement)"""
    return {'kg/(m2*h*kPa)': 1 / (3600 * M), 'SI': lift(1), 'GPU': lift(Fraction(335, 10 ** 12))}[u]


def obligations(cx):
    src = cx.src
    fn = 'Permeance.convert'
    cx.under_contract(fn); cx.under_contract('Permeance.__add__')
    cx.functions['Permeance.__init__'] = dict(span=src.span(src.cls('Permeance')), how="attrs constructor derived from the class body; real clamp converter executed")
    v = var('v'); M = var('M1')
    comp = W.component(src, '1')
    preM = [M > 0]
    # class invariant: value >= 0 after construction from any real
    r = only_return(cx.explore(lambda ex: ex.construct('Permeance', [], dict(value=v))))
    val = r.value.f['value']
    cx.ob("ctor.value-nonnegative", r.pc, val >= 0, function='Permeance.__init__', statement="permeance values are never negative")
    cx.ob("ctor.keeps-nonnegative-input", r.pc + [v >= 0], eq(val, v), function='Permeance.__init__')
    cx.ob("ctor.default-units", [], blit(r.value.f['units'] == 'kg/(m2*h*kPa)'), kind='paths')
    wr = src.writes_to_field('value')
    cx.ob("invariant.no-assignment-to-value", [], blit(not wr), kind='scan', found=str(wr))
    inv = [v >= 0]
    results = {}
    for fu in UNITS + ['furlong']:
        for tu in UNITS + ['furlong']:
            for has_comp in (True, False):
                nm = "%s->%s.%s" % (fu, tu, 'comp' if has_comp else 'nocomp')
                p0 = W.permeance(src, v, fu)
                ps = cx.explore(call(src, fn, [], dict(to_units=tu, component=comp if has_comp else None), self_obj=p0), pre=preM + inv)
                needs_comp = 'kg/(m2*h*kPa)' in (fu, tu)
                if fu == tu:
                    rr = only_return(ps, nm)
                    cx.ob("convert.%s.identity" % nm, [], blit(rr.value is p0), kind='paths', function=fn, statement="equal units: the same object is returned")
                    continue
                if 'furlong' in (fu, tu) or (needs_comp and not has_comp):
                    all_raise(cx, "convert.%s.raises" % nm, ps, classes=('ValueError', 'KeyError'), function=fn,
                              statement="conversion that needs a component but has none, or involves an unknown unit, raises")
                    continue
                none_raise(cx, "convert.%s.returns" % nm, ps, function=fn)
                no_abnormal(cx, "convert.%s" % nm, ps, function=fn)
                rets = returns(ps)
                if not rets: raise Unsupported("no normal path for %s" % nm)
                for pi, rr in enumerate(rets):          # every normal path (a branch on the value is a path of its own)
                    out = rr.value; sfx = "" if pi == 0 else ".path%d" % pi
                    cx.ob("convert.%s.units%s" % (nm, sfx), [], blit(isinstance(out, Obj) and out.cls == 'Permeance' and out.f['units'] == tu and out is not p0), kind='paths', function=fn,
                          statement="the result is a new Permeance labelled with the target units")
                    if isinstance(out, Obj) and out.cls == 'Permeance':
                        cx.ob("convert.%s.value%s" % (nm, sfx), rr.pc, eq(out.f['value'], v * factor(fu, M) / factor(tu, M)), function=fn,
                              statement="result = value * f(from)/f(to), f(kg)=1/(3600 M), f(GPU)=3.35e-10, f(SI)=1")
                if has_comp: results[(fu, tu)] = (rets[0], rets[0].value)
                if has_comp and tier_all(cx):
                    differential(cx, fn, p0, [], dict(to_units=tu, component=comp), ps, {'v': (0.0, 5.0), 'M1': (10, 200), '*': (0.1, 2.0)}, n=6, label=nm)
    # linearity, path independence, invertibility - on the real function applied repeatedly
    def chain(units, value):
        def run(ex):
            p = ex.construct('Permeance', [], dict(value=value, units=units[0]))
            for u in units[1:]:
                p = ex.call_function(src.find(fn), [], dict(to_units=u, component=comp), self_obj=p, inline=True)
            return p
        rs_ = [q for q in returns(cx.explore(run, pre=preM + [v >= 0, var('v2') >= 0, var('k') >= 0])) if isinstance(q.value, Obj) and q.value.cls == 'Permeance']
        if not rs_: raise Unsupported("no normal path for chain %s" % (units,))
        return rs_
    import itertools
    def combos(*lists): return list(enumerate(itertools.product(*lists)))
    v2, k = var('v2'), var('k')
    for a in UNITS:
        for b in UNITS:
            if a == b: continue
            for ci, (ra, rb, rs) in combos(chain([a, b], v), chain([a, b], v2), chain([a, b], k * v + v2)):
                cx.ob("linear.%s->%s%s" % (a, b, "" if ci == 0 else ".paths%d" % ci), ra.pc + rb.pc + rs.pc, eq(rs.value.f['value'], k * ra.value.f['value'] + rb.value.f['value']), function=fn,
                      statement="conversion is linear in the value")
            for ci, (back,) in combos(chain([a, b, a], v)):
                cx.ob("invertible.%s->%s->%s%s" % (a, b, a, "" if ci == 0 else ".paths%d" % ci), back.pc, eq(back.value.f['value'], v), function=fn, statement="A->B->A returns the original value")
            for c in UNITS:
                if c in (a, b): continue
                for ci, (via, direct) in combos(chain([a, b, c], v), chain([a, c], v)):
                    cx.ob("path-independent.%s->%s->%s%s" % (a, b, c, "" if ci == 0 else ".paths%d" % ci), via.pc + direct.pc, eq(via.value.f['value'], direct.value.f['value']), function=fn,
                          statement="A->B->C equals A->C")
    from .lockstep import feasible
    ra = ([q for q in chain(['GPU', 'SI'], v) if feasible(q.pc + [v > 0])] or chain(['GPU', 'SI'], v))[0]
    cx.must_fail("convert.GPU->SI", ra.pc + [v > 0], eq(ra.value.f['value'], v * Fraction(336, 10 ** 12)))
    cx.cover("convert.kg->SI", results[('kg/(m2*h*kPa)', 'SI')][0].pc)
    # __add__: same units required, result through the constructor (invariant kept)
    pa, pb = W.permeance(src, v, 'SI'), W.permeance(src, v2, 'SI')
    r = only_return(cx.explore(call(src, 'Permeance.__add__', [pb], self_obj=pa), pre=[v >= 0, v2 >= 0]))
    cx.ob("add.value", r.pc, eq(r.value.f['value'], v + v2), function='Permeance.__add__')
    all_raise(cx, "add.different-units-raises", cx.explore(call(src, 'Permeance.__add__', [W.permeance(src, v2, 'GPU')], self_obj=pa), pre=[v >= 0, v2 >= 0]), function='Permeance.__add__')
    cx.assume_note("molar mass positive; 3.35e-10 and 3.6e3 taken as the exact decimals written in the source")


def tier_all(cx): return True


def replay_case(r):
    m = r.get('model') or {}
    return dict(v=m.get('v', 1.0), v2=m.get('v2', 2.0), k=m.get('k', 3.0), M=m.get('M1', 46.0))
