"""C18 - reported process states are physically admissible, otherwise the call raises (DESIGN 3, C18)"""
from .common import *
from . import procs

ID = "C18"
FALLBACK_N = (24, 60)        # native fallback corpus sizes (quick, thorough): these native cases are expensive
NATIVE_BOUNDED = (20, 60)        # (quick, thorough) native corpus sizes - bounded stand-in for overflow / non-finite values, which the real-number model cannot see
MIN_OBLIGATIONS = 150


def holds(hyps, goal):
    from ..symex import z3_check
    import z3
    return z3_check(list(hyps) + [bnot(goal)], 4000) == z3.unsat


def obligations(cx):
    src = cx.src
    for f in procs.FUNCS: cx.under_contract('Pervaporation.' + f)
    N, T0, M0, X0 = procs.N, procs.T0, procs.M0, procs.X0
    cfgs = procs.configs(comp_types=('weight',)) + [procs.Config(f, 'vacuum', False, 'molar', 'one', False) for f in procs.FUNCS]
    if cx.tier == 'quick': cfgs = [c for c in cfgs if c.ideal or not (c.curves == 'many' and c.initial)]
    for cfg in cfgs:
        tag = cfg.tag(); fn = 'Pervaporation.' + cfg.func
        pv, kw, ps = procs.run(cx, cfg)
        steps = procs.normal_steps(ps)
        cx.ob(tag + ".paths", [], blit(len(steps) >= 1), kind='paths', function=fn)
        for si, st in enumerate(steps):
            t = "%s.path%d" % (tag, si)
            # a normal return means every iteration k < N completed normally: its path condition holds for every reported step
            def invariant(name, now, nxt, base, statement):
                """now: quantity of step k (read), nxt: quantity of step k+1 (appended), base: value at step 0.
                head-guard strategy: pc(k) => now > 0.   tail-guard strategy: base > 0 and pc(k) => nxt > 0."""
                if holds(st.pc, now > 0) or not (holds(st.pc, nxt > 0)):
                    cx.ob("%s.%s.every-reported-step" % (t, name), st.pc, now > 0, function=fn, statement=statement, inductive=True)
                else:
                    cx.ob("%s.%s.base" % (t, name), st.pc, base > 0, function=fn, statement=statement + " (step 0)")
                    cx.ob("%s.%s.step" % (t, name), st.pc, nxt > 0, function=fn, statement=statement + " (each next step is checked before it is reported)", inductive=True)
            invariant("mass-positive", st.read('feed_mass', 0), st.appended('feed_mass'), lift(st.init('feed_mass')[0]), "every reported feed mass is positive")
            if not cfg.iso:
                invariant("temperature-positive", st.read('feed_temperature', 0), st.appended('feed_temperature'), lift(st.init('feed_temperature')[0]),
                          "every reported feed temperature is positive")
            else:
                ft = st.field('feed_temperature'); k = var('k', 'I')
                cx.ob(t + ".temperature-positive", st.pc + [k >= 0, k < N], (need_seq(ft, 'feed_temperature').fn(k) > 0), function=fn,
                      statement="isothermal: the reported temperature is the (admissible, positive) initial temperature")
            xn = st.appended('feed_composition').f['p']; x0 = st.init('feed_composition')[0].f['p']
            cx.ob(t + ".feed-fraction.base", st.pc, band(x0 >= 0, x0 <= 1), function=fn, statement="feed mass fraction of step 0 in [0,1]")
            cx.ob(t + ".feed-fraction.step", st.pc, band(xn >= 0, xn <= 1), function=fn, statement="feed mass fraction of every next step in [0,1] (validated on construction)")
            y = st.appended('permeate_composition').f['p']
            cx.ob(t + ".permeate-fraction", st.pc, band(y >= 0, y <= 1), function=fn, statement="permeate mass fraction of every step in [0,1] (validated on construction)")
            if si == 0:
                cx.cover(t, st.pc)
                cx.must_fail(t + ".mass", st.pc, st.appended('feed_mass') > st.read('feed_mass', 0))
    cx.assume_note("finiteness (no NaN/inf) of fluxes and heats is outside the real-number model")
    cx.assume_note("the initial temperature of the isothermal models is admissible (positive) by the property's quantifier")
    cx.assume_note("every iteration k < N completes normally on a normal return: its path condition holds for every reported step (loop semantics, DESIGN 2.6)")


def replay_case(r):
    m = dict(r.get('model') or {})
    from . import procs_native_case as PN
    cs = PN.case_from(r['name'], m)
    for c in cs: c['coarse'] = True
    return cs
