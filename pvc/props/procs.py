"""Layer 1 for the four process models and non_ideal_diffusion_curve: symbolic execution of the real functions with
the loop executed once for a generic step (recurrence extraction, DESIGN 2.6)."""
from .common import *
from ..contracts import process as CP, flux as CF
from ..symex import Grow, Post

FUNCS = ('ideal_isothermal_process', 'ideal_non_isothermal_process', 'non_ideal_isothermal_process', 'non_ideal_non_isothermal_process')
N, DT, PREC = var('N', 'I'), var('dt'), var('prec')
A_, T0, M0, X0, TP, PP = var('A'), var('T0'), var('m0'), var('x0'), var('Tp'), var('pp')


class Config:
    def __init__(s, func, mode='vacuum', program=False, comp_type='weight', curves='one', initial=False, model='NRTL', swapped=False, curve_type='weight', init_units='kg/(m2*h*kPa)'):
        s.init_units = init_units; s.curve_type = curve_type; s.func = func; s.mode = mode; s.program = program; s.comp_type = comp_type; s.curves = curves; s.initial = initial; s.model = model; s.swapped = swapped
        s.ideal = func.startswith('ideal'); s.iso = 'non_isothermal' not in func

    def tag(s):
        t = "%s.%s" % (s.func.replace('_process', ''), s.mode)
        if s.program: t += ".program"
        if s.comp_type != 'weight': t += ".molar-feed"
        if not s.ideal: t += ".%s-curve%s%s" % (s.curves, ".initial-permeances" if s.initial else "", ".molar-curves" if s.curve_type != 'weight' else "") + ("" if s.init_units.startswith('kg') else ".initial-in-" + s.init_units)
        if s.model != 'NRTL': t += "." + s.model
        return t


def configs(funcs=FUNCS, modes=('vacuum', 'temperature', 'pressure'), comp_types=('weight',), full=True):
    out = []
    for f in funcs:
        ideal = f.startswith('ideal'); iso = 'non_isothermal' not in f
        for mode in modes:
            for prog in ((False,) if iso else (False, True)):
                for ct in comp_types:
                    if ideal: out.append(Config(f, mode, prog, ct))
                    else:
                        for curves in ('one', 'many'):
                            for initial in (False, True):
                                out.append(Config(f, mode, prog, ct, curves, initial))
    return out


def curve_set(src, mix, kind, comp_type='weight'):
    """DiffusionCurveSet with one curve or with nc >= 2 curves; feed compositions of symbolic number"""
    def curve(i):
        i = lift(i) if not isinstance(i, T) else i
        ncomp = app('dcs.ncomp', i)
        return Obj('DiffusionCurve', dict(mixture=mix, membrane_name='mem', feed_temperature=app('dcs.T', i) if kind != 'one' else var('Tc'),
                                         feed_compositions=Seq(ncomp, lambda j, i=i: Obj('Composition', dict(p=app('dcs.x', i, lift(j)), type=comp_type), owner='external'), owner='external', tag=('dcs.x', kind)),
                                         partial_fluxes=Opaque('fluxes'), permeate_temperature=None, permeate_pressure=None, permeances=Opaque('permeances'), comments=None),
                   owner='external', tag='curve')
    if kind == 'one': curves = PList([curve(0)], owner='external')
    else: curves = Seq(var('nc', 'I'), curve, owner='external', tag=('curves',))
    return Obj('DiffusionCurveSet', dict(name='dcs', diffusion_curves=curves), owner='external', tag=('dcs', kind, comp_type))


def program_obj(src):
    return W.mk(src, 'TemperatureProgram', tag='program', coefficients=PList([var('tp0'), var('tp1'), var('tp2')], owner='external'), type='polynomial')


def inputs(src, cfg, mix=None):
    mix = mix or W.mixture(src, swapped=cfg.swapped)
    mem = W.membrane(src, experiments=Opaque('experiments'))
    pv = W.mk(src, 'Pervaporation', tag='pervaporation', membrane=mem, mixture=mix)
    cond = W.conditions(src, cfg.comp_type, perm_T=cfg.mode in ('temperature', 'both'), perm_p=cfg.mode in ('pressure', 'both'),
                        program=program_obj(src) if cfg.program else None)
    kw = dict(conditions=cond, number_of_steps=N, delta_hours=DT, precision=PREC, calculation_type=cfg.model)
    if not cfg.ideal:
        kw['diffusion_curve_set'] = curve_set(src, mix, cfg.curves, cfg.curve_type)
        if cfg.initial: kw['initial_permeances'] = (W.permeance(src, var('Pi1'), cfg.init_units), W.permeance(src, var('Pi2'), cfg.init_units))
    return pv, kw


def pre(cfg):
    p = [N >= 1, DT > 0, A_ > 0, M0 > 0, T0 > 0, X0 >= 0, X0 <= 1, PREC > 0] + W.mixture_pre()
    if cfg.mode in ('temperature', 'both'): p.append(TP > 0)
    if cfg.mode in ('pressure', 'both'): p.append(PP >= 0)
    if not cfg.ideal:
        if cfg.curves == 'one': p.append(var('Tc') > 0)
        else: p.append(var('nc', 'I') >= 2)
        if cfg.initial: p += [var('Pi1') >= 0, var('Pi2') >= 0]
    return p


def run(cx, cfg, extra_contracts=None, extra_pre=()):
    src = cx.src
    pv, kw = inputs(src, cfg)
    ctr = CP.base_contracts()
    if extra_contracts: ctr.update(extra_contracts)
    f = src.find('Pervaporation.' + cfg.func)
    ps = cx.explore(lambda ex: ex.call_function(f, [], dict(kw), self_obj=pv, inline=True), contracts=ctr, pre=pre(cfg) + list(extra_pre), max_paths=2000)
    return pv, kw, ps


def frame_probe(cx):
    """the non-ideal process models on curve sets given in MOLE fractions (the branch that converts the curve compositions): explored
    only for its heap writes, which Ctx.explore accumulates for no_hidden_state()"""
    for f in ('non_ideal_isothermal_process', 'non_ideal_non_isothermal_process'):
        for curves in ('one', 'many'):
            run(cx, Config(f, 'vacuum', False, 'weight', curves, False, curve_type='molar'))


class Step:
    """view of one normal path of a process function: the generic iteration k and the returned ProcessModel"""
    def __init__(s, path):
        s.path = path; s.pc = path.pc; s.ex = path.ex; s.model = path.value
        recs = [l for l in path.ex.loops if l['kind'] == 'recurrence']
        if not recs: raise Unsupported("no step loop found")
        # the step loop is the recurrence that builds the most series; other append loops (e.g. a time grid built by a loop) are auxiliary:
        # their lists are finished, element-wise readable lists by the time the step loop runs
        recs = sorted(recs, key=lambda l: -len(l['lists']))
        if len(recs) > 1 and len(recs[0]['lists']) == len(recs[1]['lists']): raise Unsupported("expected one step loop, found %d equally large ones" % len(recs))
        s.rec = recs[0]; s.locals = s.rec['locals']
        # the loop's lists under canonical names: a list that the returned model exposes in field F is called by F's series name,
        # whatever the local variable is called (the proofs speak about the reported series, not about local names)
        lists = dict(s.rec['lists']); alias_ = {}
        m = s.model
        if isinstance(m, Obj):
            rev = {v: k for k, v in s.FIELD.items()}
            for fld, v in m.f.items():
                if isinstance(v, Post):
                    for L, g in list(lists.items()):
                        if g is v.grow:
                            canon = rev.get(fld, fld)
                            if L != canon and canon not in s.rec['lists']:
                                del lists[L]; lists[canon] = g; alias_[L] = canon          # one entry per list; the local's own name is kept as an alias for look-ups
        s.lists = lists; s.alias = alias_

    FIELD = {'feed_composition': 'feed_compositions'}

    def series(s, name):
        """a series that is not built by the loop (e.g. precomputed before it): the model field"""
        v = s.field(s.FIELD.get(name, name))
        if not isinstance(v, Seq): raise Unsupported("series %s is neither built by the step loop nor a precomputed list" % name)
        return v

    def resolve(s, name):
        """the loop's list for a series: by the local's name, or - if the locals were renamed - the list that the returned ProcessModel
        exposes in the corresponding field"""
        if name in s.lists: return name
        if name in getattr(s, 'alias', {}): return s.alias[name]
        m = s.model
        fld = s.FIELD.get(name, name)
        v = m.f.get(fld) if isinstance(m, Obj) else None
        if isinstance(v, Post):
            for L, g in s.lists.items():
                if g is v.grow: return L
        return name

    def read(s, name, c=0):
        name = s.resolve(name)
        if name not in s.lists: return s.ex.seq_get(s.series(name), var('k', 'I') + c)
        g = s.lists[name]
        j = c - len(g.init)
        if j >= 0:
            if j < len(g.app): return g.app[j]
            raise Unsupported("%s[k%+d] is not available in the generic iteration" % (name, c))
        if c not in g.reads: return None
        return g.reads[c]

    def appended(s, name, i=0):
        name = s.resolve(name)
        if name not in s.lists: return s.ex.seq_get(s.series(name), var('k', 'I') + 1)
        g = s.lists[name]
        if i >= len(g.app): raise Unsupported("list %s is not appended in the step loop" % name)
        return g.app[i]

    def init(s, name):
        name = s.resolve(name)
        if name not in s.lists: return [s.ex.seq_get(s.series(name), lift(0))]
        return s.lists[name].init

    def field(s, name):
        m = s.model
        if not (isinstance(m, Obj) and name in m.f): raise Unsupported("result has no field %s" % name)
        return m.f[name]


def normal_steps(paths):
    return [Step(p) for p in paths if p.outcome == 'return' and isinstance(p.value, Obj) and any(l['kind'] == 'recurrence' for l in p.ex.loops)]


# ------------------------------------------------------------------------------------------------ non_ideal_diffusion_curve
DX, TF = var('dx'), var('Tf')


def run_curve(cx, mode='vacuum', comp_type='weight', curves='one', initial=False, model='NRTL', include_zero=False, extra_contracts=None):
    src = cx.src
    mix = W.mixture(src)
    mem = W.membrane(src, experiments=Opaque('experiments'))
    pv = W.mk(src, 'Pervaporation', tag='pervaporation', membrane=mem, mixture=mix)
    kw = dict(diffusion_curve_set=curve_set(src, mix, curves), feed_temperature=TF, initial_feed_composition=W.composition(src, X0, comp_type), delta_composition=DX,
              number_of_steps=N, permeate_temperature=TP if mode in ('temperature', 'both') else None, permeate_pressure=PP if mode in ('pressure', 'both') else None,
              precision=PREC, calculation_type=model, include_zero=include_zero)
    if initial: kw['initial_permeances'] = (W.permeance(src, var('Pi1')), W.permeance(src, var('Pi2')))
    p = [N >= 1, TF > 0, X0 >= 0, X0 <= 1, PREC > 0] + W.mixture_pre()
    if mode in ('temperature', 'both'): p.append(TP > 0)
    if mode in ('pressure', 'both'): p.append(PP >= 0)
    if curves == 'one': p.append(var('Tc') > 0)
    else: p.append(var('nc', 'I') >= 2)
    if initial: p += [var('Pi1') >= 0, var('Pi2') >= 0]
    ctr = CP.base_contracts()
    if extra_contracts: ctr.update(extra_contracts)
    f = src.find('Pervaporation.non_ideal_diffusion_curve')
    ps = cx.explore(lambda ex: ex.call_function(f, [], dict(kw), self_obj=pv, inline=True), contracts=ctr, pre=p, max_paths=2000)
    return pv, kw, ps
