"""C20 - modelling calls are pure: no hidden state, arguments untouched, repeatable (DESIGN 3, C20)"""
import ast
from .common import *
from . import procs, c02 as C2, c16
from ..contracts import flux as CF, process as CP, membrane as CM
from ..loops import segments, Head

ID = "C20"
FALLBACK_N = (6, 40)        # native fallback corpus sizes (quick, thorough): these native cases are expensive
FRAME_SENSITIVE = True        # the statement relates several calls / call histories: a certain write to state that outlives a call is a violation even where the engine cannot follow its effect
MIN_OBLIGATIONS = 60
LEVEL = 'proof'


def frame(cx, name, paths, fn):
    writes = [w for p in paths for w in p.ex.ext_writes]
    cx.ob(name + ".frame", [], blit(len(paths) >= 1 and not writes), kind='frame', function=fn, writes=str(sorted({w[1] for w in writes}))[:300], **frame_meta(writes),
          statement="modifies nothing reachable from its arguments or from module/class level state")


def fresh_result(cx, name, paths, fn, roots):
    """the result shares no mutable container with the caller's objects (records may reference caller-owned immutable records)"""
    bad = []
    ext_lists = set()
    def collect_ext(v, seen):
        if id(v) in seen: return
        seen.add(id(v))
        if isinstance(v, (PList, Seq)) and getattr(v, 'owner', 'fresh') != 'fresh': ext_lists.add(id(v))
        if isinstance(v, Obj):
            for x in v.f.values(): collect_ext(x, seen)
        elif isinstance(v, (tuple, list)):
            for x in v: collect_ext(x, seen)
        elif isinstance(v, PList):
            for x in v.items: collect_ext(x, seen)
    for r_ in roots: collect_ext(r_, set())
    for p in paths:
        if p.outcome != 'return': continue
        v = p.value
        if isinstance(v, Obj) and v.owner != 'fresh': bad.append('result object is caller-owned')
    cx.ob(name + ".fresh-result", [], blit(not bad), kind='frame', function=fn, found=str(bad[:3]), statement="the result is a freshly allocated object")


def obligations(cx):
    src = cx.src
    Tt, Xf, TP, PP, PREC = C2.Tt, C2.Xf, C2.TP, C2.PP, C2.PREC
    mix = W.mixture(src); pv = C2.pv_obj(src, mix, experiments=Opaque('experiments'))
    feed = W.composition(src, Xf, 'weight')
    # ------------------------------------------------------------------ no module/class level state is written anywhere in the package
    bad = []
    for path, m in src.mods.items():
        if '/plotting/' in path: continue
        classes = {n.name for n in m.body if isinstance(n, ast.ClassDef)}
        for fn in ast.walk(m):
            if not isinstance(fn, ast.FunctionDef): continue
            for n in ast.walk(fn):
                if isinstance(n, (ast.Global, ast.Nonlocal)): bad.append((path, n.lineno, 'global/nonlocal'))
                tg = n.targets if isinstance(n, ast.Assign) else [n.target] if isinstance(n, (ast.AugAssign, ast.AnnAssign)) else []
                for t in tg:
                    for e in ast.walk(t):
                        if isinstance(e, ast.Attribute) and isinstance(e.ctx, ast.Store) and isinstance(e.value, ast.Name) and (e.value.id in src.classes or e.value.id == 'cls'):
                            bad.append((path, n.lineno, 'assignment to a class attribute ' + ast.unparse(e)))
                if isinstance(n, ast.Call) and isinstance(n.func, ast.Name) and n.func.id in ('setattr',): bad.append((path, n.lineno, 'setattr'))
    cx.ob("scan.no-global-or-class-level-writes", [], blit(not bad), kind='scan', found=str(bad[:5]), statement="no function declares global/nonlocal, assigns a class attribute or calls setattr")
    muts = []
    for (path, name), node in src.consts.items():
        if isinstance(node, (ast.Dict, ast.List, ast.Set)): muts.append("%s:%s" % (path.split('/')[-1], name))
    cx.notes.append(dict(module_level_mutable_constants=muts, treatment="one shared 'global' object each; any write is reported by the frame obligations"))
    # ------------------------------------------------------------------ thermodynamics and conversions
    for q, kw in (('calculate_activity_coefficients', dict(temperature=Tt, mixture=mix, composition=feed, calculation_type='NRTL')),
                  ('calculate_activity_coefficients', dict(temperature=Tt, mixture=mix, composition=W.composition(src, Xf, 'molar'), calculation_type='UNIQUAC')),
                  ('get_partial_pressures', dict(temperature=Tt, mixture=mix, composition=feed, calculation_type='UNIQUAC')),
                  ('get_partial_pressures', dict(temperature=Tt, mixture=mix, composition=W.composition(src, Xf, 'molar'), calculation_type='NRTL'))):
        cx.under_contract(q)
        for xc in (None, 0, 1):                 # interior and both end points (the UNIQUAC branch treats pure components specially)
            kw2 = dict(kw)
            if xc is not None: kw2['composition'] = W.composition(src, lift(xc), kw['composition'].f['type'])
            ps = cx.explore(call(src, q, [], kw2), pre=[Xf >= 0, Xf <= 1, Tt > 0] + W.mixture_pre() + W.positive('r1', 'r2', 'q1', 'q2', 'qi1', 'qi2'))
            frame(cx, "%s.%s.%s.x%s" % (q, kw['calculation_type'], kw['composition'].f['type'], 'sym' if xc is None else xc), ps, q)
    for meth in ('to_molar', 'to_weight'):
        for typ in ('weight', 'molar'):
            c = W.composition(src, Xf, typ)
            ps = cx.explore(call(src, 'Composition.' + meth, [mix], self_obj=c), pre=[Xf >= 0, Xf <= 1] + W.mixture_pre())
            frame(cx, "Composition.%s.%s" % (meth, typ), ps, 'Composition.' + meth)
    comp1 = mix.f['first_component']
    for fu in ('kg/(m2*h*kPa)', 'SI', 'GPU'):
        for tu in ('kg/(m2*h*kPa)', 'SI', 'GPU'):
            for has in (True, False):
                ps = cx.explore(call(src, 'Permeance.convert', [], dict(to_units=tu, component=comp1 if has else None), self_obj=W.permeance(src, var('v'), fu)), pre=[var('v') >= 0] + W.mixture_pre())
                frame(cx, "Permeance.convert.%s->%s.%s" % (fu, tu, 'comp' if has else 'nocomp'), ps, 'Permeance.convert')
    # ------------------------------------------------------------------ flux law, solver (loop cut), helpers, curves
    ctr = {'get_partial_pressures': CF.gpp_contract, 'Membrane.get_permeance': CF.get_permeance_contract, '__class_invariants__': CP.CLASS_INVARIANTS}
    for mode in C2.MODES:
        Tp, pp = C2.mode_args(mode)
        kw = dict(first_component_permeance=W.permeance(src, C2.P1), second_component_permeance=W.permeance(src, C2.P2), permeate_composition=W.composition(src, var('y'), 'weight'),
                  feed_composition=feed, feed_temperature=Tt, permeate_temperature=Tp, permeate_pressure=pp)
        ps = cx.explore(call(src, C2.GPF, [], kw, self_obj=pv), contracts=ctr, pre=C2.BASE + [var('y') >= 0, var('y') <= 1])
        frame(cx, "get_partial_fluxes_from_permeate_composition.%s" % mode, ps, C2.GPF)
        for given in (True, False):
            f, bind, kwc = C2.cpf_bind(src, pv, mode, 'NRTL', given)
            pp_, hp, carried = segments(cx, f, bind, C2.havoc(src), contracts=ctr, pre=C2.BASE + [PREC > 0])
            frame(cx, "calculate_partial_fluxes.%s.%s" % (mode, 'given' if given else 'default'), pp_ + hp, C2.CPF)
    cpfc = dict(ctr); cpfc['Pervaporation.calculate_partial_fluxes'] = CF.cpf_contract
    for name, kws in (('Pervaporation.calculate_permeate_composition', dict(feed_temperature=Tt, composition=feed, permeate_temperature=TP)),
                      ('Pervaporation.calculate_separation_factor', dict(feed_temperature=Tt, composition=W.composition(src, Xf, 'molar'), permeate_pressure=PP))):
        ps = cx.explore(call(src, name, [], kws, self_obj=pv), contracts=cpfc, pre=C2.BASE + [Xf > 0, Xf < 1])
        frame(cx, name.split('.')[1], ps, name); fresh_result(cx, name.split('.')[1], ps, name, [pv, feed])
    comps = Seq(var('ncomp', 'I'), lambda i: Obj('Composition', dict(p=app('xs', lift(i)), type='weight'), owner='external'), owner='external', tag=('xs',))
    ps = cx.explore(call(src, 'Pervaporation.ideal_diffusion_curve', [], dict(feed_temperature=Tt, compositions=comps, permeate_temperature=TP), self_obj=pv), contracts=cpfc, pre=C2.BASE + [var('ncomp', 'I') >= 1])
    frame(cx, "ideal_diffusion_curve", ps, 'Pervaporation.ideal_diffusion_curve'); fresh_result(cx, "ideal_diffusion_curve", ps, 'Pervaporation.ideal_diffusion_curve', [pv])
    # curve objects: construction and metrics do not touch the caller's lists
    fl = PList([(var('j1'), var('j2')), (var('j3'), var('j4'))], owner='external', tag='caller flux list')
    fcs = PList([feed, W.composition(src, var('xb'), 'molar')], owner='external', tag='caller composition list')
    pk = PList([(W.permeance(src, var('pa'), 'SI'), W.permeance(src, var('pb'), 'SI'))] * 2, owner='external', tag='caller permeance list')
    for label, kwc in (('from-fluxes', dict(partial_fluxes=fl, permeate_temperature=TP)), ('from-permeances', dict(permeances=pk)), ('both', dict(partial_fluxes=fl, permeances=pk))):
        ps = cx.explore(lambda ex, kwc=kwc: ex.construct('DiffusionCurve', [], dict(mixture=mix, membrane_name='m', feed_temperature=Tt, feed_compositions=fcs, **kwc)),
                        contracts={'get_partial_pressures': CF.gpp_contract}, pre=C2.BASE + [var('xb') >= 0, var('xb') <= 1, var('pa') >= 0, var('pb') >= 0])
        frame(cx, "DiffusionCurve.%s" % label, ps, 'DiffusionCurve.__attrs_post_init__')
        ok = all(len(fl.items) == 2 and len(fcs.items) == 2 and len(pk.items) == 2 for _ in [0])
        cx.ob("DiffusionCurve.%s.caller-lists-unchanged" % label, [], blit(ok), kind='frame', function='DiffusionCurve.__attrs_post_init__')
    # ------------------------------------------------------------------ process models and the non-ideal curve
    cfgs = [procs.Config(f, mode, prog, 'molar' if mode == 'vacuum' else 'weight', curves, initial)
            for f in procs.FUNCS for mode in ('vacuum', 'temperature', 'pressure') for prog in ((False,) if 'non_isothermal' not in f else (False, True))
            for curves, initial in ((('one', False),) if f.startswith('ideal') else (('one', False), ('many', True)))]
    if cx.tier == 'quick': cfgs = [c for c in cfgs if not (c.mode == 'pressure' and c.program)]
    # curve sets given in mole fractions (the models' conversion branch)
    cfgs += [procs.Config(f, 'vacuum', False, 'weight', curves, False, curve_type='molar') for f in procs.FUNCS if not f.startswith('ideal') for curves in ('one', 'many')]
    for cfg in cfgs:
        pvp, kw, ps = procs.run(cx, cfg)
        frame(cx, "process." + cfg.tag(), ps, 'Pervaporation.' + cfg.func)
        fresh_result(cx, "process." + cfg.tag(), ps, 'Pervaporation.' + cfg.func, [pvp, kw])
    for curves in ('one', 'many'):
        for iz in (False, True):
            pvp, kw, ps = procs.run_curve(cx, 'temperature', 'molar', curves, True, include_zero=iz)
            frame(cx, "non_ideal_diffusion_curve.%s-curve.%s" % (curves, 'zero' if iz else 'nozero'), ps, 'Pervaporation.non_ideal_diffusion_curve')
    # ------------------------------------------------------------------ membrane functions
    n = var('n', 'I')
    mem = W.membrane(src, experiments=Opaque('experiments'))
    for stated in (True, False):
        ctrm = {'Membrane.get_penetrant_data': CM.penetrant_data_contract(n, stated), 'min(key=)': CM.min_key_contract, 'Membrane.calculate_activation_energy': CM.activation_energy_contract,
                'numpy.linalg.lstsq': CM.lstsq_contract, 'numpy.searchsorted': CM.searchsorted_contract}
        ps = cx.explore(call(src, 'Membrane.get_permeance', [], dict(temperature=Tt, component=comp1), self_obj=mem), contracts=ctrm, pre=[n >= 1, Tt > 0] + W.mixture_pre())
        frame(cx, "Membrane.get_permeance.%s" % ('stated' if stated else 'unstated'), ps, 'Membrane.get_permeance')
        ctrm2 = dict(ctrm); ctrm2.pop('Membrane.calculate_activation_energy')
        ps = cx.explore(call(src, 'Membrane.calculate_activation_energy', [comp1], self_obj=mem), contracts=ctrm2, pre=[n >= 1])
        frame(cx, "Membrane.calculate_activation_energy.%s" % ('stated' if stated else 'unstated'), ps, 'Membrane.calculate_activation_energy')
    exps = PList([Obj('IdealExperiment', dict(name='e%d' % i, temperature=var('t%d' % i), component=W.component(src, c), permeance=W.permeance(src, var('p%d' % i)), activation_energy=None, comment=None), owner='external')
                  for i, c in enumerate('121')], owner='external', tag='caller experiment list')
    m2 = W.membrane(src, experiments=Obj('IdealExperiments', dict(experiments=exps), owner='external'))
    ps = cx.explore(call(src, 'Membrane.get_penetrant_data', [comp1], self_obj=m2))
    frame(cx, "Membrane.get_penetrant_data", ps, 'Membrane.get_penetrant_data')
    cx.ob("Membrane.get_penetrant_data.fresh-list", [], blit(all(p.value.f['experiments'] is not exps for p in returns(ps)) and len(exps.items) == 3), kind='frame', function='Membrane.get_penetrant_data')
    # ------------------------------------------------------------------ fits (frames proved in detail in C16; repeated here on the caller's data object)
    ctrf = {'optimize.minimize': c16.minimize_contract, 'PervaporationFunction.from_array': c16.from_array_contract}
    for iz in (False, True):
        data = c16.measurements(src, k=3)
        ps = cx.explore(call(src, 'fit', [], dict(data=data, n=1, m=1, include_zero=iz, component_index=1), inline=True), contracts=ctrf)
        frame(cx, "fit.%s" % ('zero' if iz else 'nozero'), ps, 'fit')
        cx.ob("fit.%s.caller-data-unchanged" % ('zero' if iz else 'nozero'), [], blit(len(data.f['data'].items) == 3), kind='frame', function='fit')
    # measurement extraction
    curve = Obj('DiffusionCurve', dict(mixture=mix, membrane_name='m', feed_temperature=Tt, feed_compositions=fcs, partial_fluxes=fl, permeate_temperature=None, permeate_pressure=None, permeances=pk, comments=None), owner='external')
    for which in ('first', 'second'):
        f = src.find('Measurements.from_diffusion_curve_' + which)
        ps = cx.explore(lambda ex: ex.call_function(f, [curve], {}, cls='Measurements', inline=True), pre=[var('xb') >= 0, var('xb') <= 1, Xf >= 0, Xf <= 1] + W.mixture_pre())
        frame(cx, "Measurements.from_diffusion_curve_" + which, ps, 'Measurements.from_diffusion_curve_' + which)
    cx.assume_note("determinism: every entry point is a function of its argument leaves given the assumed purity of the externals (numpy kernels, scipy optimiser); clock/hash reads only feed `comments` and save paths (opaque in the model)")
    cx.assume_note("repeatability for call histories is the lemma: frame (nothing modified) + pure function => the same call returns the same result whatever ran before")
    cx.assume_note("callee frames are used modularly: a callee under contract is assumed to modify nothing, which is its own frame obligation in this check")


def native_checks(cx, results):
    """bounded stand-in (labelled): random call histories on shared objects under the real interpreter"""
    from ..nativeio import native
    n = 2 if cx.tier == 'quick' else 12
    cases = native(dict(cmd='corpus', prop='C20', seed=getattr(cx, 'seed', 0), n=n))
    out = native(dict(cmd='check', prop='C20', cases=cases), timeout=3000)
    viol = []
    for c, fails in zip(cases, out):
        if fails and not any(str(f).startswith('CHECKER-EXCEPTION') for f in fails):
            viol.append(dict(name="history-replay", prop='C20', status='refuted', native_case=c, native_failures=fails, detail="bounded history replay found a violation",
                             meta=dict(function='call history', statement="shared objects deeply unchanged and results bit-identical to a fresh-state execution")))
            break
    errs = [dict(name='history-replay', detail=str(f)[:500]) for c, fails in zip(cases, out) for f in fails if str(f).startswith('CHECKER-EXCEPTION')][:1]
    cx.bounded.append(dict(function='call histories', bound="%d random call sequences of length 2..12 on shared objects (seeded)" % len(cases), reason="whole-history property: bounded stand-in, not counted as proved"))
    return dict(violations=viol, errors=errs, coverage=dict(history_sequences=len(cases)))


def replay_case(r):
    return None
