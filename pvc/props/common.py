"""helpers shared by the property modules"""
from ..ir import *
from ..symex import explore, Exec, Obj, PList, Seq, Post, Grow, Vec, Opaque, Raised, Path, flatten, Fn
from ..solve import Ob
from ..source import Unsupported
from .. import world as W


class Ctx:
    """collects obligations and bookkeeping for one property run"""
    def __init__(s, src, prop, tier='quick'):
        s.src = src; s.prop = prop; s.tier = tier
        s.obs = []; s.functions = {}; s.assumptions = []; s.bounded = []; s.notes = []; s.paths = 0
        s.exp_log = set(); s.extra_violations = []; s.extra_undecided = []

    def under_contract(s, qual, how="body executed symbolically"):
        f = s.src.find(qual)
        s.functions[qual] = dict(span=s.src.span(f), how=how)
        return f

    def ob(s, name, hyps, goal, expect='unsat', lemmas=(), **meta):
        goal = tob(goal)
        o = Ob(name, [tob(h) for h in hyps], goal, prop=s.prop, expect=expect, meta=meta, lemmas=lemmas)
        if any(x.name == name for x in s.obs): raise Unsupported("duplicate obligation name " + name)
        s.obs.append(o)
        return o

    def validators_always_run(s):
        """Precondition of the attrs constructor contract (DESIGN 5(7)): the process-global validator switch of attrs is never written by
        the package, so every construction runs its validators whatever was called (or raised) before.  No reference in the package ->
        discharged (frame: the switch has no writer).  A reference -> the native probe drives the error and normal exits of every entry
        point and then constructs an out-of-range Composition: accepted -> VIOLATION with that sequence; not reproduced -> UNDECIDED
        (constructions inside a validator-free region are outside the engine's attrs model, so nothing may be claimed)."""
        name = "attrs.validators-always-run"
        stmt = "no code in the package switches the attrs validators off (attr.validators.set_disabled / attr.set_run_validators / validators.disabled()): invariants checked on construction hold after any call history, including calls that raised"
        refs = s.src.attrs_switch_refs()
        if not refs:
            return s.ob(name, [], blit(True), kind='scan', found='[]', statement=stmt)
        from ..nativeio import native
        try:
            out = native(dict(cmd='check', prop='attrsw', cases=[dict()]), timeout=600)
            fails = [f for f in (out[0] if out else [])]
        except Exception as x:
            fails = ["CHECKER-EXCEPTION %s: %s" % (type(x).__name__, x)]
        if fails and not any(str(f).startswith('CHECKER-EXCEPTION') for f in fails):
            s.extra_violations.append(dict(name=name, prop=s.prop, status='refuted', native_failures=fails, backend='scan+native', native_prop='attrsw',
                                           native_case=dict(sequence="pvc.native.attrsw: error exits of every entry point (C19 corpus), normal runs of the process models, then Composition(p=1.5) / Composition(p=-0.2)", references=[list(r) for r in refs]),
                                           detail="the package writes the attrs validator switch at %s and an out-of-range Composition is accepted afterwards" % (refs[:3],),
                                           meta=dict(kind='scan', found=str(refs)[:300], statement=stmt)))
        else:
            s.extra_undecided.append(dict(name=name, detail="the package references the attrs validator switch at %s; the native probe did not reproduce a leaked switch (%s) - validator-free constructions are outside the attrs model" % (refs[:3], fails[:1])))

    def cover(s, name, hyps, **meta):
        """reachability / non-vacuity: the hypotheses must be satisfiable"""
        return s.ob(name + ".cover", hyps, FALSE, expect='sat', kind='cover', **meta)

    def must_fail(s, name, hyps, goal, **meta):
        """sanity: a deliberately wrong goal must be refutable (guards against a vacuous or unsound encoding)"""
        return s.ob(name + ".mustfail", hyps, goal, expect='sat', kind='mustfail', **meta)

    def assume_note(s, text):
        if text not in s.assumptions: s.assumptions.append(text)

    def explore(s, runner, contracts=None, pre=(), **kw):
        ps = explore(s.src, runner, contracts, pre, **kw)
        s.paths += len(ps)
        for p in ps:
            for w in getattr(p.ex, 'ext_writes', []):
                s.__dict__.setdefault('all_ext_writes', set()).add(w[1])
            for st in getattr(p.ex, 'cache_stores', []):
                s.__dict__.setdefault('all_cache_stores', []).append(st)
        return ps

    def cache_coherence(s):
        """stores into per-instance / module-level dicts found on the explored paths (memo caches).  A cache is harmless iff what it
        holds under a key is determined by the key (and, for a per-instance cache, by the other fields of its object): then a later
        hit returns what a fresh computation would.  Obligations (only if there are stores):
          depends-only-on-key   every variable the stored value depends on occurs in the key or in the holder's other fields
          same-key-same-value   two stores (from any two explored configurations) under syntactically equal keys hold equal values
        A failed obligation needs a native reproduction (history-dependent RESULT, checker of C20); without one it is UNDECIDED."""
        stores = getattr(s, 'all_cache_stores', [])
        if not stores: return
        from ..ir import free_vars, ring_equal
        def leaves(v):
            try: return flatten(v)
            except Exception: return []
        def names(v): return set(free_vars(*[x for x in leaves(v) if isinstance(x, T)]))
        bad_dep = []; bad_pair = []
        by_cache = {}
        for st in stores:
            allowed = names(st['key'])
            h = st.get('holder')
            if h is not None:
                for k_, x_ in h.f.items():
                    if x_ is st['cache']: continue
                    allowed |= names(x_)
            extra = sorted(str(n_) for n_ in names(st['value']) - allowed)
            if extra: bad_dep.append((str(st['tag']), extra[:6]))
            by_cache.setdefault((str(st['tag']), st.get('contracts')), []).append(st)          # values are comparable only between explorations that abstract the same callees
        for tag, L in by_cache.items():
            seen = {}
            for st in L:
                kf = tuple(x if not isinstance(x, T) else ('T', x.id) for x in leaves(st['key'])) + (repr([x for x in (st['key'] if isinstance(st['key'], tuple) else (st['key'],)) if isinstance(x, (str, bool, type(None)))]),)
                vf = leaves(st['value'])
                if kf in seen:
                    other = seen[kf]
                    same = len(other) == len(vf) and all((a is b) or (isinstance(a, T) and isinstance(b, T) and _safe_ring_equal(a, b)) for a, b in zip(other, vf))
                    if not same: bad_pair.append(tag[0])
                else: seen[kf] = vf
        fn = None
        s.ob("cache.depends-only-on-key", [], blit(not bad_dep), kind='frame', inductive=True, function=fn, found=str(bad_dep)[:400],
             statement="what a memo cache stores under a key depends only on that key (and on the other fields of the object that owns the cache)")
        s.ob("cache.same-key-same-value", [], blit(not bad_pair), kind='frame', inductive=True, function=fn, found=str(sorted(set(bad_pair)))[:300],
             statement="stores under equal keys, from any two explored configurations, hold equal values")
        s.notes.append(dict(memo_caches=sorted({k_[0] for k_ in by_cache}), stores=len(stores), treatment="a hit returns the stored value (lookup forks on key equality); stored values become external (later writes to them are frame writes)"))

    def no_hidden_state(s, statement=None, function=None):
        """frame lemma for properties that relate the results of SEVERAL calls (or quantify over call histories): none of the paths
        explored by this check writes to an object that outlives the call (arguments, self and what they hold, per-instance caches
        created by attr.ib(factory=...), module-level constants)"""
        w = sorted(getattr(s, 'all_ext_writes', set()))
        s.ob("frame.no-write-to-state-that-outlives-a-call", [], blit(not w), kind='frame', function=function, writes=str(w)[:400], **frame_meta(w),
             statement=statement or "no explored path writes to its arguments, to self or to module-level state: a call cannot influence a later one")

    def requires_obs(s, name, paths):
        """call-site precondition obligations recorded by the executor on the given paths"""
        n = 0
        for pi, p in enumerate(paths):
            for (label, pc, f, meta) in p.ex.requires:
                s.ob("%s.path%d.requires.%s.%d" % (name, pi, label, n), pc, f, kind='requires', **meta); n += 1


def _safe_ring_equal(a, b):
    try:
        from ..ir import ring_equal
        return ring_equal(a, b)
    except Exception:
        return False


def frame_meta(writes):
    """a store into a per-instance / module-level dict is a write to state that outlives the call, but by itself it does not contradict
    a property (a memo keyed by everything the value depends on is harmless): such a refutation needs a native reproduction - results that
    depend on the call history - and is UNDECIDED without one (same policy as counterexamples to induction).  Every other write to an
    argument, to self or to a caller's list contradicts `deeply unchanged` directly."""
    ws = [w if isinstance(w, str) else w[1] for w in writes]
    return dict(inductive=True) if ws and all(x.startswith('cache store') for x in ws) else {}


def need_seq(v, what):
    """a series the property speaks about element-wise must be a list the executor can index generically; another representation is
    `cannot analyse` (exit 3), never a refuted obligation"""
    if isinstance(v, Post):
        from ..symex import post_as_seq
        return post_as_seq(v)          # built by an append loop that reads no earlier element: element j = the value appended by iteration j
    if not isinstance(v, Seq): raise Unsupported("%s is not an element-wise indexable list in the executor (%s)" % (what, type(v).__name__))
    return v


def returns(paths): return [p for p in paths if p.outcome == 'return']
def raises(paths): return [p for p in paths if p.outcome == 'raise']


class _MergedEx:
    """executor record of several merged paths: writes / call-site obligations of all of them"""
    def __init__(s, exs):
        s._first = exs[0]
        s.ext_writes = [w for e in exs for w in e.ext_writes]
        s.requires = [r for e in exs for r in getattr(e, 'requires', [])]
        s.calls = [c for e in exs for c in getattr(e, 'calls', [])]
    def __getattr__(s, k): return getattr(s._first, k)


def _merge_values(guards, vals, what):
    from ..symex import Obj as _Obj
    v0 = vals[0]
    if all(v is v0 for v in vals): return v0
    num = lambda v: isinstance(v, T) or (isinstance(v, (int, float)) and not isinstance(v, bool))
    if all(num(v) for v in vals):
        res = lift(vals[-1])
        for g, v in reversed(list(zip(guards[:-1], vals[:-1]))): res = ite(g, lift(v), res)
        return res
    if all(isinstance(v, _Obj) and v.cls == v0.cls and set(v.f) == set(v0.f) for v in vals):
        o = _Obj(v0.cls, {k: _merge_values(guards, [v.f[k] for v in vals], what) for k in v0.f})
        return o
    if all(isinstance(v, tuple) and len(v) == len(v0) for v in vals):
        return tuple(_merge_values(guards, [v[i] for v in vals], what) for i in range(len(v0)))
    if all(type(v) is type(v0) and not isinstance(v, (T, _Obj, tuple)) and v == v0 for v in vals): return v0
    raise Unsupported("expected exactly one normal path for %s, found %d (results of different shapes cannot be merged)" % (what, len(vals)))


def only_return(paths, what=""):
    """the single normal path; several normal paths (a branch the analysed function takes on its inputs) are merged into one path
    whose result is the case distinction ite(guard_i, value_i) and whose condition is the common prefix + the disjunction of the guards"""
    r = returns(paths)
    if len(r) == 1: return r[0]
    if not r or len(r) > 8: raise Unsupported("expected exactly one normal path for %s, found %d" % (what, len(r)))
    from ..symex import Path as _Path
    n = 0
    while all(len(p.pc) > n for p in r) and all(p.pc[n] is r[0].pc[n] for p in r): n += 1
    guards = [band(*p.pc[n:]) for p in r]
    val = _merge_values(guards, [p.value for p in r], what)
    return _Path(list(r[0].pc[:n]) + [bor(*guards)], 'return', val, _MergedEx([p.ex for p in r]))


def call(src, qual, args=(), kwargs=None, self_obj=None, inline=True):
    f = src.find(qual)
    def run(ex): return ex.call_function(f, list(args), dict(kwargs or {}), self_obj=self_obj, inline=inline)
    return run


def pos(*ts): return [cmp('>', lift(t), 0) for t in ts]


def no_abnormal(cx, name, paths, pre=(), **meta):
    """the real-number model follows every feasible execution: each recorded abnormal exit (division by zero, log of a
    non-positive number) must be infeasible under the precondition"""
    n = 0
    for pi, p in enumerate(paths):
        for (pc, why) in p.ex.abnormal:
            cx.ob("%s.defined.%d" % (name, n), list(pre) + list(pc), FALSE, kind='definedness', why=why, **meta); n += 1
    return n


def outcome_set(paths): return sorted({(p.outcome, p.value if p.outcome == 'raise' else None) for p in paths})


def all_raise(cx, name, paths, classes=('ValueError',), **meta):
    """exceptional postcondition: under the given precondition no path returns normally (path enumeration, solver-pruned)"""
    ok = len(paths) >= 1 and all(p.outcome == 'raise' and p.value in classes for p in paths)
    detail = "; ".join("%s %s" % (p.outcome, p.value if p.outcome == 'raise' else '') for p in paths)
    return cx.ob(name, [], blit(ok), kind='paths', outcomes=detail, **meta)


def none_raise(cx, name, paths, **meta):
    ok = len(paths) >= 1 and all(p.outcome == 'return' for p in paths)
    detail = "; ".join("%s %s" % (p.outcome, p.value if p.outcome == 'raise' else '') for p in paths)
    return cx.ob(name, [], blit(ok), kind='paths', outcomes=detail, **meta)
