"""C02 - returned fluxes obey the solution-diffusion law at a self-consistent permeate (DESIGN 3, C02)"""
from .common import *
from ..contracts import flux as CF, thermo
from ..loops import segments, Head
from ..nativeio import differential

ID = "C02"
FRAME_SENSITIVE = True        # the statement relates several calls / call histories: a certain write to state that outlives a call is a violation even where the engine cannot follow its effect
MIN_OBLIGATIONS = 40
GPF = 'Pervaporation.get_partial_fluxes_from_permeate_composition'
CPF = 'Pervaporation.calculate_partial_fluxes'
MODES = ('vacuum', 'temperature', 'pressure')
Tt, Xf, Y, D_, PREC, TP, PP, P1, P2 = var('T'), var('x'), var('y'), var('d'), var('prec'), var('Tp'), var('pp'), var('P1'), var('P2')


def mode_args(mode):
    return (TP if mode == 'temperature' else None, PP if mode == 'pressure' else None)


def pv_obj(src, mix=None, experiments=None):
    return W.mk(src, 'Pervaporation', tag='pervaporation', membrane=W.membrane(src, experiments=experiments), mixture=mix or W.mixture(src))


def cpf_bind(src, pv, mode, model, given=True, feed_type='weight', P=(P1, P2), feed=None, mix=None, units='kg/(m2*h*kPa)'):
    Tp, pp = mode_args(mode)
    f = src.find(CPF)
    kw = dict(feed_temperature=Tt, composition=feed or W.composition(src, Xf, feed_type), precision=PREC, permeate_temperature=Tp, permeate_pressure=pp,
              first_component_permeance=W.permeance(src, P[0], units) if given else None, second_component_permeance=W.permeance(src, P[1], units) if given else None,
              calculation_type=model)
    def bind(ex):
        env = ex.bind(f, [], kw, self_obj=pv)
        return env
    return f, bind, kw


def havoc(src, y=Y, d=D_, it=None):
    it = it if it is not None else var('it', 'I')
    def h(ex, env, carried):
        env['permeate_composition'] = Obj('Composition', dict(p=y, type='weight'))
        env['d'] = d
        if 'iterations' in carried: env['iterations'] = it
        env.pop('permeate_composition_new', None)
        ex.assume(band(y >= 0, y <= 1), 'class invariant of the permeate Composition at the loop head')
        if 'iterations' in carried: ex.assume(it >= 0, 'iteration counter')
    return h


BASE = [Tt > 0, TP > 0, P1 >= 0, P2 >= 0, Xf >= 0, Xf <= 1] + W.mixture_pre()      # class invariants of the inputs


def obligations(cx):
    src = cx.src
    cx.under_contract(GPF); cx.under_contract(CPF); cx.under_contract('get_permeate_composition_from_fluxes')
    ctr = {'get_partial_pressures': CF.gpp_contract, 'Membrane.get_permeance': CF.get_permeance_contract}
    for model in ('NRTL', 'UNIQUAC'):
        mix = W.mixture(src); pv = pv_obj(src, mix)
        feed = W.composition(src, Xf, 'weight'); yc = W.composition(src, Y, 'weight')
        # -------------------------------------------------------------- GPF against the law
        for mode in MODES:
            Tp, pp = mode_args(mode)
            tag = "gpf.%s.%s" % (model, mode)
            kw = dict(first_component_permeance=W.permeance(src, P1), second_component_permeance=W.permeance(src, P2), permeate_composition=yc,
                      feed_composition=feed, feed_temperature=Tt, permeate_temperature=Tp, permeate_pressure=pp, calculation_type=model)
            ps = cx.explore(call(src, GPF, [], kw, self_obj=pv), contracts=ctr, pre=BASE + [Y >= 0, Y <= 1])
            none_raise(cx, tag + ".returns", ps, function=GPF)
            r = only_return(ps, GPF)
            want = CF.F(mix, P1, P2, yc, feed, Tt, Tp, pp, model)
            cx.ob(tag + ".law", r.pc, band(eq(r.value[0], want[0]), eq(r.value[1], want[1])), function=GPF,
                  statement="flux_i = permeance_i * (feed partial pressure_i - permeate-side partial pressure_i)")
            if r.ex.ext_writes: cx.ob(tag + ".frame", [], FALSE, kind='frame', function=GPF)
        # -------------------------------------------------------------- CPF: loop cut, invariant, exit
        for mode in MODES:
            for given in (True, False):
                Tp, pp = mode_args(mode)
                tag = "cpf.%s.%s.%s" % (model, mode, 'given' if given else 'default')
                f, bind, kw = cpf_bind(src, pv, mode, model, given)
                pp_, hp, carried = segments(cx, f, bind, havoc(src), contracts=ctr, pre=BASE + [PREC > 0])
                cx.requires_obs(tag, pp_ + hp)
                if given: Pa, Pb = P1, P2
                else:
                    Pa = CF.get_permeance_contract(Exec(src), dict(temperature=Tt, component=mix.f['first_component'], self=pv.f['membrane'])).f['value']
                    Pb = CF.get_permeance_contract(Exec(src), dict(temperature=Tt, component=mix.f['second_component'], self=pv.f['membrane'])).f['value']
                Fy = CF.F(mix, Pa, Pb, yc, feed, Tt, Tp, pp, model)
                G = Fy[0] / (Fy[0] + Fy[1])
                heads0 = [p for p in pp_ if p.outcome == 'return' and isinstance(p.value, Head)]
                cx.ob(tag + ".prefix.reaches-loop", [], blit(len(heads0) >= 1 and all(isinstance(p.value, Head) for p in returns(pp_))), kind='paths', function=CPF)
                for i, p in enumerate(heads0):
                    e = p.value.env
                    y0 = e['permeate_composition']
                    # initiation: first iterate is a weight Composition in [0,1], d = 1, permeances are the stated ones
                    cx.ob(tag + ".init%d.state" % i, p.pc, band(blit(isinstance(y0, Obj) and y0.cls == 'Composition' and y0.f['type'] == 'weight'),
                          y0.f['p'] >= 0, y0.f['p'] <= 1, eq(lift(e['d']), 1)), function=CPF, statement="loop invariant holds on entry")
                    pf = thermo.gpp_apps(Tt, mix, feed, model)
                    cx.ob(tag + ".init%d.first-iterate" % i, p.pc, eq(y0.f['p'], Pa * pf[0] / (Pa * pf[0] + Pb * pf[1])), function=CPF,
                          statement="initial permeate composition = composition of permeance x feed partial pressure (vacuum fluxes)")
                    if 'iterations' in carried: cx.ob(tag + ".init%d.counter" % i, p.pc, eq(lift(e['iterations']), 0), function=CPF)
                iters = [p for p in hp if p.outcome == 'return' and isinstance(p.value, Head)]
                exits = [p for p in hp if p.outcome == 'return' and not isinstance(p.value, Head) and hasattr(p.ex, 'mark')]
                cx.ob(tag + ".head.paths", [], blit(len(iters) >= 1 and len(exits) >= 1), kind='paths', function=CPF)
                for i, p in enumerate(iters):
                    e = p.value.env; yn = e['permeate_composition']
                    cx.ob(tag + ".iter%d.preserves-invariant" % i, p.pc, inductive=True, goal=band(blit(isinstance(yn, Obj) and yn.cls == 'Composition' and yn.f['type'] == 'weight'),
                          yn.f['p'] >= 0, yn.f['p'] <= 1), function=CPF)
                    cx.ob(tag + ".iter%d.next-iterate=G(y)" % i, p.pc, eq(yn.f['p'], G), function=CPF,
                          statement="one iteration maps y to the composition of the solution-diffusion fluxes evaluated at y")
                    cx.ob(tag + ".iter%d.d=|y'-y|" % i, p.pc, eq(lift(e['d']), tabs(yn.f['p'] - Y)), function=CPF,
                          statement="d is the change of the permeate composition in this iteration")
                    cx.ob(tag + ".iter%d.entered-only-if-d>=precision" % i, p.pc, D_ >= PREC, function=CPF)
                    cx.cover(tag + ".iter%d" % i, p.pc)
                for i, p in enumerate(exits):
                    cx.ob(tag + ".exit%d.result=F(y*)" % i, p.pc, band(eq(p.value[0], Fy[0]), eq(p.value[1], Fy[1])), function=CPF,
                          statement="returned fluxes = permeance x (feed pressure - permeate-side pressure at the final iterate y*)")
                    cx.ob(tag + ".exit%d.only-if-d<precision" % i, p.pc, D_ < PREC, function=CPF)
                    cx.cover(tag + ".exit%d" % i, p.pc)
                    if i == 0 and mode == 'pressure':
                        cx.must_fail(tag + ".exit", p.pc + [PP > 0, Y > 0, Y < 1, P1 > 0], eq(p.value[0], Fy[0] + Pa * PP * Y))
                for p in pp_ + hp:
                    if p.ex.ext_writes: cx.ob(tag + ".frame.%d" % id(p), [], FALSE, kind='frame', function=CPF, writes=str(p.ex.ext_writes[:2]))
        # -------------------------------------------------------------- lemmas over the contracts
        pf = thermo.gpp_apps(Tt, mix, feed, model)
        Fv = CF.F(mix, P1, P2, yc, feed, Tt, None, None, model)
        cx.ob("lemma.%s.vacuum" % model, [], band(eq(Fv[0], P1 * pf[0]), eq(Fv[1], P2 * pf[1])), kind='lemma', statement="no permeate condition: flux = permeance x feed partial pressure")
        Fp = CF.F(mix, P1, P2, yc, feed, Tt, None, PP, model)
        cx.ob("lemma.%s.zero-pressure" % model, [eq(PP, 0)], band(eq(Fp[0], P1 * pf[0]), eq(Fp[1], P2 * pf[1])), kind='lemma', statement="permeate pressure 0: flux = permeance x feed partial pressure")
        cx.ob("lemma.%s.pressure-identity" % model, [P1 > 0, P2 > 0], eq(Fp[0] / P1 + Fp[1] / P2, pf[0] + pf[1] - PP), kind='lemma',
              statement="fixed permeate pressure p: flux1/permeance1 + flux2/permeance2 = p_feed1 + p_feed2 - p")
        cx.must_fail("lemma.%s.pressure-identity" % model, [P1 > 0, P2 > 0, PP > 0], eq(Fp[0] / P1 + Fp[1] / P2, pf[0] + pf[1]))
    # engine == CPython on the flux law with everything inlined (get_partial_pressures, activity coefficients, vapour pressures)
    for model in ('NRTL', 'UNIQUAC'):
        for mode in MODES:
            Tp, pp = mode_args(mode)
            mixd = W.mixture(src); pvd = pv_obj(src, mixd)
            kwd = dict(first_component_permeance=W.permeance(src, P1), second_component_permeance=W.permeance(src, P2), permeate_composition=W.composition(src, Y, 'weight'),
                       feed_composition=W.composition(src, Xf, 'weight'), feed_temperature=Tt, permeate_temperature=Tp, permeate_pressure=pp, calculation_type=model)
            psd = cx.explore(call(src, GPF, [], kwd, self_obj=pvd), pre=BASE + [Y > 0, Y < 1, Xf > 0, Xf < 1] + W.positive('r1', 'r2', 'q1', 'q2', 'qi1', 'qi2'))
            from .c04 import RG
            rg = dict(RG); rg.update({'x': (0.05, 0.95), 'y': (0.05, 0.95), 'Tp': (250.0, 300.0), 'pp': (0.0, 3.0), 'P1': (1e-4, 1e-1), 'P2': (1e-5, 1e-2)})
            differential(cx, GPF, pvd, [], kwd, psd, rg, n=6 if cx.tier == 'quick' else 60, label="%s/%s" % (model, mode))
    # self-consistency: y* = G(y_prev), |y* - y_prev| < prec, G non-expansive between them  =>  |G(y*) - y*| < prec
    ys, yp, Gs, Gp = var('ystar'), var('yprev'), var('G_ystar'), var('G_yprev')
    cx.ob("lemma.self-consistent-within-precision", [eq(ys, Gp), tabs(ys - yp) < PREC, tabs(Gs - Gp) <= tabs(ys - yp)], tabs(Gs - ys) < PREC, kind='lemma',
          statement="if the iteration map is non-expansive between the last two iterates, the composition of the returned fluxes agrees with the permeate composition used to within the precision")
    # -------------------------------------------------------------- scaling of both permeances by k (lock-step over the loop)
    from . import lockstep
    lockstep.scale_lemma(cx, ctr)
    cx.assume_note("hypothesis of the statement: local non-expansiveness of the iteration map (C02c); termination is C10")
    cx.assume_note("get_partial_pressures and Membrane.get_permeance by contract (pure functions of their argument leaves); class invariants of the inputs (0<=x<=1, permeance >= 0)")
    cx.no_hidden_state(function='Pervaporation.calculate_partial_fluxes')



def replay_case(r):
    m = dict(r.get('model') or {})
    mode = 'temperature' if '.temperature' in r['name'] else 'pressure' if '.pressure' in r['name'] else 'vacuum'
    return dict(mode=mode, model='UNIQUAC' if 'UNIQUAC' in r['name'] else 'NRTL', env=m)
