"""maps an obligation name (configuration tag) + solver model to a native process case (pvc/native/procs.py)"""
import re


def case_from(name, m):
    tag = name.split('.path')[0]
    parts = tag.split('.')
    func = parts[0] + '_process'
    c = dict(func=func)
    c['mode'] = 'temperature' if 'temperature' in parts else 'pressure' if 'pressure' in parts else 'both' if 'both' in parts else 'vacuum'
    c['program'] = 'program' in parts
    c['comp_type'] = 'molar' if 'molar-feed' in parts else 'weight'
    c['curves'] = 'many' if 'many-curve' in parts else 'one'
    c['initial'] = 'initial-permeances' in parts
    c['model'] = 'UNIQUAC' if 'UNIQUAC' in parts else 'NRTL'
    for k in ('A', 'm0', 'T0', 'x0', 'dt', 'Tp', 'pp', 'prec', 'Tc', 'Pi1', 'Pi2'):
        if isinstance(m.get(k), (int, float)): c[k] = m[k]
    if isinstance(m.get('N'), (int, float)): c['N'] = int(m['N'])
    c['sanitize'] = True
    if 'molar-curves' in parts: c['curve_type'] = 'molar'
    cases = [c]
    if c['curves'] == 'one' and not func.startswith('ideal'):
        c2 = dict(c); c2['T0'] = c2['Tc'] = c.get('Tc', 323.15); cases.append(c2)          # the branch `curve temperature == initial feed temperature`
    return cases
