"""C06 - results do not depend on which component is called first (DESIGN 3, C06)"""
from .common import *
from . import procs, c02 as C2, lockstep
from .c03 import sub_value
from ..contracts import flux as CF, thermo, process as CP
from ..symex import explore_thunk

ID = "C06"
FRAME_SENSITIVE = True        # the statement relates several calls / call histories: a certain write to state that outlives a call is a violation even where the engine cannot follow its effect
MIN_OBLIGATIONS = 120
TIMEOUT = dict(quick=180, thorough=900)
X, Tt = var('x1'), var('T')


def swap_lemma(name1, name2, LA, LB, premise_of):
    """relational lemma applied by rewriting (DESIGN 2.5): applications of a callee on the relabelled mixture (leaf segment LB)
    equal the exchanged applications on the original mixture (leaf segment LA), once the argument relation is discharged"""
    def lem(apps):
        out = []
        def seg(a, L):
            args = a.a[1:]
            for s0 in range(len(args) - len(L) + 1):
                if all(args[s0 + i] is L[i] for i in range(len(L))): return s0
            return None
        A = [(a, seg(a, LA)) for a in apps if a.a[0] in (name1, name2)]
        Bs = [(a, seg(a, LB)) for a in apps if a.a[0] in (name1, name2)]
        for a, sa in A:
            if sa is None or a.a[0] != name1: continue
            for b, sb in Bs:
                if sb is None or b.a[0] != name2 or sa != sb or len(a.a) != len(b.a): continue
                rest_a = list(a.a[1:1 + sa]) + list(a.a[1 + sa + len(LA):]); rest_b = list(b.a[1:1 + sb]) + list(b.a[1 + sb + len(LB):])
                prem = premise_of(rest_a, rest_b)
                if prem is None: continue
                out.append((prem, [(b, a)], "%s(relabelled) = %s(original)" % (name2, name1)))
        return out
    return lem


def gpp_premise(ra, rb):
    # leaves outside the mixture segment: [T] ... [p, type-tag, model-tag]
    if len(ra) != 4: return None
    if ra[2] is not rb[2] or ra[3] is not rb[3]: return None
    return band(eq(ra[0], rb[0]), eq(rb[1], 1 - ra[1]))


def cpf_premise(ra, rb):
    # [T, p, type, prec, Tp|tag, pp|tag, (P1.value, units-tag, P2.value, units-tag | tag, tag), model]  + optional membrane leaves after the mixture segment
    if len(ra) != len(rb): return None
    n = len(ra)
    conj = []
    # positions: 0 T, 1 p, 2 type, 3 prec, 4 Tp, 5 pp, then permeances, then model, then membrane leaves
    if ra[2] is not rb[2]: return None
    conj += [eq(ra[0], rb[0]), eq(rb[1], 1 - ra[1]), eq(ra[3], rb[3]), eq(ra[4], rb[4]), eq(ra[5], rb[5])]
    rest_a, rest_b = ra[6:], rb[6:]
    if len(rest_a) >= 5 and rest_a[1] is rest_b[3] and rest_a[3] is rest_b[1]:          # permeances given: (v1,u1,v2,u2)
        conj += [eq(rest_a[0], rest_b[2]), eq(rest_a[2], rest_b[0])]
        tail_a, tail_b = rest_a[4:], rest_b[4:]
    else:
        tail_a, tail_b = rest_a[2:], rest_b[2:]
        if rest_a[0] is not rest_b[0] or rest_a[1] is not rest_b[1]: return None
    if len(tail_a) != len(tail_b) or any(x is not y for x, y in zip(tail_a, tail_b)): return None
    return band(*conj)


def obligations(cx):
    src = cx.src
    fn = 'calculate_activity_coefficients'; gp = 'get_partial_pressures'
    cx.under_contract(fn); cx.under_contract(gp); cx.under_contract(C2.CPF)
    for f in procs.FUNCS[:2]: cx.under_contract('Pervaporation.' + f)
    base = [X > 0, X < 1, Tt > 0] + W.mixture_pre()
    upos = W.positive('r1', 'r2', 'q1', 'q2', 'qi1', 'qi2')
    # ------------------------------------------------------------------ thermodynamics: gamma and partial pressures
    for model, nrs in (('NRTL', ('one', 'two')), ('UNIQUAC', ('one',))):
        for nr in nrs:
            for typ in ('molar', 'weight'):
                ma = W.mixture(src, nr=nr, vp=('antoine', 'frost')); mb = W.mixture(src, nr=nr, swapped=True, vp=('antoine', 'frost'))
                tag = "%s%s.%s" % (model, '.two-alpha' if nr == 'two' else '', typ)
                pre = base + (upos if model == 'UNIQUAC' else [])
                for q, label in ((fn, 'gamma'), (gp, 'pressures')):
                    pas = returns(cx.explore(call(src, q, [], dict(temperature=Tt, mixture=ma, composition=W.composition(src, X, typ), calculation_type=model)), pre=pre))
                    pbs = returns(cx.explore(call(src, q, [], dict(temperature=Tt, mixture=mb, composition=W.composition(src, 1 - X, typ), calculation_type=model)), pre=pre))
                    cx.ob("%s.%s.paths" % (label, tag), [], blit(len(pas) >= 1 and len(pbs) >= 1), kind='paths', function=q)
                    for ai, ra in enumerate(pas):          # one path each on the current tree; every jointly feasible pair must agree
                        for bi, rb in enumerate(pbs):
                            cx.ob("%s.%s.swap" % (label, tag) + ("" if ai + bi == 0 else ".paths%d-%d" % (ai, bi)), ra.pc + rb.pc, band(eq(rb.value[0], ra.value[1]), eq(rb.value[1], ra.value[0])), function=q,
                                  statement="exchanging the components (parameters, p -> 1-p) exchanges the %s" % ('activity coefficients' if label == 'gamma' else 'partial pressures'),
                                  ranges={'x1': (0.1, 0.9), 'al12': (0.0, 0.6), 'al21': (0.0, 0.6)})
                    ra, rb = pas[0], pbs[0]
                if model == 'NRTL' and typ == 'molar':
                    cx.must_fail("gamma.%s" % tag, ra.pc + rb.pc, band(eq(rb.value[0], ra.value[0]), eq(rb.value[1], ra.value[1])))
    # K1 fingerprint for C06: the only asymmetry of the UNIQUAC code is the documented wrong bracket (same finding as C04)
    ma = W.mixture(src); mb = W.mixture(src, swapped=True)
    ra = only_return(cx.explore(call(src, fn, [], dict(temperature=Tt, mixture=ma, composition=W.composition(src, X, 'molar'), calculation_type='UNIQUAC')), pre=base + upos), fn)
    rb = only_return(cx.explore(call(src, fn, [], dict(temperature=Tt, mixture=mb, composition=W.composition(src, 1 - X, 'molar'), calculation_type='UNIQUAC')), pre=base + upos), fn)
    from . import c04
    l1a, l2a = c04.lngamma(ra.value); l1b, l2b = c04.lngamma(rb.value)
    c1a, r1a = c04.split_by_tau(l1a); c2a, r2a = c04.split_by_tau(l2a); c1b, r1b = c04.split_by_tau(l1b); c2b, r2b = c04.split_by_tau(l2b)
    cx.ob("gamma.UNIQUAC.fingerprint.K1.combinatorial-symmetric", ra.pc + rb.pc, band(eq(c1b, c2a), eq(c2b, c1a)), kind='fingerprint', finding='K1', function=fn)
    # the residual term of gamma_1 is the correct Abrams-Prausnitz one (C04 fingerprint proves (S1, W2)); here: gamma_1 of the relabelled mixture is a
    # correct gamma_2 of the original: r1b == S2(original).  Together with C04's fingerprint this pins the asymmetry to the documented bracket.
    taus = collect([l1a, l2a], lambda n: isinstance(n, T) and n.op == 'exp')
    if len(taus) == 2:
        gen = {('#', taus[0].id): var('tauA'), ('#', taus[1].id): var('tauB')}
        tpos = [var('tauA') > 0, var('tauB') > 0]
        S1, S2, W2 = thermo.uniquac_residual_reference(X, var('qi1'), var('qi2'), var('tauA'), var('tauB'))
        S1b, S2b, W2b = thermo.uniquac_residual_reference(X, var('qi1'), var('qi2'), var('tauB'), var('tauA'))
        r1b_g = subst(r1b, gen)
        cx.ob("gamma.UNIQUAC.fingerprint.K1.relabelled-gamma1-is-correct-gamma2", [subst(c, gen) for c in ra.pc + rb.pc] + tpos, bor(eq(r1b_g, S2), eq(r1b_g, S2b)), kind='fingerprint', finding='K1', function=fn,
              statement="gamma_1 of the relabelled mixture is the Abrams-Prausnitz gamma_2 of the original: the asymmetry comes only from the documented wrong bracket of gamma_2")
    # ------------------------------------------------------------------ flux solver: lock-step swap over the loop (get_partial_pressures by contract + its swap lemma)
    ctr = {'get_partial_pressures': CF.gpp_contract, 'Membrane.get_permeance': CF.get_permeance_contract}
    for mode, given, units in [(mo, g, 'kg/(m2*h*kPa)') for mo in C2.MODES for g in (True, False)] + [('vacuum', True, 'SI'), ('temperature', True, 'GPU')]:
        if True:
            # explicit permeances stated in other units: whatever the solver does with the unit label, it must do it to both components alike
            ma = W.mixture(src); mb = W.mixture(src, swapped=True)
            pva = C2.pv_obj(src, ma, experiments=Opaque('experiments')); pvb = C2.pv_obj(src, mb, experiments=Opaque('experiments'))
            fa, ba, _ = C2.cpf_bind(src, pva, mode, 'NRTL', given, P=(C2.P1, C2.P2), feed=W.composition(src, C2.Xf, 'weight'), units=units)
            fb, bb, _ = C2.cpf_bind(src, pvb, mode, 'NRTL', given, P=(C2.P2, C2.P1), feed=W.composition(src, 1 - C2.Xf, 'weight'), units=units)
            LA, LB = flatten(ma), flatten(mb)
            lems = [swap_lemma('pp1', 'pp2', LA, LB, gpp_premise), swap_lemma('pp2', 'pp1', LA, LB, gpp_premise)]
            ya, yb, da, db = var('y_a'), var('y_b'), var('d_a'), var('d_b')
            lockstep.run_pair(cx, "solver.%s.%s%s" % (mode, 'given' if given else 'default', '' if units.startswith('kg') else '.' + units), (fa, ba), (fb, bb), band(eq(yb, 1 - ya), eq(db, da)),
                              lambda r1, r2: band(eq(r2[0], r1[1]), eq(r2[1], r1[0])), ctr, C2.BASE + [C2.PREC > 0], lemmas=lems)
    # ------------------------------------------------------------------ ideal processes: step specs with the roles exchanged
    A_, DT = procs.A_, procs.DT
    for f in procs.FUNCS[:2]:
        iso = 'non_isothermal' not in f
        for mode in ('vacuum', 'temperature', 'pressure'):
            for prog in ((False,) if iso else (False, True)):
                ca = procs.Config(f, mode, prog); cb = procs.Config(f, mode, prog, swapped=True)
                pva, kwa, psa = procs.run(cx, ca); pvb, kwb, psb = procs.run(cx, cb)
                sa = procs.normal_steps(psa); sb = procs.normal_steps(psb)
                tag = "process." + ca.tag()
                cx.ob(tag + ".paths", [], blit(len(sa) == 1 and len(sb) == 1), kind='paths', function='Pervaporation.' + f)
                if not (len(sa) == 1 and len(sb) == 1): continue
                a, b = sa[0], sb[0]
                xa = a.read('feed_composition', 0).f['p']
                # coupling of the states at step k: x_b = 1 - x_a (read variables are shared by name: m_b = m_a, T_b = T_a), x0_b = 1 - x0_a
                cpl = {xa.a[0]: 1 - xa, 'x0': 1 - procs.X0}
                LA, LB = flatten(pva.f['mixture']), flatten(pvb.f['mixture'])
                lems = [swap_lemma('cpf1', 'cpf2', LA, LB, cpf_premise), swap_lemma('cpf2', 'cpf1', LA, LB, cpf_premise)]
                hy = a.pc + [subst(c, cpl) for c in b.pc]
                Ja = a.appended('partial_fluxes'); Jb = sub_value(b.appended('partial_fluxes'), cpl)
                cx.ob(tag + ".fluxes-exchanged", hy, band(eq(Jb[0], Ja[1]), eq(Jb[1], Ja[0])), lemmas=lems, function='Pervaporation.' + f,
                      statement="relabelled run: the fluxes of step k are exchanged (solver swap lemma applied to the step's call)")
                def same(name, statement, flip=False):
                    va = a.appended(name); vb = sub_value(b.appended(name), cpl)
                    la = va.f['p'] if isinstance(va, Obj) else va; lb = vb.f['p'] if isinstance(vb, Obj) else vb
                    if la is None or lb is None:
                        cx.ob("%s.%s" % (tag, name), [], blit(la is None and lb is None), kind='paths', function='Pervaporation.' + f); return
                    cx.ob("%s.%s" % (tag, name), hy, eq(lb, 1 - la) if flip else eq(lb, la), lemmas=lems, function='Pervaporation.' + f, statement=statement)
                same('feed_mass', "relabelled run: same feed mass at step k+1")
                same('feed_composition', "relabelled run: feed fraction of step k+1 is 1 - x", flip=True)
                same('permeate_composition', "relabelled run: permeate fraction is 1 - y", flip=True)
                same('feed_evaporation_heat', "relabelled run: same evaporation heat")
                same('permeate_condensation_heat', "relabelled run: same condensation heat")
                if not iso: same('feed_temperature', "relabelled run: same feed temperature at step k+1")
                ia = a.init('feed_composition')[0].f['p']; ib = subst(b.init('feed_composition')[0].f['p'], cpl)
                cx.ob(tag + ".init", hy, eq(ib, 1 - ia), function='Pervaporation.' + f, statement="relabelled run starts at 1 - x0")
    # ------------------------------------------------------------------ diffusion curve built from fluxes: the inversion exchanges the permeances
    # (ideal_diffusion_curve = element-wise solver calls (C08) + this constructor; the solver swap lemma covers the fluxes, this block the permeances
    #  and hence the selectivity the curve derives from them)
    PI = 'DiffusionCurve.__attrs_post_init__'
    cx.functions[PI] = dict(span=src.span(src.find(PI)), how="body executed symbolically on the original and on the relabelled mixture")
    n = var('n', 'I'); j = var('jj', 'I')
    ctrd = {'get_partial_pressures': CF.gpp_contract, '__class_invariants__': CP.CLASS_INVARIANTS}
    for mode in C2.MODES:
        Tp, pp = C2.mode_args(mode)
        ma = W.mixture(src); mb = W.mixture(src, swapped=True)
        fca = Seq(n, lambda i: Obj('Composition', dict(p=app('xf', lift(i)), type='weight'), owner='external'), owner='external', tag=('xf', 'a'))
        fcb = Seq(n, lambda i: Obj('Composition', dict(p=1 - app('xf', lift(i)), type='weight'), owner='external'), owner='external', tag=('xf', 'b'))
        fla = Seq(n, lambda i: (app('J1', lift(i)), app('J2', lift(i))), owner='external', tag=('J', 'a'))
        flb = Seq(n, lambda i: (app('J2', lift(i)), app('J1', lift(i))), owner='external', tag=('J', 'b'))
        based = [n >= 1, C2.Tt > 0, C2.TP > 0, C2.PP >= 0] + W.mixture_pre()
        hypj = [j >= 0, j < n, app('xf', j) >= 0, app('xf', j) <= 1]
        def build(mix, fc, fl):
            return lambda ex: ex.construct('DiffusionCurve', [], dict(mixture=mix, membrane_name='m', feed_temperature=C2.Tt, feed_compositions=fc, partial_fluxes=fl,
                                                                      permeate_temperature=Tp, permeate_pressure=pp, permeances=None))
        def element(r):
            v = r.value.f['permeances']
            if not isinstance(v, Seq): raise Unsupported("curve permeances are not built element-wise")
            return returns(explore_thunk(r.ex, lambda: r.ex.seq_get(v, j), list(r.pc) + hypj))
        ras = returns(cx.explore(build(ma, fca, fla), contracts=ctrd, pre=based)); rbs = returns(cx.explore(build(mb, fcb, flb), contracts=ctrd, pre=based))
        tag = "curve-from-fluxes.%s" % mode
        cx.ob(tag + ".paths", [], blit(len(ras) >= 1 and len(rbs) >= 1), kind='paths', function=PI)
        LA, LB = flatten(ma), flatten(mb)
        lems = [swap_lemma('pp1', 'pp2', LA, LB, gpp_premise), swap_lemma('pp2', 'pp1', LA, LB, gpp_premise)]
        for ai, ra_ in enumerate(ras):
            for bi, rb_ in enumerate(rbs):
                for qa_i, qa in enumerate(element(ra_)):
                    for qb_i, qb in enumerate(element(rb_)):
                        ka, kb = qa.value, qb.value
                        cx.ob("%s.permeances-exchanged.%d-%d-%d-%d" % (tag, ai, bi, qa_i, qb_i), qa.pc + qb.pc,
                              band(eq(kb[0].f['value'], ka[1].f['value']), eq(kb[1].f['value'], ka[0].f['value']), blit(kb[0].f['units'] == ka[1].f['units'] and kb[1].f['units'] == ka[0].f['units'])),
                              lemmas=lems, function=PI,
                              statement="a curve built from the exchanged fluxes on the relabelled mixture reports the exchanged permeances (so its selectivity inverts), in every permeate mode")
                        if ai + bi + qa_i + qb_i == 0:
                            cx.must_fail(tag + ".permeances-not-exchanged", qa.pc + qb.pc, band(eq(kb[0].f['value'], ka[0].f['value']), eq(kb[1].f['value'], ka[1].f['value'])))
    # ------------------------------------------------------------------ derived metrics invert
    mixa = W.mixture(src); mixb = W.mixture(src, swapped=True)
    pva = C2.pv_obj(src, mixa, experiments=Opaque('experiments')); pvb = C2.pv_obj(src, mixb, experiments=Opaque('experiments'))
    ctrc = {'Pervaporation.calculate_partial_fluxes': CF.cpf_contract, '__class_invariants__': CP.CLASS_INVARIANTS}
    name = 'Pervaporation.calculate_separation_factor'; cx.under_contract(name)
    for mode in C2.MODES:
        Tp, pp = C2.mode_args(mode)
        ra = returns(cx.explore(call(src, name, [], dict(feed_temperature=C2.Tt, composition=W.composition(src, C2.Xf, 'weight'), permeate_temperature=Tp, permeate_pressure=pp, precision=C2.PREC), self_obj=pva), contracts=ctrc, pre=C2.BASE + [C2.Xf > 0, C2.Xf < 1]))
        rb = returns(cx.explore(call(src, name, [], dict(feed_temperature=C2.Tt, composition=W.composition(src, 1 - C2.Xf, 'weight'), permeate_temperature=Tp, permeate_pressure=pp, precision=C2.PREC), self_obj=pvb), contracts=ctrc, pre=C2.BASE + [C2.Xf > 0, C2.Xf < 1]))
        LA, LB = flatten(mixa), flatten(mixb)
        lems = [swap_lemma('cpf1', 'cpf2', LA, LB, cpf_premise), swap_lemma('cpf2', 'cpf1', LA, LB, cpf_premise)]
        if ra and rb:
            cx.ob("metric.separation-factor.%s.inverts" % mode, ra[0].pc + rb[0].pc, eq(rb[0].value * ra[0].value, 1), lemmas=lems, function=name,
                  statement="separation factor of the relabelled mixture is the reciprocal")
        cx.ob("metric.separation-factor.%s.paths" % mode, [], blit(bool(ra) and bool(rb)), kind='paths', function=name)
    # ideal selectivity of the membrane inverts
    def gpc(ex, b):
        v = app('perm', b['temperature'], *flatten(b['component'].f['name'])); ex.assume(v >= 0, 'class invariant'); return Obj('Permeance', dict(value=v, units=CF.KG))
    mem = W.membrane(src, experiments=Opaque('experiments'))
    c1, c2 = W.component(src, '1'), W.component(src, '2')
    name = 'Membrane.get_ideal_selectivity'; cx.under_contract(name)
    for ct in ('weight', 'molar'):
        r1 = only_return(cx.explore(call(src, name, [], dict(temperature=Tt, first_component=c1, second_component=c2, calculation_type=ct), self_obj=mem), contracts={'Membrane.get_permeance': gpc}, pre=base), name)
        r2 = only_return(cx.explore(call(src, name, [], dict(temperature=Tt, first_component=c2, second_component=c1, calculation_type=ct), self_obj=mem), contracts={'Membrane.get_permeance': gpc}, pre=base), name)
        cx.ob("metric.ideal-selectivity.%s.inverts" % ct, r1.pc + r2.pc, eq(r1.value * r2.value, 1), function=name, statement="ideal selectivity inverts when the components are exchanged")
    cx.assume_note("solver and process swap lemmas use get_partial_pressures / calculate_partial_fluxes by contract; their own swap lemmas (proved above from the bodies) are applied by rewriting once the argument relation is discharged")
    cx.assume_note("ideal diffusion curves are element-wise calls of calculate_partial_fluxes (C08), so the symmetry of their fluxes is the solver swap lemma; the symmetry of the permeances the curve derives is proved on DiffusionCurve.__attrs_post_init__ (curve-from-fluxes.*)")
    cx.no_hidden_state(function=None)



def replay_case(r):
    nm = r['name']
    model = 'UNIQUAC' if 'UNIQUAC' in nm else 'NRTL'
    mode = 'temperature' if 'temperature' in nm else 'pressure' if 'pressure' in nm else 'vacuum'
    out = []
    for b, x, T in (('H2O_EtOH', 0.15, 333.15), ('H2O_MeOH', 0.4, 318.15), ('EtOH_ETBE', 0.3, 343.15), ('H2O_iPOH', 0.7, 353.15)):
        c = dict(name=nm, builtin=b, model=model, mode=mode, x=x, T=T, Tp=T - 55.0, pp=0.6, units='SI' if '.SI.' in nm else 'GPU' if '.GPU.' in nm else 'kg/(m2*h*kPa)')
        if nm.startswith('process.'):
            c['func'] = 'ideal_non_isothermal_process' if 'non_isothermal' in nm else 'ideal_isothermal_process'
            c['proc'] = dict(x0=x, T0=T, Tp=T - 55.0, pp=0.6, program='.program' in nm, A=0.4, m0=1.5, N=4, dt=0.2)
        out.append(c)
    return out
