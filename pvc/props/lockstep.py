"""Lock-step self-composition of the real calculate_partial_fluxes (DESIGN 2.7): the body is executed on two related
symbolic inputs, the loop is cut at the same head with a relational invariant, the output relation is proved.
Used for: scale (C02), swap (C06), basis (C07), default permeances (C08)."""
import itertools
from .common import *
from ..contracts import flux as CF, thermo
from ..loops import segments, Head
from . import c02 as C2

CPF = 'Pervaporation.calculate_partial_fluxes'


def run_pair(cx, name, side_a, side_b, rel_head, rel_exit, ctr, pre, lemmas=(), extra_init=None, ya=var('y_a'), yb=var('y_b'), da=var('d_a'), db=var('d_b')):
    """side = (fdef, bind); head states (y_a, d_a, it) / (y_b, d_b, it); rel_head: B over them; rel_exit(fa, fb) -> B"""
    src = cx.src
    it = var('it', 'I')
    fa, ba = side_a; fb, bb = side_b
    pa, ha, ca = segments(cx, fa, ba, C2.havoc(src, ya, da, it), contracts=ctr, pre=pre)
    pb, hb, cb = segments(cx, fb, bb, C2.havoc(src, yb, db, it), contracts=ctr, pre=pre)
    n = 0
    def kind(p):
        if p.outcome == 'raise': return ('raise', p.value)
        return ('head',) if isinstance(p.value, Head) else ('return',)
    for (x, y) in itertools.product(pa, pb):
        kx, ky = kind(x), kind(y)
        hy = x.pc + y.pc
        if kx == ky == ('head',):
            ea, eb = x.value.env, y.value.env
            sub = {ya.a[0]: ea['permeate_composition'].f['p'], yb.a[0]: eb['permeate_composition'].f['p'], da.a[0]: lift(ea['d']), db.a[0]: lift(eb['d'])}
            cx.ob("%s.init.%d" % (name, n), hy, subst(rel_head, sub), lemmas=lemmas, function=CPF, statement="relational invariant holds at loop entry"); n += 1
            if 'iterations' in ea and 'iterations' in eb:
                cx.ob("%s.init.%d.counter" % (name, n), hy, eq(lift(ea['iterations']), lift(eb['iterations'])), function=CPF); n += 1
        elif kx != ky:
            cx.ob("%s.init.%d.control-agreement" % (name, n), hy, FALSE, lemmas=lemmas, function=CPF, statement="both runs take the same control path (%s vs %s infeasible)" % (kx, ky)); n += 1
    inside = lambda ps: [p for p in ps if hasattr(p.ex, 'mark')]
    pairs = 0
    for (x, y) in itertools.product(inside(ha), inside(hb)):
        kx, ky = kind(x), kind(y)
        hy = [rel_head] + x.pc + y.pc
        if kx == ky == ('head',):
            ea, eb = x.value.env, y.value.env
            sub = {ya.a[0]: ea['permeate_composition'].f['p'], yb.a[0]: eb['permeate_composition'].f['p'], da.a[0]: lift(ea['d']), db.a[0]: lift(eb['d'])}
            cx.ob("%s.preserve.%d" % (name, n), hy, subst(rel_head, sub), lemmas=lemmas, function=CPF, statement="relational invariant preserved by one iteration of both runs", inductive=True); n += 1
            if 'iterations' in ea and 'iterations' in eb:
                cx.ob("%s.preserve.%d.counter" % (name, n), hy, eq(lift(ea['iterations']), lift(eb['iterations'])), function=CPF, inductive=True); n += 1
            pairs += 1
        elif kx == ky == ('return',):
            cx.ob("%s.exit.%d" % (name, n), hy, rel_exit(x.value, y.value), lemmas=lemmas, function=CPF, statement="output relation at loop exit", inductive=True); n += 1
            if feasible(hy): cx.cover("%s.exit.%d" % (name, n), hy, lemmas=lemmas)
            n += 1
            pairs += 1
        elif kx != ky:
            cx.ob("%s.step.%d.control-agreement" % (name, n), hy, FALSE, lemmas=lemmas, function=CPF, inductive=True, statement="both runs take the same control path (%s vs %s infeasible)" % (kx, ky)); n += 1
    cx.ob("%s.pairs" % name, [], blit(pairs >= 2), kind='paths', function=CPF)
    return n


def feasible(hy):
    from ..symex import z3_check
    import z3
    return z3_check(hy, 3000) != z3.unsat


def scale_lemma(cx, ctr):
    """P -> kP (k > 0): identical iterates, fluxes multiplied by k"""
    src = cx.src
    k = var('k')
    for mode in C2.MODES:
        mix = W.mixture(src); pv = C2.pv_obj(src, mix)
        fa, ba, _ = C2.cpf_bind(src, pv, mode, 'NRTL', True, P=(C2.P1, C2.P2))
        fb, bb, _ = C2.cpf_bind(src, pv, mode, 'NRTL', True, P=(k * C2.P1, k * C2.P2))
        ya, yb, da, db = var('y_a'), var('y_b'), var('d_a'), var('d_b')
        rel = band(eq(yb, ya), eq(db, da))
        run_pair(cx, "scale.%s" % mode, (fa, ba), (fb, bb), rel,
                 lambda ra, rb: band(eq(rb[0], k * ra[0]), eq(rb[1], k * ra[1])), ctr, C2.BASE + [C2.PREC > 0, k > 0])
