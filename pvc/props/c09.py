"""C09 - flux->permeance inversion of a diffusion curve undoes the flux calculation (DESIGN 3, C09)"""
from .common import *
from . import c02 as C2
from ..contracts import flux as CF, thermo, process as CP
from ..symex import explore_thunk

ID = "C09"
FRAME_SENSITIVE = True        # the statement relates several calls / call histories: a certain write to state that outlives a call is a violation even where the engine cannot follow its effect
MIN_OBLIGATIONS = 30
KG = CF.KG
PI = 'DiffusionCurve.__attrs_post_init__'
UNITS = ('kg/(m2*h*kPa)', 'SI', 'GPU')


def to_kg(v, units, M):
    f = {'kg/(m2*h*kPa)': 1 / (3600 * M), 'SI': lift(1), 'GPU': lift(Fraction(335, 10 ** 12))}
    return v * f[units] / f[KG]


def obligations(cx):
    src = cx.src
    # composition of the two halves of the round trip inside the package: Pervaporation.ideal_diffusion_curve (observe_at of C09)
    from .c08 import curve_built_under_the_flux_conditions
    curve_built_under_the_flux_conditions(cx, prefix='ideal-curve')
    cx.functions[PI] = dict(span=src.span(src.find(PI)), how="body executed symbolically")
    cx.under_contract('DiffusionCurve.permeate_composition')
    Tt, TP, PP = C2.Tt, C2.TP, C2.PP
    M1, M2 = var('M1'), var('M2')
    n = var('n', 'I'); j = var('jj', 'I')
    ctr = {'get_partial_pressures': CF.gpp_contract, '__class_invariants__': CP.CLASS_INVARIANTS}
    mix = W.mixture(src)
    xj = app('xf', j)
    def comps(typ='weight'):
        return Seq(n, lambda i: Obj('Composition', dict(p=app('xf', lift(i)), type=typ), owner='external'), owner='external', tag=('xf', typ))
    def perms(units):
        return Seq(n, lambda i: (Obj('Permeance', dict(value=app('Pa', lift(i)), units=units), owner='external'), Obj('Permeance', dict(value=app('Pb', lift(i)), units=units), owner='external')),
                   owner='external', tag=('P', units))
    def build(fc, pf, perm, Tp=None, pp=None):
        return lambda ex: ex.construct('DiffusionCurve', [], dict(mixture=mix, membrane_name='m', feed_temperature=Tt, feed_compositions=fc, partial_fluxes=pf,
                                                                  permeate_temperature=Tp, permeate_pressure=pp, permeances=perm))
    base = [n >= 1, Tt > 0, TP > 0, PP >= 0] + W.mixture_pre()
    hypj = [j >= 0, j < n, xj >= 0, xj <= 1, app('Pa', j) >= 0, app('Pb', j) >= 0]
    Pa, Pb = app('Pa', j), app('Pb', j)
    def element(r, fld):
        v = r.value.f[fld]
        if not isinstance(v, Seq): raise Unsupported("curve field %s is not built element-wise" % fld)
        return returns(explore_thunk(r.ex, lambda: r.ex.seq_get(v, j), list(r.pc) + hypj)), v
    # ------------------------------------------------------------------ (1) curve from permeances (any unit, any composition basis)
    for units in UNITS:
        for typ in ('weight', 'molar'):
            tag = "from-permeances.%s.%s" % (units.replace('/', '_'), typ)
            fc = comps(typ)
            ps = cx.explore(build(fc, None, perms(units)), contracts=ctr, pre=base)
            rs = returns(ps)
            cx.ob(tag + ".paths", [], blit(len(rs) >= 1), kind='paths', function=PI)
            pf = thermo.gpp_apps(Tt, mix, fc.fn(j), 'NRTL')
            for i, r in enumerate(rs):
                qs, v = element(r, 'permeances')
                for qi, q in enumerate(qs):
                    pk = q.value
                    cx.ob("%s.%d.permeances-in-kg.%d" % (tag, i, qi), q.pc, band(blit(pk[0].f['units'] == KG and pk[1].f['units'] == KG), eq(pk[0].f['value'], to_kg(Pa, units, M1)), eq(pk[1].f['value'], to_kg(Pb, units, M2)), eq(v.n, n)),
                          function=PI, statement="permeances of a curve are exposed in kg/(m2 h kPa) whatever unit they were supplied in")
                qs, v = element(r, 'partial_fluxes')
                for qi, q in enumerate(qs):
                    J = q.value
                    cx.ob("%s.%d.fluxes.%d" % (tag, i, qi), q.pc, band(eq(J[0], to_kg(Pa, units, M1) * pf[0]), eq(J[1], to_kg(Pb, units, M2) * pf[1]), eq(v.n, n)), function=PI,
                          statement="a curve built from permeances reports fluxes = permeance x feed partial pressure")
    # ------------------------------------------------------------------ (3) both supplied: permeances converted, fluxes kept
    fc = comps('weight')
    fl_any = Seq(n, lambda i: (app('J1', lift(i)), app('J2', lift(i))), owner='external', tag=('J',))
    for units in UNITS:
        ps = cx.explore(build(fc, fl_any, perms(units)), contracts=ctr, pre=base)
        for i, r in enumerate(returns(ps)):
            qs, v = element(r, 'permeances')
            for qi, q in enumerate(qs):
                pk = q.value
                cx.ob("both-supplied.%s.%d.permeances-in-kg.%d" % (units.replace('/', '_'), i, qi), q.pc, band(blit(pk[0].f['units'] == KG and pk[1].f['units'] == KG), eq(pk[0].f['value'], to_kg(Pa, units, M1)), eq(pk[1].f['value'], to_kg(Pb, units, M2))),
                      function=PI)
            cx.ob("both-supplied.%s.%d.fluxes-kept" % (units.replace('/', '_'), i), [], blit(r.value.f['partial_fluxes'] is fl_any), kind='paths', function=PI)
    # ------------------------------------------------------------------ (2) curve from fluxes: inversion per mode + round trip with the solver's law
    yj = app('ysc', j)                       # self-consistent permeate mass fraction of point j (hypothesis of the statement)
    fc_weight = fc
    for ftyp in ('weight', 'molar'):          # feed compositions of the curve in mass or in mole fractions
      fc = comps(ftyp) if ftyp != 'weight' else fc_weight
      for mode in C2.MODES:
          Tp, pp = C2.mode_args(mode)
          tag = "from-fluxes.%s%s" % (mode, "" if ftyp == "weight" else ".molar-feed")
          ycomp = Obj('Composition', dict(p=yj, type='weight'))
          def law(i):
              i = lift(i)
              fcomp = Obj('Composition', dict(p=app('xf', i), type=ftyp))
              yc = Obj('Composition', dict(p=app('ysc', i), type='weight'))
              return CF.F(mix, app('Pa', i), app('Pb', i), yc, fcomp, Tt, Tp, pp, 'NRTL')
          # (a) inversion formula for arbitrary fluxes
          ps = cx.explore(build(fc, fl_any, None, Tp, pp), contracts=ctr, pre=base)
          rs = returns(ps)
          cx.ob(tag + ".paths", [], blit(len(rs) >= 1), kind='paths', function=PI)
          J1, J2 = app('J1', j), app('J2', j)
          pf = thermo.gpp_apps(Tt, mix, fc.fn(j), 'NRTL')
          yy = J1 / (J1 + J2)
          for i, r in enumerate(rs):
              qs, v = element(r, 'permeances')
              cx.ob("%s.%d.element-paths" % (tag, i), [], blit(len(qs) >= 1), kind='paths', function=PI)
              for qi, q in enumerate(qs):
                  pk = q.value
                  cx.ob("%s.%d.units.%d" % (tag, i, qi), [], blit(pk[0].f['units'] == KG and pk[1].f['units'] == KG), kind='paths', function=PI)
          # (b) round trip: fluxes produced by the law at a self-consistent permeate  ->  the original permeances
          fl_law = Seq(n, law, owner='external', tag=('law', mode, ftyp))
          Jl = law(j)
          sc = eq(yj, Jl[0] / (Jl[0] + Jl[1]))
          ps = cx.explore(build(fc, fl_law, None, Tp, pp), contracts=ctr, pre=base)
          for i, r in enumerate(returns(ps)):
              v = r.value.f['permeances']
              qs = returns(explore_thunk(r.ex, lambda: r.ex.seq_get(v, j), list(r.pc) + hypj + [yj >= 0, yj <= 1, sc]))
              # the self-consistency hypothesis y = J1/(J1+J2) is solved for the second permeance (no equality hypothesis left):
              # Pb = J1 (1-y) / (y (p_feed2 - permeate side 2))
              pfj = thermo.gpp_apps(Tt, mix, fc.fn(j), 'NRTL')
              side = CF.permeate_side(mix, ycomp, Tp, pp, 'NRTL')
              Pb_sc = (Jl[0] * (1 - yj)) / (yj * (pfj[1] - side[1]))
              el = {('#', Pb.id): Pb_sc}
              for qi, q in enumerate(qs):
                  pk = q.value
                  name = "%s.%d.round-trip.%d" % (tag, i, qi)
                  hy = [subst(h, el) for h in q.pc if h is not sc] + [yj > 0, yj < 1, ne(pfj[1] - side[1], 0), Pb_sc >= 0]
                  cx.ob(name, hy, band(eq(subst(pk[0].f['value'], el), Pa), eq(subst(pk[1].f['value'], el), Pb_sc)), function=PI,
                        statement="a curve built from fluxes computed for given permeances under this permeate condition reports those permeances back",
                        ranges={'Pa': (1e-3, 1e-1), 'pp1': (5.0, 50.0), 'pp2': (5.0, 50.0), 'pp': (0.5, 3.0), 'ysc': (0.2, 0.8), 'xf': (0.1, 0.9), 'M1': (18.0, 20.0), 'M2': (40.0, 50.0)})
                  if mode == 'pressure':
                      # fingerprint of known finding K2: the curve subtracts p x MOLE fraction of the permeate, the solver p x MASS fraction
                      ym = (yj / M1) / (yj / M1 + (1 - yj) / M2)
                      J1s, J2s = subst(Jl[0], el), subst(Jl[1], el)
                      w1 = J1s / (pfj[0] - PP * ym); w2 = J2s / (pfj[1] - PP * (1 - ym))
                      def unclamp(t):          # the Permeance constructor clamps at 0: `v if v >= 0 else 0`; the fingerprint speaks about v
                          return t.a[1] if t.op == 'ite' and isc(t.a[2], 0) else t
                      cx.ob("%s.%d.fingerprint.K2.%d" % (tag, i, qi), hy, band(eq(unclamp(subst(pk[0].f['value'], el)), w1), eq(unclamp(subst(pk[1].f['value'], el)), w2)), kind='fingerprint', finding='K2', function=PI,
                            statement="the curve inverts with p x mole fraction of the permeate (the solver uses p x mass fraction)")
    fc = fc_weight
    # ------------------------------------------------------------------ curve from permeances, fluxes re-inverted in vacuum: original permeances
    fl_vac = Seq(n, lambda i: (lambda pfi: (app('Pa', lift(i)) * pfi[0], app('Pb', lift(i)) * pfi[1]))(thermo.gpp_apps(Tt, mix, fc.fn(lift(i)), 'NRTL')), owner='external', tag=('vac',))
    ps = cx.explore(build(fc, fl_vac, None), contracts=ctr, pre=base)
    for i, r in enumerate(returns(ps)):
        v = r.value.f['permeances']
        pfj = thermo.gpp_apps(Tt, mix, fc.fn(j), 'NRTL')
        for qi, q in enumerate(returns(explore_thunk(r.ex, lambda: r.ex.seq_get(v, j), list(r.pc) + hypj + [pfj[0] > 0, pfj[1] > 0]))):
            cx.ob("reinversion.vacuum.%d.%d" % (i, qi), q.pc, band(eq(q.value[0].f['value'], Pa), eq(q.value[1].f['value'], Pb)), function=PI,
                  statement="fluxes of a permeance-built curve (permeance x feed pressure) re-inverted in vacuum return the original permeances")
    cx.assume_note("hypotheses of the statement: the permeate composition at which the fluxes were computed is self-consistent (y = J1/(J1+J2)); permeances >= 0; driving forces non-zero (division definedness)")
    cx.assume_note("DiffusionCurve evaluates partial pressures with the default activity model (NRTL); get_partial_pressures by contract")
    cx.no_hidden_state(function='DiffusionCurve.__attrs_post_init__')



def replay_case(r):
    nm = r['name']
    return dict(mode='temperature' if 'temperature' in nm else 'pressure' if 'pressure' in nm else 'vacuum', feed_type='molar' if 'molar-feed' in nm else 'weight', env=dict(r.get('model') or {}))
