"""C03 - heat balance: evaporation heat, self-cooling and temperature programme are exact (DESIGN 3, C03)"""
from .common import *
from . import procs
from ..contracts import flux as CF

ID = "C03"
MIN_OBLIGATIONS = 250


def comp_fn(cx, comp, meth, *args):
    """real Component method executed on symbolic arguments (single path expected)"""
    src = cx.src
    ps = explore(src, call(src, 'Component.' + meth, list(args), self_obj=comp), pre=[lift(a) > 0 for a in args])
    return only_return(ps, meth).value


def h(cx, comp, Tt): return comp_fn(cx, comp, 'get_vaporisation_heat', Tt) / comp.f['molecular_weight'] * 1000
def cp(cx, comp, Tt): return comp_fn(cx, comp, 'get_specific_heat', Tt) / comp.f['molecular_weight']
def ch(cx, comp, a, b): return comp_fn(cx, comp, 'get_cooling_heat', a, b)


def step0_subst(st):
    """substitution that turns the generic iteration into step 0: k := 0 and every read L[k+0] := prefix value"""
    m = {'k': lift(0)}
    def bind(tpl, val):
        if isinstance(tpl, T):
            if tpl.op == 'v': m[tpl.a[0]] = lift(val)
        elif isinstance(tpl, Obj):
            for n in tpl.f: bind(tpl.f[n], val.f[n])
        elif isinstance(tpl, tuple):
            for a, b in zip(tpl, val): bind(a, b)
    for name, g in st.lists.items():
        if 0 in g.reads and len(g.init) >= 1: bind(g.reads[0], g.init[0])
    return m


def sub_value(v, m):
    if isinstance(v, T): return subst(v, m)
    if isinstance(v, tuple): return tuple(sub_value(x, m) for x in v)
    if isinstance(v, Obj): return Obj(v.cls, {k: sub_value(x, m) for k, x in v.f.items()})
    return v


def obligations(cx):
    src = cx.src
    for f in procs.FUNCS: cx.under_contract('Pervaporation.' + f)
    for q in ('TemperatureProgram.program', 'TemperatureProgram.polynomial', 'TemperatureProgram.exponential', 'TemperatureProgram.logarithmic'): cx.under_contract(q)
    N, DT, A_, M0, T0, X0, TP = procs.N, procs.DT, procs.A_, procs.M0, procs.T0, procs.X0, procs.TP
    k = var('k', 'I')
    cfgs = procs.configs(comp_types=('weight',))
    if cx.tier == 'quick': cfgs = [c for c in cfgs if c.ideal or not (c.curves == 'many' and c.initial)]
    step0 = {}
    for cfg in cfgs:
        tag = cfg.tag(); fn = 'Pervaporation.' + cfg.func
        pv, kw, ps = procs.run(cx, cfg)
        mix = pv.f['mixture']; c1, c2 = mix.f['first_component'], mix.f['second_component']
        steps = procs.normal_steps(ps)
        cx.ob(tag + ".paths", [], blit(len(steps) >= 1), kind='paths', function=fn)
        for si, st in enumerate(steps):
            t = "%s.path%d" % (tag, si)
            J = st.appended('partial_fluxes'); J1, J2 = lift(J[0]), lift(J[1])
            Tk = T0 if cfg.iso else st.read('feed_temperature', 0)
            if Tk is None: raise Unsupported("feed temperature of the step is not read in %s" % cfg.func)
            pre = st.pc + [lift(Tk) > 0]
            d1, d2 = J1 * A_ * DT, J2 * A_ * DT
            Q = st.appended('feed_evaporation_heat')
            Qspec = h(cx, c1, Tk) * d1 + h(cx, c2, Tk) * d2
            cx.ob(t + ".evaporation-heat", pre, eq(Q, Qspec), function=fn,
                  statement="evaporation heat = sum_i permeated mass_i x own latent heat per kg of component i at the step's feed temperature")
            if si == 0 and cfg.iso and cfg.ideal: cx.must_fail(t + ".evaporation-heat", pre + [d2 > 0, h(cx, c1, Tk) > h(cx, c2, Tk)], eq(Q, h(cx, c1, Tk) * d1 + h(cx, c1, Tk) * d2))
            cond = st.appended('permeate_condensation_heat')
            has_Tp = cfg.mode in ('temperature', 'both')
            cx.ob(t + ".condensation-heat.reported-iff-permeate-temperature", [], blit((cond is None) == (not has_Tp)), kind='paths', function=fn,
                  statement="a condensation heat is reported exactly when a permeate temperature is specified")
            if has_Tp and cond is not None:
                cspec = (h(cx, c1, TP) + ch(cx, c1, Tk, TP) * (lift(Tk) - TP)) * d1 + (h(cx, c2, TP) + ch(cx, c2, Tk, TP) * (lift(Tk) - TP)) * d2
                cx.ob(t + ".condensation-heat.formula", pre + [TP > 0], eq(cond, cspec), function=fn,
                      statement="condensation heat = sum_i (latent heat_i(Tp) + cooling heat_i(T_k,Tp) (T_k - Tp)) x permeated mass_i, each component's own constants")
            if not cfg.iso:
                Tn = st.appended('feed_temperature')
                m_k = st.read('feed_mass', 0); xk = st.read('feed_composition', 0).f['p']
                if cfg.program:
                    tm = st.field('time')
                    cx.ob(t + ".programme", st.pc, eq(Tn, app('program', DT * (k + 1), *flatten('polynomial'))), function=fn,
                          statement="with a programme: feed_temperature[k+1] = programme(time of step k+1) = programme((k+1) x step length)")
                else:
                    Tspec = lift(Tk) - Qspec / (m_k * (xk * cp(cx, c1, Tk) + (1 - xk) * cp(cx, c2, Tk)))
                    cx.ob(t + ".self-cooling", pre, eq(Tn, Tspec), function=fn,
                          statement="self-cooling: T[k+1] = T[k] - evaporation heat / (feed mass x mass-fraction-weighted specific heat)")
            else:
                ft = st.field('feed_temperature')
                cx.ob(t + ".isothermal", st.pc + [k >= 0, k < N], eq(need_seq(ft, 'feed_temperature').fn(k), T0), function=fn, statement="isothermal models: the feed temperature never changes")
            if si == 0:
                cx.cover(t, pre)
                m0s = step0_subst(st)
                step0[(cfg.ideal, cfg.mode, cfg.curves, cfg.initial, cfg.iso, cfg.program)] = (st, m0s, sub_value(J, m0s), subst(Q, m0s), subst(cond, m0s) if isinstance(cond, T) else cond,
                                                                                           [subst(c, m0s) for c in st.pc])
    # step 0: isothermal and non-isothermal models started from the same conditions report identical fluxes and heats
    for key, (st, m0s, J0, Q0, C0, pc0) in step0.items():
        ideal, mode, curves, initial, iso, program = key
        if iso: continue
        other = step0.get((ideal, mode, curves, initial, True, False))
        if other is None: continue
        st2, m2, J0b, Q0b, C0b, pc0b = other
        t = "step0.%s.%s%s%s%s" % ('ideal' if ideal else 'non-ideal', mode, '' if ideal else '.%s-curve' % curves, '.initial' if initial else '', '.program' if program else '')
        hy = pc0 + pc0b + [procs.T0 > 0]
        cx.ob(t + ".fluxes", hy, band(eq(J0[0], J0b[0]), eq(J0[1], J0b[1])), kind='lemma', statement="step 0: isothermal and non-isothermal models report identical fluxes")
        cx.ob(t + ".evaporation-heat", hy, eq(Q0, Q0b), kind='lemma', statement="step 0: identical evaporation heat")
        if isinstance(C0, T) and isinstance(C0b, T):
            cx.ob(t + ".condensation-heat", hy + [TP > 0], eq(C0, C0b), kind='lemma', statement="step 0: identical condensation heat")
        else:
            cx.ob(t + ".condensation-heat", [], blit(C0 is None and C0b is None), kind='paths')
    # ------------------------------------------------------------------ TemperatureProgram.program: dispatch to the three closed forms
    x = var('tt')
    maxlen = 4 if cx.tier == 'quick' else 6
    for typ in ('polynomial', 'exponential', 'logarithmic'):
        for L in range(1, maxlen + 1):
            if typ == 'logarithmic' and L == 1: continue        # log of an empty sum: -inf, outside the real-number model
            cs = [var('c%d' % i) for i in range(L)]
            tp = W.mk(src, 'TemperatureProgram', coefficients=PList(cs, owner='external'), type=typ)
            ps = cx.explore(call(src, 'TemperatureProgram.program', [x], self_obj=tp), pre=[x > 0])
            r = only_return(ps, 'program')
            poly = lift(0)
            if typ == 'polynomial':
                for i in range(L): poly = poly + cs[i] * power(x, i)
                want = poly
            else:
                for i in range(1, L): poly = poly + cs[i] * power(x, i - 1)
                want = cs[0] * exp(poly) if typ == 'exponential' else cs[0] * log(poly)
            cx.ob("programme.%s.len%d" % (typ, L), r.pc, eq(r.value, want), function='TemperatureProgram.' + typ,
                  statement="programme value = closed form of its type evaluated at the given time")
    cx.bounded.append(dict(function='TemperatureProgram.program', bound="coefficient lists of length 1..%d" % maxlen, reason="sum over a coefficient list: unrolled (kept as a cross-check of the generic argument below)"))
    # coefficient lists of ARBITRARY length: builtin sum() by its contract (the sum of the list's elements); proved from the bodies: the list that is
    # summed has the right length, its generic element j is the right monomial, and the result wraps that sum as the closed form of the type says
    from ..symex import Seq as _Seq
    nc = var('nc', 'I'); jg = var('jg', 'I')
    for typ in ('polynomial', 'exponential', 'logarithmic'):
        got = {}
        def run(ex, typ=typ, got=got):
            tp = W.mk(src, 'TemperatureProgram', coefficients=_Seq(nc, lambda i: app('c', lift(i)), owner='external', tag=('coef',)), type=typ)
            v = ex.call_function(src.find('TemperatureProgram.program'), [x], {}, self_obj=tp, inline=True)
            return v, list(getattr(ex, 'sums', []))
        ps = cx.explore(run, pre=[nc >= (1 if typ == 'polynomial' else 2), x > 0])
        r = only_return(ps, 'program')
        val, sums = r.value
        t = "programme.%s.generic" % typ
        fnq = 'TemperatureProgram.' + typ
        cx.ob(t + ".one-sum", [], blit(len(sums) == 1 and isinstance(val, T)), kind='paths', function=fnq, statement="the body takes exactly one sum over a list built from the coefficients")
        if len(sums) != 1 or not isinstance(val, T): continue
        S, q = sums[0]
        off = 0 if typ == 'polynomial' else 1
        hy = r.pc + [jg >= 0, jg < nc - off]
        cx.ob(t + ".length", r.pc, eq(lift(q.n), nc - off), function=fnq, statement="one summand per coefficient%s" % ('' if off == 0 else ' after the first'))
        cx.ob(t + ".summand", hy, eq(q.fn(jg), app('c', jg + off) * exp(log(x) * jg)), function=fnq, statement="summand j is c[j%s] * t^j" % ('' if off == 0 else '+1'))
        want = S if typ == 'polynomial' else app('c', lift(0)) * (exp(S) if typ == 'exponential' else log(S))
        cx.ob(t + ".closed-form", r.pc, eq(val, want), function=fnq, statement="programme value = closed form of its type over the sum of the monomials")
        cx.must_fail(t + ".summand", hy, eq(q.fn(jg), app('c', jg + off) * exp(log(x) * (jg + 1))))
    cx.assume_note("assumed contract of the builtin sum(list): the sum of the list's elements (TemperatureProgram is proved for coefficient lists of arbitrary length against it; t^j is exp(j log t), t > 0)")
    tp = W.mk(src, 'TemperatureProgram', coefficients=PList([var('c0')], owner='external'), type='cubic-spline')
    ps = cx.explore(call(src, 'TemperatureProgram.program', [x], self_obj=tp), pre=[x > 0])
    all_raise(cx, "programme.unknown-type-raises", ps, classes=('AttributeError',), function='TemperatureProgram.program')
    cx.assume_note("latent heat per kg of component i = get_vaporisation_heat(T)/M_i*1000; specific heat per kg = get_specific_heat(T)/M_i (real Component methods executed)")
    cx.assume_note("no property judges the physics of the condensation-heat expression; C03 fixes its component-symmetric form and step-0 agreement")
    cx.assume_note("TemperatureProgram.program by contract inside the process models (pure function of time); its body is proved against the closed forms for coefficient lists of arbitrary length (generic summand) and, unrolled, for lists up to the stated bound")


def replay_case(r):
    m = dict(r.get('model') or {})
    from . import procs_native_case as PN
    if r['name'].startswith('programme.'): return dict(programme=True, model=m, name=r['name'])
    if r['name'].startswith('step0.'):
        p = r['name'].split('.')
        c = dict(func=('ideal' if p[1] == 'ideal' else 'non_ideal') + '_isothermal_process', mode=p[2], curves='many' if 'many-curve' in p else 'one', initial='initial' in p, program='program' in p, sanitize=True)
        for k in ('A', 'm0', 'T0', 'x0', 'dt', 'Tp', 'pp'):
            if isinstance(m.get(k), (int, float)): c[k] = m[k]
        return c
    return PN.case_from(r['name'], m)
