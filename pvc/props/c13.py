"""C13 - latent and cooling heats are consistent with vapour pressure and heat capacity (DESIGN 3, C13)"""
from .common import *
from ..selfcheck import check_D
from ..nativeio import differential

ID = "C13"
NATIVE_BOUNDED = (40, 400)        # (quick, thorough) native corpus sizes - bounded stand-in for rounding effects
MIN_OBLIGATIONS = 12


def obligations(cx):
    src = cx.src
    R = src.consts[('pyvaporation/utils/utils.py', 'R')].value
    R = lift(R)
    Tt = var('T')
    f_vp = cx.under_contract('Component.get_vapor_pressure')
    f_vh = cx.under_contract('Component.get_vaporisation_heat')
    f_sh = cx.under_contract('Component.get_specific_heat')
    f_ch = cx.under_contract('Component.get_cooling_heat')
    for vp in ('antoine', 'frost'):
        c = W.component(src, '1', vp)
        pre = [Tt > 0]
        Ps = returns(cx.explore(call(src, 'Component.get_vapor_pressure', [Tt], self_obj=c), pre=pre))
        Hs = returns(cx.explore(call(src, 'Component.get_vaporisation_heat', [Tt], self_obj=c), pre=pre))
        if not Ps or not Hs: raise Unsupported("no normal path of the vapour-pressure functions [%s]" % vp)
        if any(not isinstance(q.value, T) for q in Ps + Hs): raise Unsupported("non-numeric result of the vapour-pressure functions")
        rg = dict(T=(250.0, 450.0), vpa1=(1.0, 10.0), vpb1=(-3000.0, -500.0), vpc1=(-80.0, 20.0), M1=(10, 200))
        if vp == 'frost': rg.update(vpa1=(10.0, 20.0), vpb1=(-6000.0, -3000.0), vpc1=(-2e5, 2e5))
        differential(cx, 'Component.get_vapor_pressure', c, [Tt], {}, Ps, rg, label=vp)
        differential(cx, 'Component.get_vaporisation_heat', c, [Tt], {}, Hs, rg, label=vp)
        # every pair of (pressure path, heat path): a branch on the constants in one of the two functions only is a pair too
        npair = 0
        for i, P in enumerate(Ps):
            lnP = log(P.value)
            dlnP = D(lnP, 'T')
            check_D(lnP, 'T', dlnP, dict(T=(250.0, 450.0), vpa1=(1.0, 10.0), vpb1=(-3000.0, -500.0), vpc1=(-80.0, 20.0)))
            cx.ob("psat.positive.%s%s" % (vp, ".%d" % i if i else ""), P.pc, P.value > 0, function='Component.get_vapor_pressure')
            for j, H in enumerate(Hs):
                hyps = P.pc + H.pc
                tag = vp + (".%d.%d" % (i, j) if (i or j) else "")
                cx.ob("cc.%s" % tag, hyps, eq(H.value * 1000, R * Tt * Tt * dlnP), function='Component.get_vaporisation_heat',
                      statement="heat of vaporisation [J/mol] == R T^2 dln(Psat)/dT", ranges=dict(T=(250, 450)))
                from .lockstep import feasible
                if feasible(hyps):
                    npair += 1
                    cx.cover("cc.%s" % tag, hyps)
                    cx.must_fail("cc.%s" % tag, hyps, eq(H.value * 1000, R * Tt * dlnP))
        cx.ob("cc.%s.pairs" % vp, [], blit(npair >= 1), kind='paths', function='Component.get_vaporisation_heat')
    # unknown equation type: both functions raise instead of returning a number
    c = W.component(src, '1', 'other')
    for q in ('Component.get_vapor_pressure', 'Component.get_vaporisation_heat'):
        ps = cx.explore(call(src, q, [Tt], self_obj=c), pre=[Tt > 0])
        ok = all(p.outcome == 'raise' and p.value == 'ValueError' for p in ps) and len(ps) >= 1
        cx.ob("unknown-type.raises.%s" % q.split('.')[1], [], blit(ok), function=q, kind='paths')
    # cooling heat = integral of the specific heat
    c = W.component(src, '1', 'antoine')
    t0, t1, t2 = var('t0'), var('t1'), var('t2')
    def CH(a, b): return only_return(cx.explore(call(src, 'Component.get_cooling_heat', [a, b], self_obj=c)), 'get_cooling_heat').value
    def CP(a): return only_return(cx.explore(call(src, 'Component.get_specific_heat', [a], self_obj=c)), 'get_specific_heat').value
    fn = 'Component.get_cooling_heat'
    cx.ob("cool.additive", [], eq(CH(t0, t1) + CH(t1, t2), CH(t0, t2)), function=fn)
    cx.ob("cool.antisymmetric", [], eq(CH(t0, t1), -CH(t1, t0)), function=fn)
    cx.ob("cool.empty-interval", [], eq(CH(t0, t0), 0), function=fn)
    ch = CH(t0, t1)
    rg = dict(t0=(250.0, 450.0), t1=(250.0, 450.0), ca1=(20, 200), cb1=(-0.5, 0.5), cc1=(-1e-3, 1e-3), cd1=(-1e-6, 1e-6), M1=(10, 200), vpc1=(-80, -10))
    differential(cx, 'Component.get_cooling_heat', c, [t0, t1], {}, cx.explore(call(src, 'Component.get_cooling_heat', [t0, t1], self_obj=c)), rg)
    differential(cx, 'Component.get_specific_heat', c, [t0], {}, cx.explore(call(src, 'Component.get_specific_heat', [t0], self_obj=c)), rg)
    d_up = D(ch, 't0'); d_lo = D(ch, 't1')
    check_D(ch, 't0', d_up, dict(t0=(250.0, 450.0), t1=(250.0, 450.0)))
    cx.ob("cool.derivative-upper-limit", [], eq(d_up, CP(t0)), function=fn)
    cx.ob("cool.derivative-lower-limit", [], eq(d_lo, -CP(t1)), function=fn)
    cx.must_fail("cool.derivative-upper-limit", [], eq(d_up, CP(t1)))
    cx.must_fail("cool.additive", [], eq(CH(t0, t1) + CH(t1, t2), CH(t2, t0)))
    cx.assume_note("ghost differentiation operator D (pvc.ir.D), cross-checked against central finite differences on this run")
    cx.assume_note("log(10) is one opaque positive constant shared by get_vapor_pressure and get_vaporisation_heat")


def replay_case(r):
    from ..native.c13 import case_from_model
    vp = 'frost' if 'frost' in r['name'] else 'antoine'
    return case_from_model(r.get('model'), vp)
