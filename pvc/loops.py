"""Cut of a top-level `while` loop at its head (DESIGN 2.6): prefix segment, generic iteration from a havoc'd head
state, exit segment.  Used for the only `while` of the package (Pervaporation.calculate_partial_fluxes)."""
import ast
from .ir import *
from .symex import Exec, Raised, Ret, explore, Path, Obj, same_shape, template
from .ir import bvar
from .source import Unsupported


class Head:
    """outcome marker: control is back at the loop head with this environment"""
    def __init__(s, env, first): s.env = env; s.first = first


class AliasEnv(dict):
    """view of an environment under canonical names for the loop-carried variables (the proofs speak about the roles `distance`,
    `counter`, `permeate composition`, not about what the locals happen to be called)"""
    def __init__(s, env, alias): dict.__init__(s); s.env = env; s.alias = alias
    def _k(s, k): return s.alias.get(k, k)
    def __getitem__(s, k): return s.env[s._k(k)]
    def __setitem__(s, k, v): s.env[s._k(k)] = v
    def __contains__(s, k): return s._k(k) in s.env
    def get(s, k, d=None): return s.env.get(s._k(k), d)
    def pop(s, k, *d): return s.env.pop(s._k(k), *d)
    def items(s): return s.env.items()
    def values(s): return s.env.values()
    def keys(s): return s.env.keys()
    def __iter__(s): return iter(s.env)
    def __len__(s): return len(s.env)


def infer_roles(fdef, widx, w):
    """canonical name -> actual local name for the fixed-point loop: `d` = the carried variable of the loop test, `iterations` = the carried
    variable incremented by one, `permeate_composition` = the remaining carried variable initialised before the loop,
    `permeate_composition_new` = the remaining carried variable first assigned inside the loop.  Empty if the shape is not recognised."""
    carried = carried_names(w)
    pre = set()
    for st in fdef.body[:widx]:
        for n in ast.walk(st):
            if isinstance(n, ast.Name) and isinstance(n.ctx, ast.Store): pre.add(n.id)
    test_names = [n.id for n in ast.walk(w.test) if isinstance(n, ast.Name) and n.id in carried]
    alias = {}
    if len(test_names) >= 1: alias['d'] = test_names[0]
    for n in ast.walk(w):
        if isinstance(n, ast.AugAssign) and isinstance(n.op, ast.Add) and isinstance(n.target, ast.Name) and isinstance(n.value, ast.Constant) and n.value.value == 1:
            alias['iterations'] = n.target.id
        if isinstance(n, ast.Assign) and len(n.targets) == 1 and isinstance(n.targets[0], ast.Name) and isinstance(n.value, ast.BinOp) and isinstance(n.value.op, ast.Add) \
                and isinstance(n.value.left, ast.Name) and n.value.left.id == n.targets[0].id and isinstance(n.value.right, ast.Constant) and n.value.right.value == 1:
            alias['iterations'] = n.targets[0].id
    used = set(alias.values())
    rest_pre = sorted((carried & pre) - used); rest_new = sorted(carried - pre - used)
    if len(rest_pre) == 1: alias['permeate_composition'] = rest_pre[0]
    if len(rest_new) == 1: alias['permeate_composition_new'] = rest_new[0]
    # only genuine renamings are recorded; a canonical name that is used for something else makes the inference void
    for c, a in list(alias.items()):
        if c == a: del alias[c]
    for c in alias:
        if c in carried | pre and c not in alias.values(): return {}
    return alias


def find_while(fdef, src):
    idx = [i for i, st in enumerate(fdef.body) if isinstance(st, ast.While)]
    inner = [n for st in fdef.body for n in ast.walk(st) if isinstance(n, (ast.While,)) and n not in fdef.body]
    if len(idx) != 1 or inner: raise Unsupported("expected exactly one top-level while loop in %s" % fdef.name, fdef, src.path_of(fdef))
    w = fdef.body[idx[0]]
    if w.orelse: raise Unsupported("while/else", w)
    for n in ast.walk(w):
        if isinstance(n, (ast.Break, ast.Continue)): raise Unsupported("break/continue in while", n)
        if isinstance(n, (ast.For, ast.While)) and n is not w: raise Unsupported("nested loop in while", n)
    return idx[0], w


def carried_names(w):
    out = set()
    for n in ast.walk(w):
        if isinstance(n, ast.Name) and isinstance(n.ctx, ast.Store): out.add(n.id)
    return out


def segments(cx, fdef, bind, havoc, contracts=None, pre=(), inv=None, known=('d', 'iterations', 'permeate_composition', 'permeate_composition_new')):
    """bind(ex) -> env at function entry.   havoc(ex, env, carried) -> None: replaces the loop-carried variables by an
    arbitrary head state (and may assume the loop invariant on it).
    returns (prefix_paths, head_paths):
      prefix_paths: paths from entry; value is Head (reached the loop), or return/raise outcome
      head_paths:   paths from an arbitrary head state: value is Head (one iteration done), or return / raise"""
    src = cx.src
    widx, w = find_while(fdef, src)
    carried = carried_names(w)
    alias = infer_roles(fdef, widx, w)
    back = {a: c for c, a in alias.items()}
    canon = lambda names: {back.get(n, n) for n in names}
    known = tuple(alias.get(k_, k_) for k_ in known)
    if alias:
        havoc0 = havoc
        havoc = lambda ex, env, carried_: havoc0(ex, AliasEnv(env, alias), canon(carried_))

    def run_prefix(ex):
        env = bind(ex)
        ex.block(fdef.body[:widx], env)
        return Head(AliasEnv(env, alias) if alias else env, True)

    def run_from_head_with(hv):
        def run(ex):
            env = bind(ex)
            ex.block(fdef.body[:widx], env)
            ex.prefix_env = dict(env)
            ex.mark = len(ex.pc)
            hv(ex, env, carried)
            ex.head_env = dict(env)
            if ex.decide(ex.truth(ex.eval(w.test, env), w), w):
                ex.in_body = True
                ex.block(w.body, env)
                return Head(AliasEnv(env, alias) if alias else env, False)
            ex.in_body = False
            ex.block(fdef.body[widx + 1:], env)
            return None
        return run

    def run_from_head(ex):
        env = bind(ex)
        ex.block(fdef.body[:widx], env)
        ex.prefix_env = dict(env)
        ex.mark = len(ex.pc)
        havoc(ex, env, carried)
        ex.head_env = dict(env)
        if ex.decide(ex.truth(ex.eval(w.test, env), w), w):
            ex.in_body = True
            ex.block(w.body, env)
            return Head(AliasEnv(env, alias) if alias else env, False)
        ex.in_body = False
        ex.block(fdef.body[widx + 1:], env)
        return None

    pp = cx.explore(run_prefix, contracts=contracts, pre=pre)
    # loop-carried variables the havoc does not know (e.g. introduced by a refactoring): their possible shapes at the head are
    # inferred (prefix value + the values one iteration produces) and the head state forks over arbitrary values of each shape
    unknown = sorted(carried - set(known))
    if unknown:
        shapes = {}
        for _ in range(3):
            def havoc1(ex, env, carried_, shapes=shapes):
                havoc(ex, env, set(carried_) - set(unknown))
                _havoc_unknown(ex, env, unknown, shapes)
            probe = cx.explore(run_from_head_with(havoc1), contracts=contracts, pre=pre)
            changed = False
            for p in probe:
                envs = [p.ex.prefix_env] if hasattr(p.ex, 'prefix_env') else []
                if p.outcome == 'return' and isinstance(p.value, Head): envs.append(p.value.env)
                for e in envs:
                    for n in unknown:
                        if n not in e: continue
                        L = shapes.setdefault(n, [])
                        if not any(same_shape(e[n], q) for q in L): L.append(e[n]); changed = True
            if not changed: break
        def havoc2(ex, env, carried_):
            havoc(ex, env, set(carried_) - set(unknown))
            _havoc_unknown(ex, env, unknown, shapes)
        hp = cx.explore(run_from_head_with(havoc2), contracts=contracts, pre=pre)
    else:
        hp = cx.explore(run_from_head, contracts=contracts, pre=pre)
    return pp, hp, canon(carried)


def _havoc_unknown(ex, env, unknown, shapes):
    for n in unknown:
        L = shapes.get(n) or []
        if not L: continue                      # first probe: keep the prefix value
        chosen = L[-1]
        for i, sh in enumerate(L[:-1]):
            if ex.decide(bvar("shape.%s.%d" % (n, i))): chosen = sh; break
        v = template(chosen, "head.%s" % n)
        inv = ex.read_invariant(v)
        if inv is not None: ex.assume(inv, 'class invariant of a loop-carried object')
        env[n] = v
