"""Cut of a top-level `while` loop at its head (DESIGN 2.6): prefix segment, generic iteration from a havoc'd head
state, exit segment.  Used for the only `while` of the package (Pervaporation.calculate_partial_fluxes)."""
import ast
from .ir import *
from .symex import Exec, Raised, Ret, explore, Path, Obj, same_shape, template
from .ir import bvar
from .source import Unsupported


class Head:
    """outcome marker: control is back at the loop head with this environment"""
    def __init__(s, env, first): s.env = env; s.first = first


def find_while(fdef, src):
    idx = [i for i, st in enumerate(fdef.body) if isinstance(st, ast.While)]
    inner = [n for st in fdef.body for n in ast.walk(st) if isinstance(n, (ast.While,)) and n not in fdef.body]
    if len(idx) != 1 or inner: raise Unsupported("expected exactly one top-level while loop in %s" % fdef.name, fdef, src.path_of(fdef))
    w = fdef.body[idx[0]]
    if w.orelse: raise Unsupported("while/else", w)
    for n in ast.walk(w):
        if isinstance(n, (ast.Break, ast.Continue)): raise Unsupported("break/continue in while", n)
        if isinstance(n, (ast.For, ast.While)) and n is not w: raise Unsupported("nested loop in while", n)
    return idx[0], w


def carried_names(w):
    out = set()
    for n in ast.walk(w):
        if isinstance(n, ast.Name) and isinstance(n.ctx, ast.Store): out.add(n.id)
    return out


def segments(cx, fdef, bind, havoc, contracts=None, pre=(), inv=None, known=('d', 'iterations', 'permeate_composition', 'permeate_composition_new')):
    """bind(ex) -> env at function entry.   havoc(ex, env, carried) -> None: replaces the loop-carried variables by an
    arbitrary head state (and may assume the loop invariant on it).
    returns (prefix_paths, head_paths):
      prefix_paths: paths from entry; value is Head (reached the loop), or return/raise outcome
      head_paths:   paths from an arbitrary head state: value is Head (one iteration done), or return / raise"""
    src = cx.src
    widx, w = find_while(fdef, src)
    carried = carried_names(w)

    def run_prefix(ex):
        env = bind(ex)
        ex.block(fdef.body[:widx], env)
        return Head(env, True)

    def run_from_head_with(hv):
        def run(ex):
            env = bind(ex)
            ex.block(fdef.body[:widx], env)
            ex.prefix_env = dict(env)
            ex.mark = len(ex.pc)
            hv(ex, env, carried)
            ex.head_env = dict(env)
            if ex.decide(ex.truth(ex.eval(w.test, env), w), w):
                ex.in_body = True
                ex.block(w.body, env)
                return Head(env, False)
            ex.in_body = False
            ex.block(fdef.body[widx + 1:], env)
            return None
        return run

    def run_from_head(ex):
        env = bind(ex)
        ex.block(fdef.body[:widx], env)
        ex.prefix_env = dict(env)
        ex.mark = len(ex.pc)
        havoc(ex, env, carried)
        ex.head_env = dict(env)
        if ex.decide(ex.truth(ex.eval(w.test, env), w), w):
            ex.in_body = True
            ex.block(w.body, env)
            return Head(env, False)
        ex.in_body = False
        ex.block(fdef.body[widx + 1:], env)
        return None

    pp = cx.explore(run_prefix, contracts=contracts, pre=pre)
    # loop-carried variables the havoc does not know (e.g. introduced by a refactoring): their possible shapes at the head are
    # inferred (prefix value + the values one iteration produces) and the head state forks over arbitrary values of each shape
    unknown = sorted(carried - set(known))
    if unknown:
        shapes = {}
        for _ in range(3):
            def havoc1(ex, env, carried_, shapes=shapes):
                havoc(ex, env, set(carried_) - set(unknown))
                _havoc_unknown(ex, env, unknown, shapes)
            probe = cx.explore(run_from_head_with(havoc1), contracts=contracts, pre=pre)
            changed = False
            for p in probe:
                envs = [p.ex.prefix_env] if hasattr(p.ex, 'prefix_env') else []
                if p.outcome == 'return' and isinstance(p.value, Head): envs.append(p.value.env)
                for e in envs:
                    for n in unknown:
                        if n not in e: continue
                        L = shapes.setdefault(n, [])
                        if not any(same_shape(e[n], q) for q in L): L.append(e[n]); changed = True
            if not changed: break
        def havoc2(ex, env, carried_):
            havoc(ex, env, set(carried_) - set(unknown))
            _havoc_unknown(ex, env, unknown, shapes)
        hp = cx.explore(run_from_head_with(havoc2), contracts=contracts, pre=pre)
    else:
        hp = cx.explore(run_from_head, contracts=contracts, pre=pre)
    return pp, hp, carried


def _havoc_unknown(ex, env, unknown, shapes):
    for n in unknown:
        L = shapes.get(n) or []
        if not L: continue                      # first probe: keep the prefix value
        chosen = L[-1]
        for i, sh in enumerate(L[:-1]):
            if ex.decide(bvar("shape.%s.%d" % (n, i))): chosen = sh; break
        v = template(chosen, "head.%s" % n)
        inv = ex.read_invariant(v)
        if inv is not None: ex.assume(inv, 'class invariant of a loop-carried object')
        env[n] = v
