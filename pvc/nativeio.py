"""bridge to the native interpreter (/venv/bin/python, real PyVaporation from $PVC_REPO)"""
import json, os, subprocess, math, random
from .ir import T, B, ev, evb, EvalError, free_vars, lift
from .symex import Obj, PList, Vec, Seq, Opaque, Post, flatten
from .source import repo_root, Unsupported

HERE = os.path.dirname(os.path.dirname(os.path.abspath(__file__)))
NATIVE_PY = os.environ.get('PVC_NATIVE_PY', '/venv/bin/python')


def native(req, timeout=600, repo=None):
    env = dict(os.environ)
    env['PYTHONPATH'] = (repo or repo_root()) + os.pathsep + HERE
    env['PYTHONDONTWRITEBYTECODE'] = '1'
    env.pop('PYTHONHASHSEED', None)
    p = subprocess.run([NATIVE_PY, '-m', 'pvc.native.run'], input=json.dumps(req), capture_output=True, text=True, timeout=timeout,
                       env=env, cwd=HERE)
    if p.returncode != 0:
        raise Unsupported("native runner failed (exit %d): %s" % (p.returncode, (p.stderr or '')[-800:]))
    return json.loads(p.stdout)


def tree(v, env, memo=None):
    """symbolic value -> JSON tree of concrete numbers under env"""
    if memo is None: memo = {}
    if isinstance(v, T): return ev(v, env, memo)
    if v is None or isinstance(v, (bool, str, int, float)): return v
    if isinstance(v, Obj):
        d = {"__cls__": v.cls}
        for k, x in v.f.items(): d[k] = tree(x, env, memo)
        return d
    if isinstance(v, tuple): return {"__tuple__": [tree(x, env, memo) for x in v]}
    if isinstance(v, PList): return {"__list__": [tree(x, env, memo) for x in v.items]}
    if isinstance(v, Vec): return {"__list__": [tree(x, env, memo) for x in v.xs]}
    if isinstance(v, Opaque): return None
    if isinstance(v, dict): return None          # per-instance cache fields (attr.ib(factory=dict, init=False)): the native builder leaves them to the class
    raise Unsupported("cannot concretise %r" % type(v))


def close(a, b, rel=1e-9, absl=1e-12):
    if isinstance(a, str) or isinstance(b, str): return a == b
    return abs(a - b) <= absl + rel * max(abs(a), abs(b))


def same_tree(a, b, rel=1e-9, path=""):
    """None if equal, else description of the first difference.  Sequence container kinds are not distinguished."""
    def seq(x):
        if isinstance(x, dict) and '__tuple__' in x: return x['__tuple__']
        if isinstance(x, dict) and '__list__' in x: return x['__list__']
        if isinstance(x, list): return x
        return None
    sa, sb = seq(a), seq(b)
    if sa is not None or sb is not None:
        if sa is None or sb is None or len(sa) != len(sb): return "%s: %r vs %r" % (path, a, b)
        for i, (x, y) in enumerate(zip(sa, sb)):
            d = same_tree(x, y, rel, "%s[%d]" % (path, i))
            if d: return d
        return None
    if isinstance(a, dict) and isinstance(b, dict):
        if a.get('__cls__') != b.get('__cls__'): return "%s: class %r vs %r" % (path, a.get('__cls__'), b.get('__cls__'))
        for k in a:
            if k == '__cls__': continue
            if k not in b: return "%s.%s missing" % (path, k)
            d = same_tree(a[k], b[k], rel, "%s.%s" % (path, k))
            if d: return d
        return None
    if isinstance(a, bool) or isinstance(b, bool) or a is None or b is None: return None if a == b else "%s: %r vs %r" % (path, a, b)
    if isinstance(a, (int, float)) and isinstance(b, (int, float)):
        return None if close(a, b, rel) else "%s: %r vs %r" % (path, a, b)
    return None if a == b else "%s: %r vs %r" % (path, a, b)


def sample_env(names, ranges, rng):
    env = {}
    for n, t in names.items():
        lo, hi = ranges.get(n, ranges.get('*', (0.2, 2.0)))
        env[n] = rng.randint(int(lo), int(hi)) if t.a[1] == 'I' else rng.uniform(lo, hi)
    return env


def vars_of_value(v, out=None):
    if out is None: out = {}
    if isinstance(v, T): out.update(free_vars(v))
    elif isinstance(v, Obj):
        for x in v.f.values(): vars_of_value(x, out)
    elif isinstance(v, (tuple, list)):
        for x in v: vars_of_value(x, out)
    elif isinstance(v, PList):
        for x in v.items: vars_of_value(x, out)
    elif isinstance(v, Vec):
        for x in v.xs: vars_of_value(x, out)
    elif isinstance(v, dict):
        for x in v.values(): vars_of_value(x, out)
    return out


def differential(cx, qual, self_obj, args, kwargs, paths, ranges, n=None, label=None):
    """engine == CPython: the symbolic result of the path selected by a concrete input must equal the real function's
    result on that input (same exception class on raising paths).  A disagreement is exit 3 (DESIGN 2.10)."""
    n = n or (20 if cx.tier == 'quick' else 300)
    rng = random.Random(getattr(cx, 'seed', 0) * 7919 + hash(qual) % 1000)
    names = vars_of_value([self_obj, list(args), dict(kwargs)])
    for p in paths: names.update(free_vars(*p.pc))
    cases = []; expect = []
    tries = 0
    while len(cases) < n and tries < n * 60:
        tries += 1
        env = sample_env(names, ranges, rng)
        memo = {}
        try:
            sel = [p for p in paths if all(evb(c, env, memo) for c in p.pc)]
            if len(sel) != 1: continue
            p = sel[0]
            exp_ = ('raise', p.value) if p.outcome == 'raise' else ('return', tree(p.value, env, memo))
            spec = dict(func=qual, self=tree(self_obj, env, memo) if self_obj is not None else None,
                        args=[tree(a, env, memo) for a in args], kwargs={k: tree(v, env, memo) for k, v in kwargs.items()})
        except EvalError:
            continue
        cases.append(spec); expect.append((exp_, env))
    if not cases: raise Unsupported("differential check of %s: no evaluable sample" % qual)
    if not hasattr(cx, 'diff_queue'): cx.diff_queue = []
    cx.diff_queue.append((qual, label, cases, expect))


def flush_differential(cx):
    """one native interpreter run for all queued differential samples"""
    q = getattr(cx, 'diff_queue', [])
    if not q: return
    allc = [c for (_, _, cases, _) in q for c in cases]
    out = native(dict(cmd='call', calls=allc))
    i = 0
    for qual, label, cases, expect in q:
        bad = []
        for spec, (exp_, env) in zip(cases, expect):
            got = out[i]; i += 1
            if exp_[0] == 'raise':
                if got.get('raise') != exp_[1]: bad.append((env, exp_, got))
            else:
                if 'raise' in got: bad.append((env, exp_, got)); continue
                d = same_tree(exp_[1], got['return'], 1e-8)
                if d: bad.append((env, d, got))
        rec = dict(function=qual, label=label, samples=len(cases), disagreements=len(bad))
        cx.notes.append(dict(differential=rec))
        cx.diff_total = getattr(cx, 'diff_total', 0) + len(cases)
        if bad:
            raise Unsupported("ENGINE-DIFFERENTIAL %s: symbolic executor and CPython disagree on %d of %d inputs, e.g. %r" % (qual, len(bad), len(cases), bad[0]))
    cx.diff_queue = []
