"""Index of the real PyVaporation source: re-read from $PVC_REPO on every run (no cache)."""
import ast, os


class Unsupported(Exception):
    """construct outside the executor's Python subset -> pvc exit 3 (never a verdict)"""
    def __init__(s, msg, node=None, path=None):
        loc = ""
        if node is not None and hasattr(node, 'lineno'): loc = ":%d" % node.lineno
        Exception.__init__(s, "UNSUPPORTED %s%s %s" % (path or "", loc, msg))


def repo_root():
    return os.environ.get("PVC_REPO", "/repo")


class Source:
    def __init__(s, repo=None):
        s.repo = repo or repo_root()
        s.mods = {}; s.text = {}
        root = os.path.join(s.repo, "pyvaporation")
        if not os.path.isdir(root): raise Unsupported("no pyvaporation package under %s" % s.repo)
        for d, _, fs in sorted(os.walk(root)):
            for f in sorted(fs):
                if f.endswith(".py"):
                    p = os.path.join(d, f)
                    rel = os.path.relpath(p, s.repo)
                    txt = open(p).read()
                    s.text[rel] = txt
                    s.mods[rel] = ast.parse(txt, p)
        s.classes = {}      # name -> (path, ClassDef)      (class names are unique in the package; checked)
        s.funcs = {}        # (path, name) -> FunctionDef
        s.gfuncs = {}       # name -> [(path, FunctionDef)]
        s.consts = {}       # (path, name) -> python constant / ast of module-level simple assignment
        s.gconsts = {}
        for path, m in s.mods.items():
            for n in m.body:
                if isinstance(n, ast.ClassDef):
                    if n.name in s.classes: raise Unsupported("duplicate class name " + n.name, n, path)
                    s.classes[n.name] = (path, n)
                elif isinstance(n, ast.FunctionDef):
                    s.funcs[(path, n.name)] = n
                    s.gfuncs.setdefault(n.name, []).append((path, n))
                elif isinstance(n, ast.Assign) and len(n.targets) == 1 and isinstance(n.targets[0], ast.Name):
                    s.consts[(path, n.targets[0].id)] = n.value
                    s.gconsts.setdefault(n.targets[0].id, []).append((path, n.value))
                elif isinstance(n, ast.AnnAssign) and isinstance(n.target, ast.Name) and n.value is not None:
                    s.consts[(path, n.target.id)] = n.value
                    s.gconsts.setdefault(n.target.id, []).append((path, n.value))
        for path, m in s.mods.items():
            for n in ast.walk(m):
                for c in ast.iter_child_nodes(n):
                    c._pvc_path = path

    # ------------------------------------------------------------------ lookups
    def path_of(s, node): return getattr(node, '_pvc_path', None)

    def cls(s, name): return s.classes[name][1]

    def method(s, cls, name):
        for n in s.classes[cls][1].body:
            if isinstance(n, ast.FunctionDef) and n.name == name: return n
        return None

    def func(s, name, path=None):
        if path is not None and (path, name) in s.funcs: return s.funcs[(path, name)]
        c = s.gfuncs.get(name, [])
        if len(c) == 1: return c[0][1]
        if not c: return None
        raise Unsupported("ambiguous function name %s" % name)

    def find(s, qual):
        """'Class.method' or 'function' or 'file.py:function' -> FunctionDef"""
        if ':' in qual:
            p, n = qual.split(':')
            for (path, name), f in s.funcs.items():
                if name == n and path.endswith(p): return f
            raise Unsupported("no function " + qual)
        if '.' in qual:
            c, m = qual.split('.')
            if c not in s.classes: raise Unsupported("no class " + c)
            f = s.method(c, m)
        else:
            f = s.func(qual)
        if f is None: raise Unsupported("function %s not found in the source" % qual)
        return f

    def class_consts(s, cls):
        """class-level simple constants (AnnAssign / Assign with constant value)"""
        out = {}
        for n in s.classes[cls][1].body:
            if isinstance(n, ast.AnnAssign) and isinstance(n.value, ast.Constant) and isinstance(n.target, ast.Name):
                out[n.target.id] = n.value.value
            elif isinstance(n, ast.Assign) and len(n.targets) == 1 and isinstance(n.targets[0], ast.Name) \
                    and isinstance(n.value, ast.Constant):
                out[n.targets[0].id] = n.value.value
        return out

    def is_attrs(s, cls):
        for d in s.classes[cls][1].decorator_list:
            u = ast.unparse(d)
            if u.startswith("attr.s") or u.startswith("attr.define") or u.startswith("attrs."): return True
        return False

    def attrs_fields(s, cls):
        """[(name, default_ast|None, validator_ast|None, converter_ast|None, has_default)] in declaration order"""
        out = []
        for n in s.classes[cls][1].body:
            if isinstance(n, ast.AnnAssign) and isinstance(n.target, ast.Name):
                d = v = c = None; has = False; noinit = False
                if n.value is not None:
                    if isinstance(n.value, ast.Call) and ast.unparse(n.value.func) == "attr.ib":
                        for k in n.value.keywords:
                            if k.arg == "default": d = k.value; has = True
                            elif k.arg == "factory":
                                # factory=f  ==  a fresh f() per instance
                                d = ast.copy_location(ast.Call(func=k.value, args=[], keywords=[]), k.value); ast.fix_missing_locations(d); has = True
                            elif k.arg == "validator": v = k.value
                            elif k.arg == "converter": c = k.value
                            elif k.arg in ("eq", "repr", "hash", "order", "kw_only", "metadata"): pass
                            elif k.arg == "init":
                                if not (isinstance(k.value, ast.Constant) and k.value.value in (True, False)): raise Unsupported("attr.ib(init=<expr>)", n, s.classes[cls][0])
                                if k.value.value is False: noinit = True
                            else: raise Unsupported("attr.ib(%s=...)" % k.arg, n, s.classes[cls][0])
                    else:
                        d = n.value; has = True
                out.append((n.target.id, d, v, c, has) if not noinit else (n.target.id, d, v, c, 'noinit'))
        return out

    def span(s, node):
        return "%s:%d-%d" % (s.path_of(node) or getattr(node, '_pvc_path', '?'), node.lineno, getattr(node, 'end_lineno', node.lineno))

    def attrs_switch_refs(s):
        """AST scan: every reference in the package to the process-global attrs validator switch (`attr.validators.set_disabled`,
        `attr.set_run_validators`, `attr.validators.disabled()`), however imported"""
        out = []
        for path, m in s.mods.items():
            for n in ast.walk(m):
                hit = None
                if isinstance(n, ast.Attribute) and n.attr in ('set_disabled', 'set_run_validators'): hit = ast.unparse(n)
                elif isinstance(n, ast.Attribute) and n.attr == 'disabled' and ast.unparse(n.value).endswith('validators'): hit = ast.unparse(n)
                elif isinstance(n, ast.Name) and n.id in ('set_disabled', 'set_run_validators'): hit = n.id
                elif isinstance(n, ast.ImportFrom) and any(a.name in ('set_disabled', 'set_run_validators', 'disabled') for a in n.names) and (n.module or '').startswith(('attr', 'attrs')):
                    hit = ast.unparse(n)
                if hit: out.append((path, getattr(n, 'lineno', 0), hit[:80]))
        return sorted(set(out))

    def writes_to_field(s, field):
        """AST scan: every `<expr>.<field> = ...` / augmented assignment in the package (class invariants rely on none)"""
        out = []
        for path, m in s.mods.items():
            for n in ast.walk(m):
                tg = []
                if isinstance(n, ast.Assign): tg = n.targets
                elif isinstance(n, (ast.AugAssign, ast.AnnAssign)): tg = [n.target]
                for t in tg:
                    for e in ast.walk(t):
                        if isinstance(e, ast.Attribute) and e.attr == field and isinstance(e.ctx, ast.Store):
                            out.append((path, n.lineno, ast.unparse(n)[:80]))
        return out
