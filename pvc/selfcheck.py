"""run-time guards of the trusted parts of pvc (DESIGN 2.10): differentiator vs finite differences"""
import random, os
from .ir import ev, EvalError, free_vars
from .source import Unsupported


def check_D(t, x, dt, ranges, n=12, seed=None):
    """dt is claimed to be d t / d x: compare with central finite differences at random points (exit 3 on disagreement)"""
    rng = random.Random(int(os.environ.get('VERIF_SEED', '0')) + 991 if seed is None else seed)
    fv = free_vars(t, dt)
    good = 0
    for _ in range(n * 20):
        env = {k: rng.uniform(*ranges.get(k, (0.2, 2.0))) for k in fv}
        try:
            x0 = env[x]; h = 1e-5 * max(1.0, abs(x0))
            e1 = dict(env); e1[x] = x0 + h
            e2 = dict(env); e2[x] = x0 - h
            fd = (ev(t, e1) - ev(t, e2)) / (2 * h)
            an = ev(dt, env)
        except EvalError:
            continue
        if abs(fd - an) > 1e-4 * max(1.0, abs(fd), abs(an)):
            raise Unsupported("differentiator self-check failed: d/d%s numeric %r vs symbolic %r at %r" % (x, fd, an, env))
        good += 1
        if good >= n: return good
    if good == 0: raise Unsupported("differentiator self-check found no evaluable point")
    return good
