"""Obligations and their discharge: z3 emission (Ackermann variables for callee applications, fresh reals for
exp/log atoms), merge pre-pass, SMT-LIB export, second back ends, numeric validation of every model."""
import math, os, random, subprocess, sys, tempfile, time, multiprocessing, traceback
from fractions import Fraction
import z3
from .ir import (T, B, lift, var, cmp, eq, band, bor, bnot, implies, TRUE, FALSE, show, showb, brief, walk, collect,
                 ev, evb, evb3, EvalError, free_vars)

Z3_OLD = "/usr/bin/z3"
CVC5 = "/usr/bin/cvc5"


class Ob:
    """one proof obligation: hyps |- goal   (expect='unsat' of hyps & ~goal);  expect='sat' = cover / must-fail"""
    def __init__(s, name, hyps, goal, prop=None, expect='unsat', meta=None, lemmas=()):
        s.name = name; s.hyps = [h for h in hyps]; s.goal = goal; s.prop = prop; s.expect = expect
        s.meta = dict(meta or {}); s.lemmas = list(lemmas)

    def __repr__(s): return "Ob(%s)" % s.name


# ------------------------------------------------------------------------------------------------ z3 emission
class Z:
    def __init__(s):
        s.vars = {}; s.rep = {}; s.side = []; s.memo = {}; s.bmemo = {}; s.natoms = 0; s.napps = 0; s.mono = False
        s.names = {}          # z3 const name -> ('var', name) | ('app', term) | ('atom', term)

    def v(s, n, sort='R'):
        if n not in s.vars:
            s.vars[n] = z3.Int(n) if sort == 'I' else z3.Real(n)
            s.names[n] = ('var', n)
        return s.vars[n]

    def fresh_for(s, t):
        """z3 real constant standing for an app / exp / log node (after merging: for its class)"""
        r = s.rep.get(t.id)
        if r is None:
            if t.op == 'app':
                nm = "@%s!%d" % (t.a[0], s.napps); s.napps += 1
                r = z3.Real(nm); s.names[nm] = ('app', t)
            else:
                nm = "@%s!%d" % (t.op, s.natoms); s.natoms += 1
                r = z3.Real(nm); s.names[nm] = ('atom', t)
                s.rep[t.id] = r
                u = s.t(t.a[0])
                # sound schema instances (DESIGN 2.3): sign/point facts of exp and log
                if t.op == 'exp':
                    s.side.append(r > 0)
                    if s.mono: s.side.append(z3.Implies(u == 0, r == 1))
                    if s.mono == 'mono': s.side.append(z3.Implies(u > 0, r > 1)); s.side.append(z3.Implies(u < 0, r < 1))
                else:
                    if s.mono: s.side.append(z3.Implies(u == 1, r == 0))
                    if s.mono == 'mono': s.side.append(z3.Implies(u > 1, r > 0)); s.side.append(z3.Implies(z3.And(u > 0, u < 1), r < 0))
            s.rep[t.id] = r
        return r

    def t(s, x):
        r = s.memo.get(x.id)
        if r is not None: return r
        o = x.op
        if o == 'c':
            f = x.a[0]
            r = z3.RealVal(f.numerator) if f.denominator == 1 else z3.Q(f.numerator, f.denominator)
        elif o == 'v': r = s.v(x.a[0], x.a[1])
        elif o in ('app', 'exp', 'log'):
            r = s.fresh_for(x)
        elif o == 'ite': r = z3.If(s.b(x.a[0]), s.t(x.a[1]), s.t(x.a[2]))
        else:
            a, b = s.t(x.a[0]), s.t(x.a[1])
            r = a + b if o == '+' else a - b if o == '-' else a * b if o == '*' else a / b
        s.memo[x.id] = r
        return r

    def b(s, x):
        r = s.bmemo.get(x.id)
        if r is not None: return r
        o = x.op
        if o == 'lit': r = z3.BoolVal(x.a[0])
        elif o == 'bvar': r = z3.Bool(x.a[0])
        elif o == 'not': r = z3.Not(s.b(x.a[0]))
        elif o == 'and': r = z3.And(*[s.b(y) for y in x.a])
        elif o == 'or': r = z3.Or(*[s.b(y) for y in x.a])
        else:
            k = x.a[0]; a, b = s.t(x.a[1]), s.t(x.a[2])
            r = {'<': a < b, '<=': a <= b, '>': a > b, '>=': a >= b, '==': a == b, '!=': a != b}[k]
        s.bmemo[x.id] = r
        return r


def _nodes(ob):
    """app and exp/log nodes of an obligation, innermost first"""
    xs = list(ob.hyps) + [ob.goal]
    out = collect(xs, lambda n: isinstance(n, T) and n.op in ('app', 'exp', 'log'))
    depth = {}
    def d(n):
        if n.id in depth: return depth[n.id]
        r = 0
        for c in (n.a if not (isinstance(n, T) and n.op in ('c', 'v')) else ()):
            if isinstance(c, (T, B)): r = max(r, d(c))
        r += 1 if isinstance(n, T) and n.op in ('app', 'exp', 'log') else 0
        depth[n.id] = r
        return r
    sys.setrecursionlimit(max(sys.getrecursionlimit(), 100000))
    out.sort(key=lambda n: (d(n), n.id))
    return out


def merge_pass(ob, log, budget_ms=2000):
    """Ackermann / atom unification: two nodes of the same kind share one z3 constant when their arguments are
    proved pairwise equal under the hypotheses (tiny sub-queries, logged).  Missing a merge is sound.
    returns {node id -> representative node}"""
    nodes = _nodes(ob)
    parent = {}
    count = {}
    for n in nodes:
        k = (n.op, n.a[0], len(n.a)) if n.op == 'app' else (n.op,)
        count[k] = count.get(k, 0) + 1
    if all(c < 2 for c in count.values()): return parent
    zu = Z(); solver = None
    reps_by = {}
    rmemo = {}
    penv = []
    eqs = _eq_subst(ob)
    smemo = {}
    for n in nodes:
        k = (n.op, n.a[0], len(n.a)) if n.op == 'app' else (n.op,)
        reps = reps_by.setdefault(k, [])
        args = n.a[1:] if n.op == 'app' else n.a
        for r in reps:
            rargs = r.a[1:] if r.op == 'app' else r.a
            diff = [(x, y) for x, y in zip(args, rargs) if x is not y]
            if diff and eqs:
                from .ir import subst as _sb
                diff = [(x2, y2) for x2, y2 in ((_sb(x, eqs, smemo), _sb(y, eqs, smemo)) for x, y in diff) if x2 is not y2]
            if not diff:
                ok = True
            elif any(x.op == 'c' and y.op == 'c' for x, y in diff):
                ok = False
            elif any(_index_separated(x, y) for x, y in diff):
                ok = False          # the two nodes speak about different generic elements (fresh index variables): never merged (skipping is sound)
            elif all(_ring_eq_merged(x, y, parent, rmemo) for x, y in diff):
                ok = True
                log.append(dict(kind='merge', node=brief(n, 60), with_=brief(r, 60), ok=True, by='ring-normal-form'))
            else:
                differs = _numerically_different(diff, ob, penv)
                if solver is None:
                    solver = z3.Solver()
                    solver.add(*[zu.b(h) for h in ob.hyps])
                solver.set('timeout', 250 if differs else budget_ms)
                solver.push()
                solver.add(z3.Or(*[zu.t(x) != zu.t(y) for x, y in diff])); solver.add(*zu.side)
                t0 = time.time(); ok = solver.check() == z3.unsat
                solver.pop()
                log.append(dict(kind='merge', node=brief(n, 60), with_=brief(r, 60), ok=ok, t=round(time.time() - t0, 3)))
            if ok:
                parent[n.id] = r
                if solver is not None: solver.add(zu.t(n) == zu.t(r))
                break
        else:
            reps.append(n)
    return parent


_IMPL = {('>', '>'), ('>', '>='), ('>', '!='), ('>=', '>='), ('==', '>='), ('==', '<='), ('==', '=='), ('<', '<'), ('<', '<='), ('<', '!='), ('<=', '<='), ('!=', '!=')}
_NEG = {'>': '<=', '>=': '<', '<': '>=', '<=': '>', '==': '!=', '!=': '=='}
_FLIP = {'>': '<', '>=': '<=', '<': '>', '<=': '>=', '==': '==', '!=': '!='}


def resolve_ites(g, hyps, limit=40):
    """ite(c, a, b) nodes of the goal whose condition (or its negation) is literally one of the hypotheses up to ring equality of
    `lhs - rhs` are replaced by the selected branch (sound: the hypotheses are assumed anyway)"""
    from .ir import collect, subst, ring_equal
    facts = []
    for h in hyps:
        for c in (h.a if h.op == 'and' else (h,)):
            if getattr(c, 'op', None) == 'cmp': facts.append((c.a[0], c.a[1] - c.a[2]))
    ites = collect([g], lambda n: isinstance(n, T) and n.op == 'ite')[:limit]
    repl = {}
    for it in ites:
        c = it.a[0]
        if getattr(c, 'op', None) != 'cmp': continue
        d = c.a[1] - c.a[2]; op = c.a[0]
        for (op2, d2) in facts[:200]:
            try:
                same = ring_equal(d, d2); opp = (not same) and ring_equal(d, -d2)
            except Exception:
                continue
            if not (same or opp): continue
            o2 = op2 if same else _FLIP[op2]
            if (o2, op) in _IMPL: repl[('#', it.id)] = it.a[1]; break
            if (o2, _NEG[op]) in _IMPL: repl[('#', it.id)] = it.a[2]; break
    return subst(g, repl) if repl else g


def _eq_subst(ob):
    """hypotheses of the form  variable == term  as a substitution (used to compare application arguments modulo simple
    equalities of the path condition, e.g. the branch `curve temperature == feed temperature`)"""
    m = {}
    for h in ob.hyps:
        for c in (h.a if h.op == 'and' else (h,)):
            if c.op == 'cmp' and c.a[0] == '==':
                a, b = c.a[1], c.a[2]
                for v, t in ((a, b), (b, a)):
                    if v.op == 'v' and v.a[0] not in m and v.a[0] not in free_vars(t) and not any(v.a[0] in free_vars(x) for x in m.values()):
                        m[v.a[0]] = t; break
    return m


def _numerically_different(diff, ob, penv):
    """cheap pre-filter: do the argument pairs differ at random points (ignoring the hypotheses)?  Only used to give
    hopeless merge queries a small budget - skipping a merge is always sound."""
    if not penv:
        rng = random.Random(12345)
        xs = list(ob.hyps) + [ob.goal]
        fv = free_vars(*xs)
        apps = collect(xs, lambda n: isinstance(n, T) and n.op == 'app')
        for _ in range(3):
            env = {}
            for n, t in fv.items():
                lo, hi = default_range(n, t.a[1]); env[n] = rng.randint(int(lo), int(hi)) if t.a[1] == 'I' else rng.uniform(lo, hi)
            for a in apps:
                lo, hi = default_range(a.a[0], 'R'); env[('#', a.id)] = rng.uniform(lo, hi)
            penv.append(env)
    votes = 0
    for env in penv:
        try:
            memo = {}
            if any(abs(ev(x, env, memo) - ev(y, env, memo)) > 1e-6 * max(1.0, abs(ev(x, env, memo))) for x, y in diff): votes += 1
        except EvalError:
            pass
    return votes == len(penv)


def _index_separated(x, y, depth=0):
    """x and y are the same expression except that they mention different generic index variables (fresh `name!k` variables)"""
    if x is y or depth > 6: return False
    if not (isinstance(x, T) and isinstance(y, T)): return False
    if x.op == 'v' and y.op == 'v':
        return x.a[0] != y.a[0] and ('!' in str(x.a[0]) or '!' in str(y.a[0]))
    if x.op != y.op or len(x.a) != len(y.a): return False
    found = False
    for a, b in zip(x.a, y.a):
        if a is b or a == b: continue
        if isinstance(a, T) and isinstance(b, T) and _index_separated(a, b, depth + 1): found = True
        else: return False
    return found


def _ring_eq_merged(x, y, parent, rmemo):
    """x == y as rational functions, where already merged application/atom nodes are replaced by their representatives"""
    from .ir import ring_equal, subst
    if parent:
        m = {('#', i): r for i, r in parent.items()}
        key = len(parent)
        sm = rmemo.setdefault(('s', key), {})
        x = subst(x, m, sm); y = subst(y, m, sm)
    try:
        return ring_equal(x, y, rmemo.setdefault(('r', len(parent)), {}))
    except RecursionError:
        return False


def lemma_pass(ob, zz, log, budget_ms=5000):
    """relational lemma rewriting (DESIGN 2.5): a lemma is (name, match(ob_apps) -> [(premise B, [(app_a, term_b)])]).
    When the premise is discharged under the hypotheses, app_a's constant is *defined* by the related term."""
    extra = []
    if not ob.lemmas: return extra
    hyp = [zz.b(h) for h in ob.hyps]
    apps = [n for n in _nodes(ob) if n.op == 'app']
    for lem in ob.lemmas:
        for premise, equations, label in lem(apps):
            s = z3.Solver(); s.set('timeout', budget_ms)
            s.add(*hyp); s.add(*zz.side); s.add(z3.Not(zz.b(premise)))
            t0 = time.time(); ok = s.check() == z3.unsat
            log.append(dict(kind='lemma', label=label, ok=ok, t=round(time.time() - t0, 3)))
            if ok:
                for a, b in equations: extra.append(zz.t(a) == zz.t(b))
    return extra


def build_query(ob, log, parent=None):
    zz = Z(); zz.mono = ob.meta.get('schema')      # None | 'point' | 'mono': exp/log schema instances (DESIGN 2.3)
    if parent is None: parent = merge_pass(ob, log)
    for n in _nodes(ob):
        if n.id in parent: zz.rep[n.id] = zz.fresh_for(parent[n.id])
        else: zz.fresh_for(n)
    extra = lemma_pass(ob, zz, log)
    hyps = [zz.b(h) for h in ob.hyps]
    goal = zz.b(ob.goal)
    cons = hyps + list(zz.side) + extra
    if ob.expect == 'unsat': cons.append(z3.Not(goal))
    elif ob.goal is not FALSE and ob.goal is not TRUE: cons.append(z3.Not(goal))   # must-fail obligations
    return zz, cons


def _val(v):
    if z3.is_int_value(v): return float(v.as_long())
    if z3.is_rational_value(v):
        return float(Fraction(v.numerator_as_long(), v.denominator_as_long()))
    if z3.is_algebraic_value(v):
        return float(v.approx(30).as_fraction())
    try: return float(v.as_decimal(20).rstrip('?'))
    except Exception: return None


def model_env(zz, model):
    env = {}
    for d in model.decls():
        nm = d.name(); v = model[d]
        if nm in zz.names:
            kind, x = zz.names[nm]
            if kind == 'var': env[x] = _val(v) if not z3.is_bool(v) else bool(v)
    for n, c in zz.vars.items():
        if n not in env:
            v = model.eval(c, model_completion=True); env[n] = _val(v)
    # app constants (after merging several nodes may share one)
    appvals = {}
    for tid, c in zz.rep.items():
        appvals[tid] = _val(model.eval(c, model_completion=True))
    return env, appvals


def validate(ob, zz, env, appvals):
    """re-evaluate the obligation with true exp/log at the model's program variables (running error bounds,
    three-valued).  returns (ok, detail): ok = no hypothesis is definitely false and the goal is definitely false"""
    e = dict(env)
    for n in collect(list(ob.hyps) + [ob.goal], lambda n: isinstance(n, T) and n.op == 'app'):
        if n.id in appvals and appvals[n.id] is not None: e[('#', n.id)] = appvals[n.id]
    memo = {}
    try:
        # functional consistency of the callee results in the model: equal arguments must give equal values
        apps = collect(list(ob.hyps) + [ob.goal], lambda n: isinstance(n, T) and n.op == 'app')
        byname = {}
        for n in apps: byname.setdefault((n.a[0], len(n.a)), []).append(n)
        from .ir import eve
        for grp in byname.values():
            for i in range(len(grp)):
                for j in range(i + 1, len(grp)):
                    a, b = grp[i], grp[j]
                    va, vb = e.get(('#', a.id)), e.get(('#', b.id))
                    if va is None or vb is None or va == vb: continue
                    same = True
                    for x, y in zip(a.a[1:], b.a[1:]):
                        if x is y: continue
                        (p, ep), (q, eq_) = eve(x, e, memo), eve(y, e, memo)
                        if abs(p - q) > 64 * (ep + eq_) + 1e-9 * max(abs(p), abs(q)): same = False; break
                    if same: return False, "model is not functionally consistent for %s (abstraction artefact)" % a.a[0]
        for h in ob.hyps:
            if evb3(h, e, memo) is False: return False, "hypothesis fails numerically: " + brief(h, 120)
        g = ob.goal
        if g is FALSE or g is TRUE: return True, "hypotheses hold numerically"
        r = evb3(g, e, memo)
        if r is False: return True, "goal fails numerically"
        return False, "goal not definitely false at the model (abstraction artefact or rounding)"
    except EvalError as x:
        return False, "evaluation error: %s" % x


def run_cli(cmd, text, timeout):
    with tempfile.NamedTemporaryFile('w', suffix='.smt2', delete=False) as f:
        f.write(text); p = f.name
    try:
        r = subprocess.run(cmd + [p], capture_output=True, text=True, timeout=timeout + 5)
        out = (r.stdout or '').strip().splitlines()
        return out[0].strip() if out else 'unknown'
    except subprocess.TimeoutExpired:
        return 'timeout'
    finally:
        os.unlink(p)


def _solve_atomic(ob, timeout_s=60, second=False, seed=0, parent=None):
    """returns a result dict; never raises"""
    t0 = time.time(); log = []
    res = dict(name=ob.name, prop=ob.prop, expect=ob.expect, status='undecided', backend=None, detail='', meta=ob.meta)
    try:
        r = z3.unknown; model = None; backend = 'z3-%s' % z3.get_version_string()
        if ob.expect == 'unsat' and not ob.meta.get('noring'):
            from .ir import ring_proves
            try:
                if ring_proves(ob.goal):
                    res['status'] = 'discharged'; res['backend'] = 'ring-normal-form'; res['time'] = round(time.time() - t0, 3); res['sublog'] = log
                    if second:
                        zz, cons = build_query(ob, log); s_ = z3.Solver(); s_.add(*cons)
                        o = run_cli([Z3_OLD, '-T:%d' % int(min(timeout_s, 60))], s_.to_smt2(), min(timeout_s, 60)) if os.path.exists(Z3_OLD) else 'n/a'
                        res['second'] = dict(backend='z3-4.8.12(cli)', answer=o)
                        if o == 'sat': res['status'] = 'disagree'; res['detail'] = 'ring normal form says identity, z3 4.8.12 says sat'
                    return res
            except RecursionError:
                pass
        if ob.expect == 'unsat' and not ob.meta.get('noprobe'):
            early = numeric_probe(ob, seed, tries=600, want=40)
            if early and early.get('status') == 'refuted':
                res.update(early); res['backend'] = 'numeric-sampling'; res['time'] = round(time.time() - t0, 3); res['sublog'] = log
                return res
        if ob.expect == 'unsat' and not ob.meta.get('noring'):
            # callee applications / exp-log atoms with provably equal arguments are identified first, then the ring normal form is tried again
            try:
                par = parent if parent is not None else merge_pass(ob, log)
                parent = par
                if par:
                    from .ir import ring_proves, subst
                    g2 = subst(ob.goal, {('#', i): r_ for i, r_ in par.items()})
                    if ring_proves(g2):
                        res['status'] = 'discharged'; res['backend'] = 'ring-normal-form(after merging applications)'; res['time'] = round(time.time() - t0, 3); res['sublog'] = log
                        return res
                    mp_ = {('#', i): r_ for i, r_ in par.items()}
                    g3 = resolve_ites(g2, [subst(h, mp_) for h in ob.hyps])
                    if g3 is not g2 and ring_proves(g3):
                        res['status'] = 'discharged'; res['backend'] = 'ring-normal-form(after merging applications; case distinctions decided by hypotheses)'; res['time'] = round(time.time() - t0, 3); res['sublog'] = log
                        return res
            except RecursionError:
                pass
        # hypothesis slicing: first without the (redundant, separately proved) disequalities of the path condition -
        # fewer hypotheses make a stronger statement, so `unsat` there is a valid discharge; `sat` there means nothing
        # ... and without facts about generic indices (fresh `name!k` variables of comprehension / loop elements) that the goal does
        # not mention: they describe other elements of the lists
        from .ir import free_vars as _fv
        gv_ = set(_fv(ob.goal))
        def _other_index(h):
            return any('!' in str(v_) and v_ not in gv_ for v_ in _fv(h))
        slim = [h for h in ob.hyps if not (h.op == 'cmp' and h.a[0] == '!=') and not _other_index(h)]
        if ob.expect == 'unsat' and len(slim) < len(ob.hyps) and not ob.meta.get('noslice'):
            ob2 = Ob(ob.name, slim, ob.goal, ob.prop, ob.expect, ob.meta, ob.lemmas)
            zz2, cons2 = build_query(ob2, log, parent)
            s0 = z3.Solver(); s0.set('timeout', int(timeout_s * 300)); s0.add(*cons2)
            if s0.check() == z3.unsat:
                r = z3.unsat; backend += '(sliced hypotheses)'; smt2 = s0.to_smt2(); res['smt2_bytes'] = len(smt2)
        if r != z3.unsat:
            zz, cons = build_query(ob, log, parent)
            # z3's behaviour on these nonlinear queries depends on its random seed: several shorter attempts with different seeds instead of
            # one long one, so that an unlucky seed does not turn a 2-second proof into a timeout
            r = z3.unknown; model = None
            for att, share in enumerate((120, 160, 220)):
                s = z3.Solver(); s.set('timeout', int(timeout_s * share)); s.set('random_seed', (seed + 7919 * att) % 1000)
                s.add(*cons)
                if att == 0:
                    smt2 = s.to_smt2(); res['smt2_bytes'] = len(smt2)
                r = s.check()
                if r != z3.unknown:
                    model = s.model() if r == z3.sat else None
                    if att: backend += '(seed attempt %d)' % (att + 1)
                    break
        if r == z3.unknown:
            # alternative strategy: nlsat tactic on the purified goal
            try:
                g = z3.Goal(); g.add(*cons)
                tac = z3.TryFor(z3.Then('simplify', 'purify-arith', 'elim-term-ite', 'solve-eqs', 'qfnra-nlsat'), int(timeout_s * 200))
                s2 = tac.solver(); s2.add(*cons)
                r2 = s2.check()
                if r2 != z3.unknown:
                    r = r2; backend += '(nlsat tactic)'; model = s2.model() if r == z3.sat else None
            except z3.Z3Exception:
                pass
        if r == z3.unknown and os.path.exists(Z3_OLD):
            o = run_cli([Z3_OLD, '-T:%d' % max(5, int(timeout_s * 0.3))], smt2, max(5, timeout_s * 0.3))
            if o == 'unsat': r = z3.unsat; backend = 'z3-4.8.12(cli)'
        if r == z3.unknown and os.path.exists(CVC5) and ob.meta.get('linear'):
            o = run_cli([CVC5, '--tlimit=%d' % int(timeout_s * 1000)], smt2, timeout_s)
            if o == 'unsat': r = z3.unsat; backend = 'cvc5-1.0.3(cli)'
        res['backend'] = backend
        if second and r != z3.unknown and os.path.exists(Z3_OLD):
            o = run_cli([Z3_OLD, '-T:%d' % int(min(timeout_s, 60))], smt2, min(timeout_s, 60))
            res['second'] = dict(backend='z3-4.8.12(cli)', answer=o)
            if o in ('sat', 'unsat') and o != str(r):
                res['status'] = 'disagree'; res['detail'] = "back ends disagree: %s vs %s" % (r, o)
                return res
        if ob.expect == 'unsat':
            if r == z3.unsat: res['status'] = 'discharged'
            elif r == z3.sat:
                env, appvals = model_env(zz, model)
                ok, why = validate(ob, zz, env, appvals)
                res['model'] = {k: v for k, v in env.items() if isinstance(k, str)}
                res['model_apps'] = {brief(n, 200): appvals.get(n.id) for n in _nodes(ob) if n.op == 'app'}
                res['detail'] = why
                res['status'] = 'refuted' if ok else 'undecided'
                if not ok:
                    # degenerate model (goal only violated by an abstraction artefact or by rounding): ask for a robust violation
                    sg = strict_neg(ob.goal)
                    if sg is not None:
                        s3 = z3.Solver(); s3.set('timeout', int(timeout_s * 300)); s3.add(*cons); s3.add(zz.b(sg))
                        if s3.check() == z3.sat:
                            env, appvals = model_env(zz, s3.model())
                            ok, why = validate(ob, zz, env, appvals)
                            if ok:
                                res['model'] = {k: v for k, v in env.items() if isinstance(k, str)}
                                res['model_apps'] = {brief(n, 200): appvals.get(n.id) for n in _nodes(ob) if n.op == 'app'}
                                res['detail'] = why + ' (robust model)'; res['status'] = 'refuted'
            else:
                res['detail'] = 'solver: unknown/timeout'
        else:   # cover / must-fail: sat expected
            if r == z3.sat:
                env, appvals = model_env(zz, model)
                ok, why = validate(ob, zz, env, appvals)
                if not ok and ob.meta.get('kind') == 'mustfail':
                    ok = True; why = "not provable in the abstraction (model not validated numerically: %s)" % why
                res['status'] = 'discharged' if ok else 'undecided'
                res['detail'] = why
                res['model'] = {k: v for k, v in env.items() if isinstance(k, str)}
            elif r == z3.unsat:
                res['status'] = 'refuted'; res['detail'] = 'unreachable / vacuous: hypotheses are contradictory'
            else:
                res['detail'] = 'solver: unknown/timeout'
        if res['status'] == 'undecided':
            ok = numeric_probe(ob, seed)
            if ok is not None: res.update(ok)
    except Exception as x:
        res['status'] = 'error'; res['detail'] = "%s: %s\n%s" % (type(x).__name__, x, traceback.format_exc()[-1500:])
    res['time'] = round(time.time() - t0, 3)
    res['sublog'] = log
    return res


def strict_neg(g):
    """negation of the goal with a margin (used to steer the solver away from degenerate counter-models)"""
    m = Fraction(1, 1000)
    if g.op == 'cmp':
        k, a, b = g.a
        if k == '==': return bor(cmp('>', a - b, m), cmp('>', b - a, m))
        if k in ('<=', '<'): return cmp('>', a - b, m)
        if k in ('>=', '>'): return cmp('>', b - a, m)
        return None
    if g.op == 'and':
        parts = [strict_neg(x) for x in g.a]
        parts = [p for p in parts if p is not None]
        return bor(*parts) if parts else None
    return None


def _strictly_not(g):
    """the goal fails with strict inequalities (so that the numeric re-evaluation is not on a boundary)"""
    if g.op == 'cmp':
        k, a, b = g.a
        if k in ('<', '<='): return cmp('>', a, b)
        if k in ('>', '>='): return cmp('<', a, b)
        if k == '==': return bor(cmp('>', a, b), cmp('<', a, b))
        return None
    if g.op == 'and':
        parts = [p for p in (_strictly_not(x) for x in g.a) if p is not None]
        return bor(*parts) if parts else None
    return None


def default_range(name, sort):
    """sampling heuristics by name (only steers the falsifier; every hit is re-checked against the hypotheses)"""
    n = name.lower()
    if sort == 'I': return (0, 6)
    if n.startswith('cpf') or 'flux' in n: return (1e-3, 5e-2)
    if n.startswith('perm') or n in ('p1', 'p2', 'pi1', 'pi2') or n.startswith('xp'): return (1e-3, 1e-1)
    if n in ('t', 't0', 'tp', 'tc', 'tq') or n.startswith('feed_temperature') or n.startswith('program') or n.startswith('xt') or n.startswith('dcs.t'): return (280.0, 380.0)
    if n in ('x', 'x0', 'x1', 'y', 'w', 'p', 'p2') or n.startswith('y_') or n.endswith('.p') or n.startswith('dcs.x') or n.startswith('ystar') or n.startswith('yprev'): return (0.05, 0.95)
    if n.startswith('feed_mass') or n == 'm0': return (0.5, 3.0)
    if n in ('dt', 'a'): return (0.05, 0.5)
    if n.startswith('gamma') or n.startswith('pp'): return (0.2, 3.0)
    if n.startswith('m') and n[1:].isdigit(): return (15.0, 150.0)
    if n.startswith('prec'): return (1e-6, 1e-3)
    if n in ('d', 'd_a', 'd_b'): return (0.0, 1.0)
    return (0.1, 3.0)


def _strkeys(env): return {k: v for k, v in env.items() if isinstance(k, str)}


def numeric_probe(ob, seed, tries=4000, want=200):
    if ob.lemmas: return None          # callee results are related by lemmas the sampler does not know: sampling would be unsound
    return _numeric_probe(ob, seed, tries, want)


def _numeric_probe(ob, seed, tries=4000, want=200):
    """fallback for undecided obligations without uninterpreted applications: evaluate at random admissible points.
    A numeric violation is a validated counterexample; agreement leaves the obligation undecided."""
    eqs = _eq_subst(ob)
    if eqs:          # hypotheses `variable == term` are solved for the variable (sampling cannot hit an equality)
        from .ir import subst as _sb
        memo_ = {}
        hy2 = [x for x in (_sb(h, eqs, memo_) for h in ob.hyps) if x is not TRUE]
        ob = Ob(ob.name, hy2, _sb(ob.goal, eqs, memo_), ob.prop, ob.expect, ob.meta, ob.lemmas)
    xs = list(ob.hyps) + [ob.goal]
    apps = collect(xs, lambda n: isinstance(n, T) and n.op == 'app')
    apps_sorted = [n for n in _nodes(ob) if n.op == 'app']
    fv = free_vars(*xs)
    rng = random.Random(seed + 17)
    ranges = ob.meta.get('ranges', {})
    hits = 0
    # thresholds written in the code (numeric constants of the formulas): real variables are also sampled around them, so that a
    # case distinction at a magic number (`max(precision, 1e-6)`) is actually visited
    consts = set()
    for cnode in collect(xs, lambda n: isinstance(n, B) and n.op == 'cmp'):
        for side in cnode.a[1:]:
            if isinstance(side, T) and side.op == 'c' and side.a[0] != 0 and 1e-12 < abs(float(side.a[0])) <= 1e4: consts.add(abs(float(side.a[0])))
    consts = sorted(consts)[:40]          # only thresholds that a comparison is made against (never the numeric codes of names inside applications)
    # candidate values for the variables of the goal from z3 on the application-free hypotheses that share variables with the goal:
    # only a SEED for the sampler - a counterexample still has to satisfy every hypothesis numerically (checked below)
    seedv = {}
    if ob.expect == 'unsat':
        try:
            gv = set(free_vars(ob.goal))
            rel = [h for h in ob.hyps if not collect([h], lambda n: isinstance(n, T) and n.op in ('app', 'exp', 'log')) and set(free_vars(h)) & gv]
            if gv and not collect([ob.goal], lambda n: isinstance(n, T) and n.op in ('app', 'exp', 'log')):
                zz_ = Z(); sv_ = z3.Solver(); sv_.set('timeout', 3000)
                sv_.add(*[zz_.b(h) for h in rel]); sn_ = _strictly_not(ob.goal); sv_.add(zz_.b(sn_) if sn_ is not None else z3.Not(zz_.b(ob.goal)))
                if sv_.check() == z3.sat:
                    m_ = sv_.model()
                    for n_ in set(free_vars(*(rel + [ob.goal]))):
                        v_ = m_.eval(zz_.v(n_, fv[n_].a[1]), model_completion=True)
                        seedv[n_] = _val(v_)
        except Exception:
            seedv = {}
    for try_ in range(tries):
        env = {}
        for n, t in fv.items():
            lo, hi = ranges.get(n) or default_range(n, t.a[1])
            if seedv and try_ < tries // 2 and n in seedv and seedv[n] is not None:
                env[n] = seedv[n]
            elif t.a[1] != 'I' and consts and n not in ranges and rng.random() < 0.3:
                env[n] = rng.choice(consts) * rng.choice((0.1, 0.5, 0.999, 1.0, 1.001, 2.0, 10.0))
            else:
                env[n] = rng.randint(int(lo), int(hi)) if t.a[1] == 'I' else rng.uniform(lo, hi)
        # callee results are universally quantified too (subject to the assumed postconditions in hyps), but functionally:
        # applications of one callee to numerically equal arguments get the same value (innermost first)
        try:
            table = {}
            m0 = {}
            for a in apps_sorted:
                key = [a.a[0], len(a.a)]
                for x in a.a[1:]:
                    v = ev(x, env, m0); key.append(round(v, 9) if abs(v) < 1e6 else float('%.9g' % v))
                key = tuple(key)
                if key not in table:
                    lo, hi = ranges.get(a.a[0]) or default_range(a.a[0], 'R')
                    table[key] = rng.uniform(lo, hi)
                env[('#', a.id)] = table[key]
        except EvalError:
            continue
        memo = {}
        try:
            if not all(evb3(h, env, memo) is True for h in ob.hyps): continue
            hits += 1
            if ob.expect == 'sat':
                if ob.goal is FALSE or ob.goal is TRUE or evb3(ob.goal, env, memo) is False:
                    return dict(status='discharged', detail='witness found by sampling', model=_strkeys(env), backend='numeric-sampling')
                continue
            if evb3(ob.goal, env, memo) is False:
                return dict(status='refuted', detail='numeric counterexample found by sampling', model=_strkeys(env))
        except EvalError:
            continue
        if hits >= want: break
    return dict(detail='solver undecided; %d admissible random points agree' % hits)


def apply_lemmas(ob, budget_ms=4000):
    """relational callee lemmas applied by REWRITING before solving: once a lemma's argument relation (premise) is discharged -
    ring normal form first, z3 under the hypotheses otherwise - the related application is replaced by its partner everywhere.
    The rewritten obligation needs no lemma any more (ring normal form and the sampler can work on it)."""
    from .ir import ring_proves, subst as _sb
    apps = [n for n in _nodes(ob) if n.op == 'app']
    m = {}
    zz = None; hyp = None
    for lem in ob.lemmas:
        for premise, equations, label in lem(apps):
            ok = False
            try: ok = ring_proves(premise)
            except RecursionError: ok = False
            if not ok:
                if zz is None:
                    zz = Z(); hyp = [zz.b(h) for h in ob.hyps]
                sv = z3.Solver(); sv.set('timeout', budget_ms); sv.add(*hyp); sv.add(*zz.side); sv.add(z3.Not(zz.b(premise)))
                ok = sv.check() == z3.unsat
            if ok:
                for a, b in equations:
                    if ('#', a.id) not in m and a is not b: m[('#', a.id)] = b
    if not m: return ob
    memo = {}
    # resolve chains a -> b -> c
    for k in list(m):
        t = m[k]; seen = 0
        while ('#', t.id) in m and seen < 8: t = m[('#', t.id)]; seen += 1
        m[k] = t
    return Ob(ob.name, [_sb(h, m, memo) for h in ob.hyps], _sb(ob.goal, m, memo), ob.prop, ob.expect, dict(ob.meta, lemmas_applied=len(m)), ())


def _ring_equiv_to_hyp(x, hyps, rm):
    """conjunct  a' ~ b'  follows from a hypothesis  a ~ b  (same relation) when a' - b' == a - b as rational functions"""
    from .ir import ring_equal
    if x.op != 'cmp': return False
    k, a2, b2 = x.a
    for h in hyps:
        cands = h.a if h.op == 'and' else (h,)
        for c in cands:
            if c.op == 'cmp' and c.a[0] == k:
                try:
                    if ring_equal(a2 - b2, c.a[1] - c.a[2], rm): return True
                except RecursionError:
                    return False
    return False


def solve_one(ob, timeout_s=60, second=False, seed=0):
    """conjunctive goals are proved conjunct by conjunct (each: ring normal form, sampling, z3); the obligation is discharged
    when every conjunct is, refuted as soon as one conjunct is refuted"""
    if ob.expect == 'unsat':
        # hypotheses `variable == term` are solved for the variable first (lets the ring normal form use them)
        try:
            eqs = _eq_subst(ob)
            if eqs:
                from .ir import subst as _sb
                m_ = {}
                hy2 = [x for x in (_sb(h, eqs, m_) for h in ob.hyps) if x is not TRUE]
                ob = Ob(ob.name, hy2, _sb(ob.goal, eqs, m_), ob.prop, ob.expect, ob.meta, ob.lemmas)
        except RecursionError:
            pass
    if ob.expect == 'unsat' and ob.lemmas:
        try: ob = apply_lemmas(ob)
        except RecursionError: pass
    g = ob.goal
    if ob.expect != 'unsat' or g.op != 'and' or len(g.a) < 2 or ob.meta.get('nosplit'):
        return _solve_atomic(ob, timeout_s, second, seed)
    t0 = time.time()
    from .ir import ring_proves
    hyp_ids = {h.id for h in ob.hyps}
    rm = {}
    parts = [x for x in g.a if x.id not in hyp_ids and not ring_proves(x, rm) and not _ring_equiv_to_hyp(x, ob.hyps, rm)]
    if not parts:
        return dict(name=ob.name, prop=ob.prop, expect=ob.expect, status='discharged', backend='ring-normal-form', detail='', meta=ob.meta,
                    time=round(time.time() - t0, 3), sublog=[])
    out = None; backends = set(['ring-normal-form'] if len(parts) < len(g.a) else []); sub = []
    undec = None
    if not ob.meta.get('noprobe'):
        early = numeric_probe(ob, seed, tries=600, want=40)
        if early and early.get('status') == 'refuted':
            return dict(name=ob.name, prop=ob.prop, expect=ob.expect, status='refuted', backend='numeric-sampling', detail=early['detail'], model=early.get('model'),
                        meta=ob.meta, time=round(time.time() - t0, 3), sublog=[])
    try: parent = merge_pass(ob, sub)
    except RecursionError: parent = None
    meta2 = dict(ob.meta); meta2['noprobe'] = True
    for i, x in enumerate(parts):
        r = _solve_atomic(Ob(ob.name, ob.hyps, x, ob.prop, ob.expect, meta2, ob.lemmas), timeout_s, second, seed, parent)
        sub.extend(r.get('sublog', [])[:6])
        if r.get('backend'): backends.add(r['backend'])
        if r['status'] in ('refuted', 'error', 'disagree'):
            r['detail'] = "conjunct %d of %d: %s | %s" % (i + 1, len(parts), brief(x, 160), r.get('detail', ''))
            r['time'] = round(time.time() - t0, 3)
            return r
        if r['status'] != 'discharged' and undec is None:
            undec = r; undec['detail'] = "conjunct %d of %d: %s | %s" % (i + 1, len(parts), brief(x, 160), r.get('detail', ''))
        if time.time() - t0 > timeout_s * 1.4 and i + 1 < len(parts):
            if undec is None: undec = dict(r, status='undecided', detail='budget exhausted after %d of %d conjuncts' % (i + 1, len(parts)))
            break
    if undec is not None:
        undec['time'] = round(time.time() - t0, 3); undec['status'] = 'undecided'
        return undec
    return dict(name=ob.name, prop=ob.prop, expect=ob.expect, status='discharged', backend='+'.join(sorted(backends)), detail='%d conjuncts' % len(g.a), meta=ob.meta,
                time=round(time.time() - t0, 3), sublog=sub[:20])


# ------------------------------------------------------------------------------------------------ scheduler
_OBS = []


def _child(i, conn, timeout_s, second, seed):
    try:
        r = solve_one(_OBS[i], timeout_s, second, seed)
    except BaseException as x:     # pragma: no cover
        r = dict(name=_OBS[i].name, prop=_OBS[i].prop, status='error', detail=repr(x), expect=_OBS[i].expect, meta=_OBS[i].meta)
    try:
        conn.send(r)
    except Exception as x:
        conn.send(dict(name=_OBS[i].name, prop=_OBS[i].prop, status='error', detail='unpicklable result: %r' % x,
                       expect=_OBS[i].expect, meta={}))
    conn.close()


def discharge(obs, timeout_s=60, jobs=None, second=False, seed=0, progress=None):
    """solve all obligations, one forked process each (hard kill at 2.5x the solver budget)"""
    global _OBS
    _OBS = list(obs)
    jobs = jobs or min(16, os.cpu_count() or 4)
    ctx = multiprocessing.get_context('fork')
    results = [None] * len(_OBS)
    pending = list(range(len(_OBS))); running = {}
    hard = timeout_s * 1.6 + 45
    while pending or running:
        while pending and len(running) < jobs:
            i = pending.pop(0)
            pc, cc = ctx.Pipe(duplex=False)
            p = ctx.Process(target=_child, args=(i, cc, timeout_s, second, seed))
            p.start(); cc.close()
            running[i] = (p, pc, time.time())
        done = []
        for i, (p, pc, t0) in running.items():
            if pc.poll(0.01):
                try: results[i] = pc.recv()
                except EOFError:
                    results[i] = dict(name=_OBS[i].name, prop=_OBS[i].prop, status='error', detail='worker died', expect=_OBS[i].expect, meta=_OBS[i].meta)
                p.join(); done.append(i)
            elif not p.is_alive():
                # the worker may have sent its result between the poll above and its exit: look once more before calling it dead
                got = None
                try:
                    if pc.poll(0.5): got = pc.recv()
                except (EOFError, OSError):
                    got = None
                results[i] = got if got is not None else dict(name=_OBS[i].name, prop=_OBS[i].prop, status='error', detail='worker died (exit %s)' % p.exitcode,
                                                              expect=_OBS[i].expect, meta=_OBS[i].meta)
                p.join(); done.append(i)
            elif time.time() - t0 > hard:
                p.kill(); p.join()
                results[i] = dict(name=_OBS[i].name, prop=_OBS[i].prop, status='undecided', detail='hard timeout (%ds)' % hard,
                                  expect=_OBS[i].expect, meta=_OBS[i].meta, time=round(time.time() - t0, 1), backend='z3')
                done.append(i)
        for i in done:
            running.pop(i)
            if progress: progress(results[i])
        if not done: time.sleep(0.02)
    return results
