"""Model of the persistence libraries used by PyVaporation (DESIGN 2.11): pathlib.Path, open + json, joblib, pandas.DataFrame /
read_csv.  The REAL save/load functions are executed by pvc.symex against this model, so what is proved is the code's own data
flow (which field is written to which column / key, which column / key is read back into which field, unit and basis handling on
load); the libraries themselves are ASSUMED to satisfy the contracts stated here (listed in the evidence):

  file system   a path names one file; a file holds what was last written to it; mkdir(exist_ok=False) raises if the directory exists;
                iterdir lists the files written below a directory
  json          load(dump(v)) == v for dicts with string keys, lists, numbers (floats round-trip exactly: repr is shortest
                round-trip), strings, None, booleans
  joblib        load(dump(o)) is a structurally equal fresh copy of o
  pandas        DataFrame(dict of equal-length lists); frame[name] = scalar broadcasts; frame[list] selects/reorders; to_csv +
                read_csv returns the same columns: numbers unchanged, None/NaN -> NaN, strings unchanged (strings are assumed not to
                look like numbers or NA tokens); series.iloc[i]; series.isna().mean(); pandas.isna; groupby on a constant column
                yields one group (the frame) for a non-empty frame
"""
import ast
from .ir import *
from .source import Unsupported
from . import symex as SX
from .symex import Obj, PList, Seq, PDict, Opaque, Vec, Fn, ModRef, Raised, NAN

MODEL_CLASSES = ('$Path', '$File', '$Frame', '$Series', '$ILoc', '$NaMask', '$GroupBy')


def fs(ex): return ex.__dict__.setdefault('_fs', dict(files={}, dirs=set(), order=[], writes=[]))


# ------------------------------------------------------------------ paths
def mkpath(parts): return Obj('$Path', {'parts': tuple(parts)})


def pkey(p): return tuple(x if isinstance(x, str) else ('@', id(x)) for x in p.f['parts'])


def to_path(x):
    if isinstance(x, Obj) and x.cls == '$Path': return x
    if isinstance(x, (str, Opaque)): return mkpath((x,))
    raise Unsupported("path from %r" % (x,))


def path_call(ex, x): return to_path(x)


def _builtin(name, f): return Fn('builtin', name=name, py=f)


def path_attr(ex, p, attr, node):
    F = fs(ex)
    if attr == 'mkdir':
        def mkdir(s, parents=False, exist_ok=False):
            k = pkey(p)
            if k in F['dirs'] and not exist_ok: raise Raised('FileExistsError', node=node)
            F['dirs'].add(k)
            if parents:
                for j in range(1, len(k)): F['dirs'].add(k[:j])
            return None
        return _builtin('Path.mkdir', mkdir)
    if attr == 'exists': return _builtin('Path.exists', lambda s: pkey(p) in F['files'] or pkey(p) in F['dirs'])
    if attr == 'iterdir':
        def iterdir(s):
            k = pkey(p)
            return PList([F['files'][q][-1] for q in F['order'] if q[:-1] == k and q in F['files']])
        return _builtin('Path.iterdir', iterdir)
    if attr in ('stem', 'name', 'suffix'):
        last = p.f['parts'][-1]
        if not isinstance(last, str): raise Unsupported("Path.%s of a name that is not a literal string" % attr, node)
        last = last.split('/')[-1]
        if attr == 'name': return last
        if attr == 'stem': return last.rsplit('.', 1)[0] if '.' in last[1:] else last
        return ('.' + last.rsplit('.', 1)[1]) if '.' in last[1:] else ''
    if attr == 'parent': return mkpath(p.f['parts'][:-1])
    raise Unsupported("Path.%s" % attr, node)


def path_div(ex, p, name):
    if isinstance(name, Obj) and name.cls == '$Path': return mkpath(p.f['parts'] + name.f['parts'])
    if not isinstance(name, (str, Opaque)): raise Unsupported("Path / %r" % (name,))
    return mkpath(p.f['parts'] + (name,))


def write_file(ex, path, content, how):
    F = fs(ex); k = pkey(path)
    if k not in F['files']: F['order'].append(k)
    F['files'][k] = (how, content, path)
    F['writes'].append((how, path))


def read_file(ex, path, how, node=None):
    F = fs(ex); k = pkey(path)
    if k not in F['files']: raise Raised('FileNotFoundError', node=node)
    h, content, _ = F['files'][k]
    if h != how: raise Unsupported("file written as %s read as %s" % (h, how), node)
    return content


# ------------------------------------------------------------------ open / json / joblib
def open_(ex, path, mode='r', *a, **k):
    if not isinstance(mode, str): raise Unsupported("open mode")
    return Obj('$File', dict(path=to_path(path), mode=mode))


def jimage(v):
    if v is None or isinstance(v, (bool, int, float, str, T)): return v
    if isinstance(v, PList): return ('list', [jimage(x) for x in v.items])
    if isinstance(v, Vec): return ('list', [jimage(x) for x in v.xs])
    if isinstance(v, (list, tuple)): return ('list', [jimage(x) for x in v])
    if isinstance(v, Seq):
        q = Seq(v.n, lambda i, v=v: jimage(v.fn(i))); q.conds = v.conds
        return ('seq', q)
    if isinstance(v, dict):
        for k in v:
            if not isinstance(k, str): raise Unsupported("json object key %r" % (k,))
        return ('dict', {k: jimage(x) for k, x in v.items()})
    raise Raised('TypeError', "Object of type %s is not JSON serializable" % type(v).__name__)


def jvalue(im):
    if isinstance(im, tuple) and im and im[0] == 'list': return PList([jvalue(x) for x in im[1]])
    if isinstance(im, tuple) and im and im[0] == 'seq':
        q = Seq(im[1].n, lambda i, s_=im[1]: jvalue(s_.fn(i))); q.conds = im[1].conds
        return q
    if isinstance(im, tuple) and im and im[0] == 'dict': return PDict({k: jvalue(x) for k, x in im[1].items()})
    return im


def json_dump(ex, obj, f, *a, **k):
    if not (isinstance(f, Obj) and f.cls == '$File' and f.f['mode'].startswith('w')): raise Unsupported("json.dump target")
    write_file(ex, f.f['path'], jimage(obj), 'json')


def json_load(ex, f, *a, **k):
    if not (isinstance(f, Obj) and f.cls == '$File'): raise Unsupported("json.load source")
    return jvalue(read_file(ex, f.f['path'], 'json'))


def snapshot(v, memo=None):
    """structurally equal fresh copy (pickle round trip)"""
    memo = {} if memo is None else memo
    if id(v) in memo: return memo[id(v)]
    if isinstance(v, Obj):
        o = Obj(v.cls, {}); memo[id(v)] = o
        for k, x in v.f.items(): o.f[k] = snapshot(x, memo)
        return o
    if isinstance(v, PList):
        o = PList([]); memo[id(v)] = o; o.items = [snapshot(x, memo) for x in v.items]; return o
    if isinstance(v, Vec): return Vec([snapshot(x, memo) for x in v.xs])
    if isinstance(v, tuple): return tuple(snapshot(x, memo) for x in v)
    if isinstance(v, dict): return PDict({k: snapshot(x, memo) for k, x in v.items()})
    if isinstance(v, Seq):
        q = Seq(v.n, lambda i, v=v: snapshot(v.fn(i))); q.conds = v.conds; q.tag = v.tag
        return q
    return v


def joblib_dump(ex, obj, path, *a, **k): write_file(ex, to_path(path), snapshot(obj), 'pickle')
def joblib_load(ex, path, *a, **k): return snapshot(read_file(ex, to_path(path), 'pickle'))


# ------------------------------------------------------------------ pandas
def col_len(c):
    if isinstance(c, PList): return len(c.items)
    if isinstance(c, Seq): return c.n
    return None            # broadcast scalar


def as_column(v):
    if isinstance(v, (PList, Seq)): return v
    if isinstance(v, Vec): return PList(v.xs)
    if isinstance(v, (list, tuple)): return PList(list(v))
    if isinstance(v, Obj) and v.cls == '$Series': return v.f['col']
    return None


def same_len(ex, n, m, node=None):
    if isinstance(n, int) and isinstance(m, int):
        if n != m: raise Raised('ValueError', "All arrays must be of the same length", node)
        return
    if not ex.decide(eq(lift(n), lift(m)), node): raise Raised('ValueError', "All arrays must be of the same length", node)


def dataframe(ex, data=None, *a, **k):
    if not isinstance(data, dict): raise Unsupported("pandas.DataFrame(%r)" % (data,))
    cols = {}; n = None
    for name, v in data.items():
        c = as_column(v)
        if c is None: raise Unsupported("DataFrame column %r" % (v,))
        if n is None: n = col_len(c)
        else: same_len(ex, n, col_len(c))
        cols[name] = c
    return Obj('$Frame', dict(cols=cols, n=n if n is not None else 0))


def frame_set(ex, fr, name, v, node=None):
    c = as_column(v)
    if c is not None:
        same_len(ex, fr.f['n'], col_len(c), node); fr.f['cols'][name] = c
    else:
        fr.f['cols'][name] = ('bcast', v)


def frame_get(ex, fr, key, node=None):
    if isinstance(key, str):
        if key not in fr.f['cols']: raise Raised('KeyError', node=node)
        return Obj('$Series', dict(col=fr.f['cols'][key], n=fr.f['n'], name=key))
    if isinstance(key, PList) and all(isinstance(x, str) for x in key.items):
        for x in key.items:
            if x not in fr.f['cols']: raise Raised('KeyError', node=node)
        return Obj('$Frame', dict(cols={x: fr.f['cols'][x] for x in key.items}, n=fr.f['n']))
    raise Unsupported("DataFrame[%r]" % (key,), node)


def cell(v):
    if v is None or v is NAN: return NAN
    if isinstance(v, (T, int, float, str, bool)): return v
    raise Unsupported("csv cell %r" % (v,))


def col_image(c):
    if isinstance(c, tuple) and c[0] == 'bcast': return ('bcast', cell(c[1]))
    if isinstance(c, PList): return PList([cell(x) for x in c.items])
    q = Seq(c.n, lambda i, c=c: cell(c.fn(i))); q.conds = c.conds
    return q


def to_csv(ex, fr, path, *a, **k):
    write_file(ex, to_path(path), ({n: col_image(c) for n, c in fr.f['cols'].items()}, fr.f['n']), 'csv')


def read_csv(ex, path, *a, **k):
    cols, n = read_file(ex, to_path(path), 'csv')
    return Obj('$Frame', dict(cols=dict(cols), n=n))


def series_get(ex, ser, i, node=None):
    n = ser.f['n']; c = ser.f['col']
    if isinstance(i, int) and isinstance(n, int):
        if not (0 <= i < n): raise Raised('IndexError', node=node)
    else:
        if isinstance(i, int) and i < 0: raise Unsupported("negative iloc", node)
        if not ex.decide(band(cmp('>=', lift(i), 0), cmp('<', lift(i), lift(n))), node): raise Raised('IndexError', node=node)
    if isinstance(c, tuple): return c[1]
    if isinstance(c, PList):
        if isinstance(i, int): return c.items[i]
        if c.items and all(x is c.items[0] for x in c.items): return c.items[0]
        raise Unsupported("symbolic index into a concrete column", node)
    return ex.seq_get(c, lift(i))


def na_class(ex, c):
    """'none' / 'all' / fraction for a concrete column"""
    if isinstance(c, tuple): return 'all' if (c[1] is NAN or c[1] is None) else 'none'
    if isinstance(c, PList):
        k = sum(1 for x in c.items if x is NAN or x is None)
        return 'none' if k == 0 else 'all' if k == len(c.items) else ('frac', k, len(c.items))
    iv = ex.fresh("na", 'I')
    v = c.fn(iv)
    return 'all' if (v is NAN or v is None) else 'none'


def na_mean(ex, mask, node=None):
    n = mask.f['n']
    if isinstance(n, int): nonempty = n > 0
    else: nonempty = ex.decide(cmp('>', lift(n), 0), node)
    if not nonempty: return NAN
    k = na_class(ex, mask.f['col'])
    if k == 'none': return 0
    if k == 'all': return 1
    from fractions import Fraction
    return lift(Fraction(k[1], k[2]))


def isna(ex, v):
    if isinstance(v, Obj) and v.cls == '$Series': return Obj('$NaMask', dict(col=v.f['col'], n=v.f['n']))
    return v is None or v is NAN


def model_attr(ex, b, attr, node=None):
    c = b.cls
    if c == '$Path': return path_attr(ex, b, attr, node)
    if c == '$Frame':
        if attr == 'to_csv': return _builtin('DataFrame.to_csv', lambda s, path, *a, **k: to_csv(s, b, path))
        if attr == 'columns': return PList(list(b.f['cols']))
        if attr == 'groupby': return _builtin('DataFrame.groupby', lambda s, name: Obj('$GroupBy', dict(frame=b, by=name)))
    if c == '$Series':
        if attr == 'iloc': return Obj('$ILoc', dict(series=b))
        if attr == 'isna': return _builtin('Series.isna', lambda s: isna(s, b))
        if attr == 'tolist':
            col = b.f['col']
            if isinstance(col, tuple): return _builtin('tolist', lambda s: Seq(lift(b.f['n']), lambda i: col[1]))
            return _builtin('tolist', lambda s: col)
    if c == '$NaMask' and attr == 'mean': return _builtin('Series.mean', lambda s: na_mean(s, b, node))
    raise Unsupported("%s.%s is outside the persistence model" % (c[1:], attr), node)


def model_index(ex, b, i, node=None):
    if b.cls == '$Frame': return frame_get(ex, b, i, node)
    if b.cls == '$ILoc': return series_get(ex, b.f['series'], i, node)
    if b.cls == '$Series': return series_get(ex, b, i, node)
    raise Unsupported("index into %s" % b.cls, node)


def model_len(ex, b):
    if b.cls in ('$Frame', '$Series'): return b.f['n']
    raise Unsupported("len(%s)" % b.cls)


def model_iter(ex, b, node=None):
    if b.cls == '$GroupBy':
        fr = b.f['frame']; by = b.f['by']
        if by not in fr.f['cols']: raise Raised('KeyError', node=node)
        c = fr.f['cols'][by]
        const = isinstance(c, tuple) or (isinstance(c, PList) and c.items and all(x == c.items[0] for x in c.items))
        if not const: raise Unsupported("groupby on a column that is not constant", node)
        n = fr.f['n']
        nonempty = (n > 0) if isinstance(n, int) else ex.decide(cmp('>', lift(n), 0), node)
        key = c[1] if isinstance(c, tuple) else c.items[0]
        return [(key, fr)] if nonempty else []
    raise Unsupported("iteration over %s" % b.cls, node)


def module_attr(ex, mod, attr, node=None):
    if mod == 'pandas':
        if attr == 'DataFrame': return _builtin('pandas.DataFrame', dataframe)
        if attr == 'read_csv': return _builtin('pandas.read_csv', read_csv)
        if attr == 'isna': return _builtin('pandas.isna', isna)
    if mod == 'json':
        if attr == 'dump': return _builtin('json.dump', json_dump)
        if attr == 'load': return _builtin('json.load', json_load)
    if mod == 'joblib':
        if attr == 'dump': return _builtin('joblib.dump', joblib_dump)
        if attr == 'load': return _builtin('joblib.load', joblib_load)
    return None


ASSUMPTIONS = [
    "file system (assumed): a path names one file holding what was last written to it; Path.mkdir(exist_ok=False) raises FileExistsError if the directory exists; iterdir lists the files written below a directory",
    "json (assumed): load(dump(v)) == v for dicts with string keys, lists, numbers (float repr round-trips exactly), strings, None, booleans",
    "joblib (assumed): load(dump(o)) is a structurally equal fresh copy of o",
    "pandas (assumed): DataFrame/column broadcast/column selection as documented; to_csv + read_csv returns the same columns with numbers unchanged, None/NaN as NaN and strings unchanged (strings that look like numbers or NA tokens excluded); groupby on a constant column yields the frame as its single group",
]
