"""native checker for C11: size scaling and area/time trade-off on the real process models"""
import random
from . import procs


def series(model):
    return dict(fluxes=[v for J in model.partial_fluxes for v in J], x=[c.p for c in model.feed_compositions], y=[c.p for c in model.permeate_composition],
                T=list(model.feed_temperature), P=[p.value for pp in model.permeances for p in pp], m=list(model.feed_mass), Q=list(model.feed_evaporation_heat),
                C=[v for v in model.permeate_condensation_heat])


def close(a, b, tol):
    if a is None or b is None: return a is b
    return abs(a - b) <= tol * max(abs(a), abs(b), 1e-300)


def check(case):
    if case.get('sanitize'): case = procs.sanitize(case)
    fails = []
    try:
        base = series(procs.run(case)[0])
    except ValueError:
        return []
    c = case.get('c', 7.0)
    sc = dict(case); sc['A'] = case.get('A', 0.05) * c; sc['m0'] = case.get('m0', 1.0) * c
    try:
        s = series(procs.run(sc)[0])
        for nm in ('fluxes', 'x', 'y', 'T', 'P'):
            for i, (a, b) in enumerate(zip(base[nm], s[nm])):
                if not close(a, b, 1e-7): fails.append("size x%r: %s[%d] changed %r -> %r" % (c, nm, i, a, b)); break
        for nm in ('m', 'Q', 'C'):
            for i, (a, b) in enumerate(zip(base[nm], s[nm])):
                if not close(None if a is None else a * c, b, 1e-7): fails.append("size x%r: %s[%d] %r -> %r, expected x%r" % (c, nm, i, a, b, c)); break
    except ValueError:
        fails.append("scaled run raised while the base run returned")
    if not case.get('program'):
        k = case.get('kf', 4.0)
        at = dict(case); at['A'] = case.get('A', 0.05) * k; at['dt'] = case.get('dt', 0.2) / k
        try:
            s = series(procs.run(at)[0])
            for nm in ('fluxes', 'x', 'y', 'T', 'P', 'm', 'Q', 'C'):
                for i, (a, b) in enumerate(zip(base[nm], s[nm])):
                    if not close(a, b, 1e-7): fails.append("area x%r, step /%r: %s[%d] changed %r -> %r" % (k, k, nm, i, a, b)); break
        except ValueError:
            fails.append("area/time run raised while the base run returned")
    for key, val in (('A', 3.0), ('m0', 0.5), ('dt', 0.37)):
        o = dict(case); o[key] = case.get(key, {'A': 0.05, 'm0': 1.0, 'dt': 0.2}[key]) * val
        try:
            s = series(procs.run(o)[0])
            if not (close(s['fluxes'][0], base['fluxes'][0], 1e-9) and close(s['fluxes'][1], base['fluxes'][1], 1e-9)): fails.append("step-0 fluxes depend on %s" % key)
        except ValueError:
            pass
    return fails[:8]


def corpus(seed, n):
    rng = random.Random(seed)
    out = procs.corpus(seed, min(n, 8))
    for c in out: c['c'] = 10 ** rng.uniform(-2, 2); c['kf'] = 10 ** rng.uniform(-1, 1)
    return out
