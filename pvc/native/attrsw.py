"""native probe for the attrs validator switch (obligation `attrs.validators-always-run`, props/common.py): the attrs contract that every
proof of a class invariant rests on (generated __init__ runs the validators, DESIGN 5(7)) holds only while the process-global switch
`attr.validators.set_disabled` / `attr.set_run_validators` is left alone.  Drives the error exits and the normal exits of every entry point
(corpus of C19 + one normal run per process model) and then asks whether an out-of-range Composition is still rejected."""


def check(case):
    import attr
    from pyvaporation.mixtures import Composition
    from . import c19, procs
    fails = []

    def probe(after):
        try: dis = attr.validators.get_disabled()
        except Exception: dis = None
        if dis: fails.append("after %s: attr.validators.get_disabled() is True (validators switched off for the whole process)" % after)
        for p, t in ((1.5, 'weight'), (-0.2, 'molar')):
            try:
                Composition(p, t)
                fails.append("after %s: Composition(p=%r, type=%r) was accepted instead of raising ValueError" % (after, p, t))
            except ValueError: pass
    probe("import of the package")
    if fails: return fails
    try: c19.check({})
    except Exception: pass
    probe("the error exits of every entry point (contradictory permeate specification at each of them, incomplete mixtures/experiments: corpus of C19)")
    if fails: return fails
    for f in procs.FUNCS:
        for mode in ('vacuum', 'temperature', 'pressure'):
            try:
                pv, mix, mem, dcs, cond, func, kw = procs.build(dict(func=f, mode=mode, N=3))
                getattr(pv, f)(**kw)
            except Exception: pass
    probe("normal runs of the four process models in every permeate mode")
    return fails


def corpus(seed, n): return [dict()]
