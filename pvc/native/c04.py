"""native checker for C04 (real calculate_activity_coefficients / get_partial_pressures)"""
import random, math
from .objs import mixture, builtin_mixtures


def _mix(case):
    if 'builtin' in case: return dict(builtin_mixtures())[case['builtin']]
    m = mixture(case.get('env', {}), nr='two' if case.get('two_alphas') else 'one')
    if case.get('same_names') is not None:
        # components are identified by position, never by label: two components carrying the same name (unnamed, or isomers under one label)
        import attr
        m = attr.evolve(m, first_component=attr.evolve(m.first_component, name=case['same_names']), second_component=attr.evolve(m.second_component, name=case['same_names']))
    return m


def uniquac_k1(T, mix, x):
    """(gamma_1, gamma_2) of known finding K1: Abrams-Prausnitz gamma_1 and the gamma_2 whose residual bracket reads
    tau_12/(theta2'+theta1' tau_21) - tau_12/(theta1'+theta2' tau_12) (the pinned tree's expression)"""
    c1, c2, u = mix.first_component.uniquac_constants, mix.second_component.uniquac_constants, mix.uniquac_params
    x1, x2 = x, 1 - x
    ps = x1 * c1.r + x2 * c2.r; phi1, phi2 = x1 * c1.r / ps, x2 * c2.r / ps
    tg = x1 * c1.q_geometric + x2 * c2.q_geometric; th1, th2 = x1 * c1.q_geometric / tg, x2 * c2.q_geometric / tg
    ti = x1 * c1.q_interaction + x2 * c2.q_interaction; t1, t2 = x1 * c1.q_interaction / ti, x2 * c2.q_interaction / ti
    l1 = u.z / 2 * (c1.r - c1.q_geometric) - (c1.r - 1); l2 = u.z / 2 * (c2.r - c2.q_geometric) - (c2.r - 1)
    tau12 = math.exp(-(u.alpha_12 + u.beta_12 / T) / T); tau21 = math.exp(-(u.alpha_21 + u.beta_21 / T) / T)
    g1 = math.exp(math.log(phi1 / x1) + u.z / 2 * c1.q_geometric * math.log(th1 / phi1) + phi2 * (l1 - c1.r / c2.r * l2)
                  - c1.q_interaction * math.log(t1 + t2 * tau21) + t2 * c1.q_interaction * (tau21 / (t1 + t2 * tau21) - tau12 / (t2 + t1 * tau12)))
    g2 = math.exp(math.log(phi2 / x2) + u.z / 2 * c2.q_geometric * math.log(th2 / phi2) + phi1 * (l2 - c2.r / c1.r * l1)
                  - c2.q_interaction * math.log(t2 + t1 * tau12) + t1 * c2.q_interaction * (tau12 / (t2 + t1 * tau21) - tau12 / (t1 + t2 * tau12)))
    return g1, g2


def check(case):
    import numpy
    from pyvaporation.mixtures import Composition, get_partial_pressures
    from pyvaporation.mixtures.mixture import calculate_activity_coefficients as cac
    fails = []
    mix = _mix(case); model = case.get('model', 'NRTL')
    env = case.get('env', {})
    x = case.get('x', env.get('x1', 0.37)); T = case.get('T', env.get('T', 333.15))
    if not (0 < x < 1) or T <= 0: x, T = 0.37, 333.15
    def lg(xx):
        g = cac(T, mix, Composition(xx, 'molar'), model)
        return math.log(g[0]), math.log(g[1])
    h = 1e-6 if 1e-6 < min(x, 1 - x) else min(x, 1 - x) / 10
    a, b = lg(x + h), lg(x - h)
    d1, d2 = (a[0] - b[0]) / (2 * h), (a[1] - b[1]) / (2 * h)
    gd = x * d1 + (1 - x) * d2
    if abs(gd) > 1e-5 * max(1.0, abs(x * d1), abs((1 - x) * d2)):
        tag = ""
        if model == 'UNIQUAC':
            # native fingerprint of known finding K1: the code's coefficients are exactly those of the recorded defect at x and x +- h
            try:
                same = True
                for xx in (x, x + h, x - h):
                    got = cac(T, mix, Composition(xx, 'molar'), model); k1 = uniquac_k1(T, mix, xx)
                    same = same and abs(got[0] - k1[0]) <= 1e-9 * abs(k1[0]) and abs(got[1] - k1[1]) <= 1e-9 * abs(k1[1])
                if same: tag = "KNOWN[K1] "
            except Exception: pass
        fails.append(tag + "Gibbs-Duhem residual %r at x1=%r T=%r (%s): x1*dlng1=%r x2*dlng2=%r" % (gd, x, T, model, x * d1, (1 - x) * d2))
    g_pure1 = cac(T, mix, Composition(1.0, 'molar'), model)[0]; g_pure2 = cac(T, mix, Composition(0.0, 'molar'), model)[1]
    tol = 1e-9 if model == 'NRTL' else 1e-3
    if abs(g_pure1 - 1) > tol: fails.append("gamma1 at x1=1 is %r" % g_pure1)
    if abs(g_pure2 - 1) > tol: fails.append("gamma2 at x1=0 is %r" % g_pure2)
    # partial pressures: formula and basis independence
    cm = Composition(x, 'molar'); cw = cm.to_weight(mix)
    pm = get_partial_pressures(T, mix, cm, model); pw = get_partial_pressures(T, mix, cw, model)
    g = cac(T, mix, cm, model)
    want = (mix.first_component.get_vapor_pressure(T) * g[0] * x, mix.second_component.get_vapor_pressure(T) * g[1] * (1 - x))
    for i in (0, 1):
        if abs(pm[i] - want[i]) > 1e-9 * abs(want[i]): fails.append("partial pressure %d: %r, expected %r" % (i, pm[i], want[i]))
        if abs(pm[i] - pw[i]) > 1e-8 * abs(pm[i]): fails.append("partial pressure %d depends on the basis: %r vs %r" % (i, pm[i], pw[i]))
    gw = cac(T, mix, cw, model)
    for i in (0, 1):
        if abs(gw[i] - g[i]) > 1e-8 * abs(g[i]): fails.append("activity coefficient %d depends on the basis" % i)
    if model == 'NRTL' and case.get('raoult'):
        from pyvaporation.utils import NRTLParameters
        import attr
        m0 = attr.evolve(mix, nrtl_params=NRTLParameters(g12=0, g21=0, alpha12=mix.nrtl_params.alpha12, alpha21=mix.nrtl_params.alpha21, a12=0, a21=0))
        g0 = cac(T, m0, cm, 'NRTL')
        if abs(g0[0] - 1) > 1e-12 or abs(g0[1] - 1) > 1e-12: fails.append("NRTL with vanishing parameters gives %r" % (g0,))
    return fails


def corpus(seed, n):
    rng = random.Random(seed); out = []
    for name, m in builtin_mixtures():
        for model in ('NRTL', 'UNIQUAC'):
            if model == 'UNIQUAC' and m.uniquac_params is None: continue
            out.append(dict(builtin=name, model=model, x=rng.uniform(0.05, 0.95), T=rng.uniform(280, 390), raoult=True))
    for label in ('', 'butanol'):
        env = dict(g12=rng.uniform(500, 4000), g21=rng.uniform(500, 4000), al12=0.3, M1=rng.uniform(18, 60), M2=rng.uniform(60, 150),
                   vpa1=7.2, vpb1=-1750.0, vpc1=-38.0, vpa2=6.9, vpb2=-1250.0, vpc2=-52.0, ua12=50.0, ua21=-30.0, z=10)
        out.append(dict(env=env, model='NRTL', same_names=label, x=rng.uniform(0.2, 0.8), T=rng.uniform(300, 360), raoult=True))
    while len(out) < n:
        env = dict(g12=rng.uniform(-3000, 6000), g21=rng.uniform(-3000, 6000), al12=rng.uniform(0.1, 0.6), al21=rng.uniform(0.1, 0.6), a12=rng.uniform(-1, 1), a21=rng.uniform(-1, 1),
                   M1=rng.uniform(18, 150), M2=rng.uniform(18, 150), r1=rng.uniform(0.9, 5), r2=rng.uniform(0.9, 5), q1=rng.uniform(0.9, 5), q2=rng.uniform(0.9, 5),
                   qi1=rng.uniform(0.9, 5), qi2=rng.uniform(0.9, 5), ua12=rng.uniform(-300, 300), ua21=rng.uniform(-300, 300), ub12=rng.uniform(-3e4, 3e4), ub21=rng.uniform(-3e4, 3e4), z=10)
        out.append(dict(env=env, model=rng.choice(['NRTL', 'UNIQUAC']), two_alphas=rng.random() < 0.5, x=rng.uniform(0.05, 0.95), T=rng.uniform(280, 390), raoult=True))
    return out
