"""native checker for C18: coarse discretisations must raise or return admissible states"""
import math, random
from . import procs


def check(case):
    if case.get('sanitize'): case = procs.sanitize(case)
    cases = [case]
    if case.get('coarse'):
        for f in (5.0, 50.0, 500.0):
            c = dict(case); c['dt'] = f; c['N'] = 5; c['A'] = max(case.get('A', 0.05), 0.5); cases.append(c)
        for N in (2, 3):
            T0 = case.get('T0', 333.15) if 273 <= case.get('T0', 333.15) <= 400 else 333.15
            c = dict(case); c['T0'] = T0; c['program'] = True; c['N'] = N; c['dt'] = 0.05; c['A'] = 0.01
            c['coefficients'] = [T0, -(T0 + 60.0) / (0.05 * (N - 1))]          # linear programme below 0 K exactly at the last reported step
            cases.append(c)
    if case.get('blowup'):
        # scan of coarse two-step runs whose second state lands where exponentials overflow (Antoine pole at a few tens of kelvin,
        # Arrhenius factors): every run must raise or report finite, admissible values
        base = dict(case); base['N'] = 2
        def T1(dt):
            c = dict(base); c['dt'] = dt
            try: return procs.run(c)[0].feed_temperature[1]
            except Exception: return None
        hi = 0.05
        for _ in range(40):
            t = T1(hi)
            if t is None or not (t > 20): break
            hi *= 1.6
        lo = hi / 1.6 / 1.6
        cases = []
        for i in range(case.get('points', 240)):
            c = dict(base); c['dt'] = lo + (hi - lo) * i / case.get('points', 240); cases.append(c)
    fails = []
    for c in cases:
        try:
            model = procs.run(c)[0]
        except (ValueError, ZeroDivisionError, FloatingPointError):
            continue
        except Exception:
            if c.get('P1') == 0.0: continue          # degenerate fits of an impermeable membrane may fail in other ways: still "raises"
            raise
        for k in range(len(model.feed_mass)):
            m, T = model.feed_mass[k], model.feed_temperature[k]
            if not (m > 0 and math.isfinite(m)): fails.append("dt=%r: reported feed_mass[%d] = %r" % (c.get('dt'), k, m))
            if not (T > 0 and math.isfinite(T)): fails.append("dt=%r: reported feed_temperature[%d] = %r" % (c.get('dt'), k, T))
            for nm in ('feed_compositions', 'permeate_composition'):
                p = getattr(model, nm)[k].p
                if not (0 <= p <= 1): fails.append("%s: reported %s[%d].p = %r is not a fraction in [0, 1]" % (c.get('func'), nm, k, p))
            for v in tuple(model.partial_fluxes[k]) + (model.feed_evaporation_heat[k], model.permeate_condensation_heat[k]) + tuple(q.value for q in model.permeances[k]):
                if v is not None and not math.isfinite(v): fails.append("dt=%r: non-finite flux/heat/permeance reported at step %d: %r (T=%r)" % (c.get('dt'), k, v, T))
        if fails: break
    return fails[:6]


def corpus(seed, n):
    out = []
    rng = random.Random(seed)
    for c in procs.corpus(seed, min(n, 12)):
        c['dt'] = 10 ** rng.uniform(0, 2.5); c['A'] = 10 ** rng.uniform(-0.5, 1); c['N'] = rng.randint(3, 6); out.append(c)
    for f in ('ideal_non_isothermal_process', 'non_ideal_non_isothermal_process'):
        out.append(dict(func=f, coarse=True, mode='vacuum', curves='one'))
        # impermeable membrane: fluxes (0, 0), permeate fraction 0/0 - must raise, never report a NaN fraction
        out.append(dict(func=f, mode='vacuum', curves='one', P1=0.0, P2=0.0, N=3, dt=0.2))
        out.append(dict(func=f.replace('non_isothermal', 'isothermal'), mode='temperature', curves='one', P1=0.0, P2=0.0, N=2, dt=0.2))
        for mode in ('vacuum', 'pressure', 'temperature'):
            out.append(dict(func=f, blowup=True, mode=mode, curves='one', builtin='H2O_EtOH', A=0.4, m0=12.0, T0=333.15, x0=0.94, pp=0.6, Tp=293.15, P1=0.036, P2=0.00003, Ea1=19944.0, Ea2=110806.0,
                            points=(100 if n < 40 else 400) if f.startswith('ideal') else (20 if n < 40 else 80)))
    return out
