"""real PyVaporation objects from flat dictionaries (same variable names as pvc.world)"""
import random, math


def component(env, t, vp_type='antoine', uq=True):
    from pyvaporation.components import Component
    from pyvaporation.utils import VaporPressureConstants, HeatCapacityConstants, UNIQUACConstants
    g = lambda k, d=0.0: env.get(k + t, d)
    return Component(name="comp" + t, molecular_weight=g('M', 50.0),
                     vapour_pressure_constants=VaporPressureConstants(a=g('vpa', 7.0), b=g('vpb', -1600.0), c=g('vpc', -46.0), type=vp_type),
                     heat_capacity_constants=HeatCapacityConstants(a=g('ca', 70.0), b=g('cb', 0.01), c=g('cc', 0.0), d=g('cd', 0.0)),
                     uniquac_constants=UNIQUACConstants(r=g('r', 2.0), q_geometric=g('q', 1.9), q_interaction=g('qi', 1.5)) if uq else None)


def mixture(env, vp=('antoine', 'antoine'), nr='one', uq=True, swapped=False):
    from pyvaporation.mixtures import Mixture
    from pyvaporation.utils import NRTLParameters, UNIQUACParameters
    a, b = ('2', '1') if swapped else ('1', '2')
    va, vb = (vp[1], vp[0]) if swapped else vp
    e = env.get
    if nr is None: n = None
    elif not swapped:
        n = NRTLParameters(g12=e('g12', 0.0), g21=e('g21', 0.0), alpha12=e('al12', 0.3), alpha21=e('al21', 0.3) if nr == 'two' else None,
                           a12=e('a12', 0.0), a21=e('a21', 0.0))
    else:
        n = NRTLParameters(g12=e('g21', 0.0), g21=e('g12', 0.0), alpha12=e('al21', 0.3) if nr == 'two' else e('al12', 0.3),
                           alpha21=e('al12', 0.3) if nr == 'two' else None, a12=e('a21', 0.0), a21=e('a12', 0.0))
    if not uq: u = None
    elif not swapped:
        u = UNIQUACParameters(alpha_12=e('ua12', 0.0), alpha_21=e('ua21', 0.0), beta_12=e('ub12', 0.0), beta_21=e('ub21', 0.0), z=e('z', 10))
    else:
        u = UNIQUACParameters(alpha_12=e('ua21', 0.0), alpha_21=e('ua12', 0.0), beta_12=e('ub21', 0.0), beta_21=e('ub12', 0.0), z=e('z', 10))
    return Mixture(name='mix', first_component=component(env, a, va), second_component=component(env, b, vb), nrtl_params=n, uniquac_params=u)


def builtin_mixtures():
    from pyvaporation.mixtures import Mixtures
    return [(n, getattr(Mixtures, n)) for n in sorted(vars(Mixtures)) if not n.startswith('_')]


def builtin_components():
    from pyvaporation.components import Components
    return [(n, getattr(Components, n)) for n in sorted(vars(Components)) if not n.startswith('_')]


def rel(a, b, tol=1e-9):
    return abs(a - b) <= tol * max(1.0, abs(a), abs(b))
