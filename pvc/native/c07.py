"""native checker for C07: mole- vs mass-fraction input basis on the real code"""
import random
from . import procs


def close(a, b, tol=1e-8):
    if a is None or b is None: return a is b
    return abs(a - b) <= tol * max(abs(a), abs(b), 1e-300)


def check(case):
    from pyvaporation.mixtures import Composition
    from pyvaporation.permeance import Permeance
    from pyvaporation.diffusion_curve import DiffusionCurve
    from pyvaporation.optimizer import Measurements
    fails = []
    mode = case.get('mode', 'vacuum')
    c = procs.sanitize(dict(builtin=case.get('builtin', 'H2O_EtOH'), mode=mode, func='ideal_isothermal_process', N=3, x0=case.get('x0', 0.27)))
    pv, mix, mem, dcs, cond, func, kw = procs.build(c)
    T = cond.initial_feed_temperature; Tp, pp = cond.permeate_temperature, cond.permeate_pressure
    xw = Composition(c['x0'], 'weight'); xm = xw.to_molar(mix)
    for model in ('NRTL', 'UNIQUAC'):
        Jw = pv.calculate_partial_fluxes(T, xw, 1e-7, Tp, pp, Permeance(0.02), Permeance(0.001), model)
        Jm = pv.calculate_partial_fluxes(T, xm, 1e-7, Tp, pp, Permeance(0.02), Permeance(0.001), model)
        if not (close(Jw[0], Jm[0]) and close(Jw[1], Jm[1])): fails.append("flux solver (%s): %r for the mass fraction, %r for the equivalent mole fraction" % (model, Jw, Jm))
        a = pv.calculate_permeate_composition(T, xw, 1e-7, Tp, pp, model).p; b = pv.calculate_permeate_composition(T, xm, 1e-7, Tp, pp, model).p
        if not close(a, b): fails.append("calculate_permeate_composition (%s): %r vs %r" % (model, a, b))
        a = pv.calculate_separation_factor(T, xw, Tp, pp, 1e-7, model); b = pv.calculate_separation_factor(T, xm, Tp, pp, 1e-7, model)
        if not close(a, b, 1e-7): fails.append("calculate_separation_factor (%s): %r for the mass fraction, %r for the mole fraction" % (model, a, b))
    # curves with molar / mass feed points
    xs = [0.1, 0.35, 0.7]
    cw = pv.ideal_diffusion_curve(T, [Composition(x, 'weight') for x in xs], Tp, pp, 1e-7)
    cm = pv.ideal_diffusion_curve(T, [Composition(x, 'weight').to_molar(mix) for x in xs], Tp, pp, 1e-7)
    for i in range(len(xs)):
        if not (close(cw.partial_fluxes[i][0], cm.partial_fluxes[i][0]) and close(cw.partial_fluxes[i][1], cm.partial_fluxes[i][1])): fails.append("ideal curve fluxes differ by basis at point %d" % i)
        if not close(cw.get_separation_factor[i], cm.get_separation_factor[i], 1e-7): fails.append("curve separation factor differs by basis: %r vs %r" % (cw.get_separation_factor[i], cm.get_separation_factor[i]))
        if not close(cw.get_psi[i], cm.get_psi[i], 1e-7): fails.append("curve PSI differs by basis")
        if not (close(cw.permeances[i][0].value, cm.permeances[i][0].value) and close(cw.permeances[i][1].value, cm.permeances[i][1].value)): fails.append("curve permeances differ by basis")
    for fn in (Measurements.from_diffusion_curve_first, Measurements.from_diffusion_curve_second):
        mw, mm = fn(cw), fn(cm)
        for a, b in zip(mw.data, mm.data):
            if not (close(a.x, b.x) and close(a.t, b.t) and close(a.p, b.p)): fails.append("measurement points differ by basis: %r vs %r" % (a, b)); break
    # process models and the non-ideal curve: molar vs mass initial feed
    for f in procs.FUNCS:
        for ini in (False, True):
            if f.startswith('ideal') and ini: continue
            cc = dict(c, func=f, initial=ini, curves=case.get('curves', 'one'))
            try:
                a = procs.run(dict(cc, comp_type='weight'))[0]; b = procs.run(dict(cc, comp_type='molar'))[0]
            except ValueError:
                continue
            for nm in ('feed_mass', 'feed_temperature', 'feed_evaporation_heat'):
                for u, v in zip(getattr(a, nm), getattr(b, nm)):
                    if not close(u, v, 1e-7): fails.append("%s: %s differs between mass and molar initial feed (%r vs %r)" % (f, nm, u, v)); break
            for u, v in zip(a.feed_compositions, b.feed_compositions):
                if v.type != 'weight' or not close(u.p, v.p, 1e-7): fails.append("%s: feed compositions %r vs %r" % (f, u, v)); break
            for u, v in zip(a.permeances, b.permeances):
                if not (close(u[0].value, v[0].value, 1e-7) and close(u[1].value, v[1].value, 1e-7)): fails.append("%s: permeances differ by basis of the initial feed" % f); break
    x0 = Composition(c['x0'], 'weight')
    kws = dict(diffusion_curve_set=dcs, feed_temperature=T, delta_composition=0.05, number_of_steps=4, n_first=1, n_second=1, m_first=1, m_second=1)
    try:
        a = pv.non_ideal_diffusion_curve(initial_feed_composition=x0, **kws); b = pv.non_ideal_diffusion_curve(initial_feed_composition=x0.to_molar(mix), **kws)
        for u, v in zip(a.permeances, b.permeances):
            if not (close(u[0].value, v[0].value, 1e-7) and close(u[1].value, v[1].value, 1e-7)): fails.append("non-ideal curve: permeances differ by basis of the initial composition"); break
        for u, v in zip(a.feed_compositions, b.feed_compositions):
            if not close(u.p, v.p, 1e-9): fails.append("non-ideal curve: points differ by basis"); break
    except ValueError:
        pass
    return fails[:8]


def corpus(seed, n):
    rng = random.Random(seed)
    return [dict(mode=m, builtin=rng.choice(['H2O_EtOH', 'H2O_MeOH']), x0=rng.uniform(0.1, 0.5), curves=rng.choice(['one', 'many'])) for m in ('vacuum', 'temperature', 'pressure')][:max(1, min(n, 3))]
