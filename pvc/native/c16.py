"""native checker for C16 on the real optimizer: purity, repeatability, best-of, closed form"""
import copy, math, random


def check(case):
    from pyvaporation.optimizer import Measurements, find_best_fit, fit, PervaporationFunction
    from pyvaporation.optimizer.optimizer import Measurement
    rng = random.Random(case.get('seed', 1))
    fails = []
    Ts = [313.15, 333.15][:case.get('nT', 2)]
    ms = Measurements([Measurement(x=0.1 + 0.12 * i, t=T, p=0.02 * math.exp(0.7 * (0.1 + 0.12 * i) - 2000.0 * (1 / T - 1 / 313.15))) for T in Ts for i in range(case.get('k', 4))])
    snap = copy.deepcopy(ms)
    for ci in (0, 1):
        for iz in (False, True):
            f1 = fit(ms, n=1, m=1, include_zero=iz, component_index=ci)
            if ms != snap: fails.append("fit(include_zero=%s) modified the caller's measurements: %d -> %d points" % (iz, len(snap), len(ms))); ms = copy.deepcopy(snap)
            f2 = fit(ms, n=1, m=1, include_zero=iz, component_index=ci)
            if not (f1.alpha == f2.alpha and list(f1.a) == list(f2.a) and list(f1.b) == list(f2.b)): fails.append("repeating fit() on equal data gives different coefficients")
    sse = lambda f: sum((f(m.x, m.t) - m.p) ** 2 for m in snap.data)
    for iz in (False, True):
        best = find_best_fit(ms, include_zero=iz, component_index=0, n=1, m=1)
        if ms != snap: fails.append("find_best_fit(include_zero=%s) modified the caller's measurements" % iz); ms = copy.deepcopy(snap)
        for n in (0, 1):
            for m in (0, 1):
                s = sse(fit(copy.deepcopy(snap), n=n, m=m, include_zero=iz, component_index=0))
                if sse(best) > s * (1 + 1e-9) + 1e-300: fails.append("find_best_fit(include_zero=%s): SSE %r is larger than that of fit(n=%d, m=%d): %r" % (iz, sse(best), n, m, s))
    arr = [rng.uniform(0.5, 2) for _ in range(2 + 2 + 1)]
    f = PervaporationFunction.from_array(arr, n=2, m=1)
    x, t, c = 0.37, 320.0, 3.5
    want = arr[0] * math.exp(arr[1] * x + arr[2] * x ** 2 - (arr[3] + arr[4] * x) / t)
    if abs(f(x, t) - want) > 1e-12 * abs(want): fails.append("PervaporationFunction closed form: %r vs %r" % (f(x, t), want))
    if abs((f * c)(x, t) - c * want) > 1e-12 * abs(c * want): fails.append("(f*c)(x,t) != c f(x,t)")
    return fails[:6]


def corpus(seed, n): return [dict(seed=seed, k=4, nT=2), dict(seed=seed + 1, k=3, nT=1)]
