"""native checker for C13 (real Component methods)"""
import random
from .objs import component, rel, builtin_components

R = 8.314462


def check(case):
    fails = []
    if 'builtin' in case:
        c = dict(builtin_components())[case['builtin']]
    else:
        c = component(case['env'], '1', case.get('vp', 'antoine'))
    T = case['T']
    h = 1e-4
    import math
    d = (math.log(c.get_vapor_pressure(T + h)) - math.log(c.get_vapor_pressure(T - h))) / (2 * h)
    lhs = c.get_vaporisation_heat(T) * 1000; rhs = R * T * T * d
    if abs(lhs - rhs) > 1e-5 * max(1.0, abs(lhs), abs(rhs)):
        fails.append("Clausius-Clapeyron: heat*1000=%r but R T^2 dlnP/dT=%r at T=%r" % (lhs, rhs, T))
    t0, t1, t2 = case.get('t0', T), case.get('t1', T - 30.0), case.get('t2', T - 55.0)
    ch = c.get_cooling_heat
    sc = max(1.0, abs(ch(t0, t2)))
    if abs(ch(t0, t1) + ch(t1, t2) - ch(t0, t2)) > 1e-9 * sc: fails.append("cooling heat not additive")
    if abs(ch(t0, t1) + ch(t1, t0)) > 1e-9 * sc: fails.append("cooling heat not antisymmetric")
    if ch(t0, t0) != 0: fails.append("cooling heat of an empty interval is %r" % ch(t0, t0))
    # additivity with one very short sub-interval and the derivative right at the start of the interval (t1 -> t0): a shortcut for
    # "almost equal" temperatures shows here
    for eps in (1e-3, 1e-5):
        whole = ch(t0, t1); parts = ch(t0, t1 + eps) + ch(t1 + eps, t1)
        if abs(whole - parts) > 1e-9 * sc: fails.append("cooling heat not additive over a split %g K above the lower limit: %r vs %r" % (eps, whole, parts)); break
    d0 = (ch(t1 + 1e-3, t1) - ch(t1 - 1e-3, t1)) / 2e-3
    if abs(d0 - c.get_specific_heat(t1)) > 1e-5 * max(1.0, abs(d0), abs(c.get_specific_heat(t1))): fails.append("d cooling/d upper limit at the start of the interval %r != cp %r" % (d0, c.get_specific_heat(t1)))
    dd = (ch(t0 + h, t1) - ch(t0 - h, t1)) / (2 * h)
    if abs(dd - c.get_specific_heat(t0)) > 1e-5 * max(1.0, abs(dd)): fails.append("d cooling/d upper limit %r != cp %r" % (dd, c.get_specific_heat(t0)))
    return fails


def case_from_model(model, vp):
    env = {k: v for k, v in (model or {}).items() if isinstance(v, (int, float))}
    T = env.get('T', 330.0)
    if T <= 0: T = 330.0
    return dict(env=env, vp=vp, T=T, t0=env.get('t0', T), t1=env.get('t1', T - 30.0), t2=env.get('t2', T - 55.0))


def corpus(seed, n):
    rng = random.Random(seed)
    out = []
    for name, _ in builtin_components():
        for T in (280.0, 333.15, 390.0): out.append(dict(builtin=name, T=T))
    while len(out) < n:
        vp = rng.choice(['antoine', 'frost'])
        env = dict(M1=rng.uniform(18, 150), vpa1=rng.uniform(5, 9) if vp == 'antoine' else rng.uniform(10, 20),
                   vpb1=rng.uniform(-2500, -900) if vp == 'antoine' else rng.uniform(-6000, -3000),
                   vpc1=rng.uniform(-80, -10) if vp == 'antoine' else rng.uniform(-2e5, 2e5),
                   ca1=rng.uniform(20, 200), cb1=rng.uniform(-0.5, 0.5), cc1=rng.uniform(-1e-3, 1e-3), cd1=rng.uniform(-1e-6, 1e-6))
        out.append(dict(env=env, vp=vp, T=rng.uniform(250, 450)))
    return out
