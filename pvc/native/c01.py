"""native checker for C01 (real process models): mass balances, initial state, lengths, time grid"""
from . import procs


def check(case):
    if case.get('sanitize'): case = procs.sanitize(case)
    try:
        model, pv, mix, mem, dcs, cond, kw = procs.run(case)
    except ValueError:
        return []              # rejected inputs are not trajectories
    fails = []
    N, dt, A = kw['number_of_steps'], kw['delta_hours'], cond.membrane_area
    for name in ('feed_temperature', 'feed_compositions', 'permeate_composition', 'permeate_temperature', 'permeate_pressure', 'feed_mass', 'partial_fluxes',
                 'permeances', 'time', 'feed_evaporation_heat', 'permeate_condensation_heat'):
        if len(getattr(model, name)) != N: fails.append("len(%s)=%d, expected %d" % (name, len(getattr(model, name)), N))
    if fails: return fails
    if model.feed_mass[0] != cond.initial_feed_amount: fails.append("feed_mass[0] %r" % model.feed_mass[0])
    x0 = cond.initial_feed_composition.to_weight(mix).p
    if abs(model.feed_compositions[0].p - x0) > 1e-12 or model.feed_compositions[0].type != 'weight': fails.append("feed_compositions[0] = %r, expected mass fraction %r" % (model.feed_compositions[0], x0))
    if model.feed_temperature[0] != cond.initial_feed_temperature: fails.append("feed_temperature[0] %r" % model.feed_temperature[0])
    for k in range(N):
        if abs(model.time[k] - k * dt) > 1e-12 * max(1.0, k * dt): fails.append("time[%d]=%r, expected %r" % (k, model.time[k], k * dt))
        if model.feed_compositions[k].type != 'weight': fails.append("feed composition %d reported as %s" % (k, model.feed_compositions[k].type))
    for k in range(N - 1):
        J = model.partial_fluxes[k]
        m0, m1 = model.feed_mass[k], model.feed_mass[k + 1]
        sc = max(abs(m0), abs(J[0] * A * dt), abs(J[1] * A * dt))
        if abs(m1 - (m0 - (J[0] + J[1]) * A * dt)) > 1e-9 * sc: fails.append("step %d: feed mass %r -> %r, fluxes remove %r" % (k, m0, m1, (J[0] + J[1]) * A * dt))
        c0, c1 = model.feed_compositions[k].p * m0, model.feed_compositions[k + 1].p * m1
        if abs(c1 - (c0 - J[0] * A * dt)) > 1e-9 * sc: fails.append("step %d: component-1 mass %r -> %r, flux1 removes %r" % (k, c0, c1, J[0] * A * dt))
    return fails


def corpus(seed, n):
    """replay corpus (all kinds) when asked for many cases; as a bounded stand-in (n small): the fast ideal models over
    (number_of_steps, step length) grids, where float rounding of a computed time grid would show"""
    import random
    rng = random.Random(seed)
    grid = [(3, 0.1), (6, 0.1), (7, 0.3), (10, 0.1), (5, 1.0), (50, 0.2), (9, 0.7), (12, 0.05), (3, 1e-3), (11, 0.9)]
    out = []
    for i, (N, dt) in enumerate(grid):
        f = procs.FUNCS[i % 2]
        out.append(dict(func=f, N=N, dt=dt, mode=['vacuum', 'temperature', 'pressure'][i % 3], comp_type=['weight', 'molar'][i % 2], A=0.01, m0=5.0, program=(i % 4 == 1 and 'non_isothermal' in f)))
    # integer-valued inputs (333 rather than 333.0, 12 rather than 12.0): a series kept in an integer container would truncate
    for i, f in enumerate(procs.FUNCS):
        out.insert(2 * i, dict(func=f, N=3, dt=0.2, mode=['vacuum', 'temperature', 'pressure'][i % 3], comp_type='weight', A=0.05, m0=12, T0=333, x0=0.3, Tp=273, pp=1, curves='one', Tc=333.15))
    if n > len(out): out += procs.corpus(seed, min(n - len(out), 16))
    return out[:max(n, 4)]
