"""native harness for the process / curve models: builds real membranes, curve sets and conditions from a flat case"""
import random, math
from .objs import builtin_mixtures

FUNCS = ('ideal_isothermal_process', 'ideal_non_isothermal_process', 'non_ideal_isothermal_process', 'non_ideal_non_isothermal_process')


def membrane_and_set(mix, case):
    from pyvaporation.membrane import Membrane
    from pyvaporation.experiments import IdealExperiment, IdealExperiments
    from pyvaporation.permeance import Permeance
    from pyvaporation.diffusion_curve import DiffusionCurve, DiffusionCurveSet
    from pyvaporation.mixtures import Composition
    P1, P2 = case.get('P1', 0.03), case.get('P2', 0.0003)
    Ea1, Ea2 = case.get('Ea1', 20000.0), case.get('Ea2', 60000.0)
    Texp = case.get('Texp', 323.15)
    eu = case.get('exp_units', 'kg/(m2*h*kPa)')
    exps = [IdealExperiment(name='a', temperature=Texp, component=mix.first_component, permeance=Permeance(P1).convert(eu, mix.first_component), activation_energy=Ea1),
            IdealExperiment(name='b', temperature=Texp, component=mix.second_component, permeance=Permeance(P2).convert(eu, mix.second_component), activation_energy=Ea2)]
    mem = Membrane(name='m', ideal_experiments=IdealExperiments(exps))
    Ts = [case.get('Tc', 323.15)] if case.get('curves', 'one') == 'one' else [313.15, 323.15, 333.15]
    curves = []
    ctype = case.get('curve_type', 'weight')
    for Tc in Ts:
        xs = [0.05 + 0.1 * i for i in range(10)]
        perms = [(Permeance(P1 * math.exp(0.8 * x - Ea1 / 8.314462 * (1 / Tc - 1 / Texp))), Permeance(P2 * math.exp(-1.1 * x - Ea2 / 8.314462 * (1 / Tc - 1 / Texp)))) for x in xs]
        comps = [Composition(x, 'weight') for x in xs]
        if ctype == 'molar': comps = [c.to_molar(mix) for c in comps]
        curves.append(DiffusionCurve(mixture=mix, membrane_name='m', feed_temperature=Tc, feed_compositions=comps, permeances=perms))
    return mem, DiffusionCurveSet(name='set', diffusion_curves=curves)


def build(case):
    from pyvaporation.pervaporation import Pervaporation
    from pyvaporation.conditions import Conditions, TemperatureProgram
    from pyvaporation.mixtures import Composition
    from pyvaporation.permeance import Permeance
    mix = dict(builtin_mixtures())[case.get('builtin', 'H2O_EtOH')]
    mem, dcs = membrane_and_set(mix, case)
    pv = Pervaporation(mem, mix)
    mode = case.get('mode', 'vacuum')
    T0 = case.get('T0', 333.15)
    prog = None
    if case.get('program'):
        prog = TemperatureProgram(coefficients=case.get('coefficients', [T0 + case.get('program_offset', 4.0), -2.0, 0.1]), type=case.get('program_type', 'polynomial'))
    x0 = case.get('x0', 0.15)
    comp = Composition(x0, 'weight')
    if case.get('comp_type', 'weight') == 'molar': comp = comp.to_molar(mix)
    cond = Conditions(membrane_area=case.get('A', 0.05), initial_feed_temperature=T0, initial_feed_amount=case.get('m0', 1.0), initial_feed_composition=comp,
                      permeate_temperature=case.get('Tp', T0 - 60.0) if mode in ('temperature', 'both') else None,
                      permeate_pressure=case.get('pp', 0.5) if mode in ('pressure', 'both') else None, temperature_program=prog)
    kw = dict(conditions=cond, number_of_steps=case.get('N', 5), delta_hours=case.get('dt', 0.2), precision=case.get('prec', 5e-5), calculation_type=case.get('model', 'NRTL'))
    func = case.get('func', 'ideal_isothermal_process')
    if func.startswith('non_ideal'):
        kw.update(diffusion_curve_set=dcs, n_first=case.get('n', 1), n_second=case.get('n', 1), m_first=case.get('m', 1), m_second=case.get('m', 1))
        if case.get('initial'): kw['initial_permeances'] = (Permeance(case.get('Pi1', 0.02)), Permeance(case.get('Pi2', 0.0004)))
    return pv, mix, mem, dcs, cond, func, kw


def run(case):
    pv, mix, mem, dcs, cond, func, kw = build(case)
    model = getattr(pv, func)(**kw)
    return model, pv, mix, mem, dcs, cond, kw


def sanitize(case):
    """clamp solver-model values into the admissible domain of the property quantifiers"""
    c = dict(case)
    def rng(k, lo, hi, d):
        v = c.get(k, d)
        if not isinstance(v, (int, float)) or not (lo <= v <= hi) or v != v: v = d
        c[k] = v
    rng('A', 1e-4, 1e3, 0.05); rng('m0', 1e-3, 1e4, 1.0); rng('T0', 273.0, 400.0, 333.15); rng('x0', 0.01, 0.99, 0.15); rng('dt', 1e-4, 10.0, 0.2)
    rng('Tp', 120.0, c['T0'], c['T0'] - 60.0); rng('pp', 0.0, 100.0, 0.5); rng('prec', 1e-8, 1e-3, 5e-5); rng('Tc', 273.0, 400.0, 323.15)
    rng('Pi1', 1e-6, 1.0, 0.02); rng('Pi2', 1e-6, 1.0, 0.0004)
    n = c.get('N', 5)
    c['N'] = int(n) if isinstance(n, (int, float)) and 1 <= n <= 40 else 5
    return c


def corpus(seed, n, funcs=FUNCS):
    rng = random.Random(seed); out = []
    mixes = ['H2O_EtOH', 'H2O_MeOH', 'H2O_iPOH', 'EtOH_ETBE', 'MeOH_MTBE']
    names = dict(builtin_mixtures())
    mixes = [m for m in mixes if m in names] or list(names)[:3]
    i = 0
    while len(out) < n:
        f = funcs[i % len(funcs)]; i += 1
        iso = 'non_isothermal' not in f
        out.append(dict(func=f, builtin=rng.choice(mixes), mode=rng.choice(['vacuum', 'temperature', 'pressure']), program=(not iso) and rng.random() < 0.4,
                        comp_type=rng.choice(['weight', 'molar']), curves=rng.choice(['one', 'many']), initial=rng.random() < 0.5,
                        model=rng.choice(['NRTL', 'UNIQUAC']), A=10 ** rng.uniform(-2, 0), m0=10 ** rng.uniform(-1, 1), T0=rng.uniform(300, 370), x0=rng.uniform(0.05, 0.6),
                        dt=10 ** rng.uniform(-2, -0.3), N=rng.randint(2, 8), Tp=rng.uniform(240, 290), pp=rng.uniform(0, 1.0), Tc=rng.choice([323.15, 333.15])))
    return out


def series(case):
    """real process run: the reported series and the constants of the mixture (for the recurrence == CPython differential)"""
    model, pv, mix, mem, dcs, cond, kw = run(case)
    def comp(c):
        v, h = c.vapour_pressure_constants, c.heat_capacity_constants
        return dict(M=c.molecular_weight, vpa=v.a, vpb=v.b, vpc=v.c, vptype=v.type, ca=h.a, cb=h.b, cc=h.c, cd=h.d)
    return dict(N=kw['number_of_steps'], dt=kw['delta_hours'], A=cond.membrane_area, m0=cond.initial_feed_amount, T0=cond.initial_feed_temperature,
                x0=cond.initial_feed_composition.p, Tp=cond.permeate_temperature, pp=cond.permeate_pressure, prec=kw['precision'],
                c1=comp(mix.first_component), c2=comp(mix.second_component),
                feed_mass=[float(v) for v in model.feed_mass], x=[float(c.p) for c in model.feed_compositions], T=[float(v) for v in model.feed_temperature],
                y=[float(c.p) for c in model.permeate_composition], J=[[float(a), float(b)] for a, b in model.partial_fluxes],
                P=[[float(a.value), float(b.value)] for a, b in model.permeances], Q=[float(v) for v in model.feed_evaporation_heat],
                C=[None if v is None else float(v) for v in model.permeate_condensation_heat], time=[float(v) for v in model.time])
