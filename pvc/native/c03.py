"""native checker for C03 (real process models): evaporation heat, self-cooling, programme, isothermal, step-0 agreement"""
from . import procs


def lat(c, T): return c.get_vaporisation_heat(T) / c.molecular_weight * 1000
def cpm(c, T): return c.get_specific_heat(T) / c.molecular_weight


def check(case):
    if case.get('programme'): return check_programme(case)
    if case.get('sanitize'): case = procs.sanitize(case)
    try:
        model, pv, mix, mem, dcs, cond, kw = procs.run(case)
    except ValueError:
        return []
    fails = []
    c1, c2 = mix.first_component, mix.second_component
    N, dt, A = kw['number_of_steps'], kw['delta_hours'], cond.membrane_area
    iso = 'non_isothermal' not in case.get('func', '')
    Tp = cond.permeate_temperature
    cl = lambda a, b, t=1e-9: abs(a - b) <= t * max(abs(a), abs(b), 1e-300)
    for k in range(N):
        T = model.feed_temperature[k]; J = model.partial_fluxes[k]
        d1, d2 = J[0] * A * dt, J[1] * A * dt
        Q = lat(c1, T) * d1 + lat(c2, T) * d2
        if not cl(model.feed_evaporation_heat[k], Q): fails.append("step %d: evaporation heat %r, own latent heats give %r" % (k, model.feed_evaporation_heat[k], Q))
        ch = model.permeate_condensation_heat[k]
        if (ch is None) != (Tp is None): fails.append("step %d: condensation heat %r with permeate temperature %r" % (k, ch, Tp))
        if Tp is not None and ch is not None:
            want = (lat(c1, Tp) + c1.get_cooling_heat(T, Tp) * (T - Tp)) * d1 + (lat(c2, Tp) + c2.get_cooling_heat(T, Tp) * (T - Tp)) * d2
            if not cl(ch, want): fails.append("step %d: condensation heat %r, component-wise formula gives %r" % (k, ch, want))
        if iso and T != cond.initial_feed_temperature: fails.append("isothermal model changed the temperature at step %d" % k)
        if not iso and k + 1 < N:
            if cond.temperature_program is not None:
                want = cond.temperature_program.program((k + 1) * dt)
                if not cl(model.feed_temperature[k + 1], want, 1e-9): fails.append("step %d: programme gives %r at t=%r, model has %r" % (k + 1, want, (k + 1) * dt, model.feed_temperature[k + 1]))
            else:
                x = model.feed_compositions[k].p
                want = T - Q / (model.feed_mass[k] * (x * cpm(c1, T) + (1 - x) * cpm(c2, T)))
                if abs(model.feed_temperature[k + 1] - want) > 1e-9 * max(abs(want), abs(T - want) * 1e3): fails.append("step %d: self-cooling to %r, expected %r" % (k, model.feed_temperature[k + 1], want))
    # step 0 agreement of the isothermal / non-isothermal pair
    other = dict(case)
    other['func'] = case['func'].replace('isothermal', 'non_isothermal') if iso and 'non_isothermal' not in case['func'] else case['func'].replace('non_isothermal', 'isothermal')
    other['program'] = bool(case.get('program')) and 'non_isothermal' in other['func']      # the isothermal model ignores a programme; its non-isothermal twin must still start at the initial temperature
    try:
        m2 = procs.run(other)[0]
        for nm in ('partial_fluxes', 'feed_evaporation_heat', 'permeate_condensation_heat'):
            a, b = getattr(model, nm)[0], getattr(m2, nm)[0]
            a = a if isinstance(a, tuple) else (a,); b = b if isinstance(b, tuple) else (b,)
            for u, v in zip(a, b):
                if (u is None) != (v is None) or (u is not None and not cl(u, v, 1e-9)): fails.append("step 0: %s differs between isothermal and non-isothermal model: %r vs %r" % (nm, a, b))
    except ValueError:
        pass
    return fails


def check_programme(case):
    import math
    from pyvaporation.conditions import TemperatureProgram
    fails = []
    for typ in ('polynomial', 'exponential', 'logarithmic'):
        for cs in ([300.0], [300.0, 0.01], [300.0, 0.02, -0.001], [2.0, 3.0, 0.5, 0.01]):
            for t in (0.5, 2.0):
                got = TemperatureProgram(coefficients=cs, type=typ).program(t)
                if typ == 'polynomial': want = sum(c * t ** i for i, c in enumerate(cs))
                else:
                    p = sum(cs[i] * t ** (i - 1) for i in range(1, len(cs)))
                    if typ == 'logarithmic' and p <= 0: continue
                    want = cs[0] * (math.exp(p) if typ == 'exponential' else math.log(p))
                if abs(got - want) > 1e-9 * max(1.0, abs(want)): fails.append("%s programme %r at %r: %r, closed form %r" % (typ, cs, t, got, want))
    return fails


def corpus(seed, n):
    return procs.corpus(seed, min(n, 12)) + [dict(programme=True)]
