"""native checker for C10: the real flux solver under a call-count watchdog (10^5 driving-force evaluations)"""
import random
from .objs import builtin_mixtures
from . import c02

LIMIT = 100000


class Watchdog(Exception):
    pass


def check(case):
    from pyvaporation.pervaporation import Pervaporation
    pv, mix, feed, T, P1, P2, prec, Tp, pp, model = c02.setup(case)
    real = Pervaporation.get_partial_fluxes_from_permeate_composition
    n = [0]
    def counted(self, *a, **k):
        n[0] += 1
        if n[0] > LIMIT: raise Watchdog()
        return real(self, *a, **k)
    Pervaporation.get_partial_fluxes_from_permeate_composition = counted
    try:
        try:
            pv.calculate_partial_fluxes(T, feed, prec, Tp, pp, P1, P2, model)
        except Watchdog:
            return ["calculate_partial_fluxes made more than %d driving-force evaluations without returning or raising (2-cycle?)" % LIMIT]
        except (ValueError, ZeroDivisionError, FloatingPointError):
            pass
    finally:
        Pervaporation.get_partial_fluxes_from_permeate_composition = real
    return []


KNOWN_CYCLES = [
    dict(builtin='EtOH_ETBE', model='UNIQUAC', mode='temperature', T=361.37, x=0.2668, Tp=313.54, P1=3.52e-3, P2=4.11e-6, prec=5e-5),
]


def corpus(seed, n):
    """known cycling input of the pinned snapshot + random near-equilibrium states (permeate temperature just below the feed
    temperature, large permeance ratios), where the fixed-point map loses contractivity"""
    rng = random.Random(seed); out = list(KNOWN_CYCLES)
    names = [k for k, _ in builtin_mixtures()]
    while len(out) < n:
        T = rng.uniform(295, 395)
        near = rng.random() < 0.7
        out.append(dict(builtin=rng.choice(names), model=rng.choice(['NRTL', 'UNIQUAC', 'UNIQUAC']), mode='temperature', x=rng.uniform(0.02, 0.98), T=T,
                        P1=10 ** rng.uniform(-4, 0), P2=10 ** rng.uniform(-6, -1), prec=10 ** rng.uniform(-8, -4),
                        Tp=rng.uniform(T - 12, T - 0.3) if near else rng.uniform(T - 60, T - 1)))
    return out
