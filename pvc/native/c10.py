"""native checker for C10: the real flux solver under a call-count watchdog (10^5 driving-force evaluations)"""
import random
from .objs import builtin_mixtures
from . import c02

LIMIT = 100000


class Watchdog(BaseException):
    pass


def check_proc(case):
    """process / curve level: a finite number of steps makes a bounded number of flux-solver calls, each of them bounded"""
    import signal
    from pyvaporation.pervaporation import Pervaporation
    from . import procs
    pv, mix, mem, dcs, cond, func, kw = procs.build(case)
    N = kw['number_of_steps']
    real_cpf = Pervaporation.calculate_partial_fluxes
    real_gpf = Pervaporation.get_partial_fluxes_from_permeate_composition
    n = [0, 0]
    def cpf(self, *a, **k):
        n[0] += 1
        if n[0] > 50 * N + 100: raise Watchdog("calculate_partial_fluxes")
        return real_cpf(self, *a, **k)
    def gpf(self, *a, **k):
        n[1] += 1
        if n[1] > LIMIT * (N + 2): raise Watchdog("get_partial_fluxes_from_permeate_composition")
        return real_gpf(self, *a, **k)
    Pervaporation.calculate_partial_fluxes = cpf
    Pervaporation.get_partial_fluxes_from_permeate_composition = gpf
    try:
        try:
            signal.alarm(60)
            getattr(pv, func)(**kw)
        except Watchdog as w:
            return ["%s with number_of_steps=%d called %s more than %d times without returning or raising" % (func, N, w, n[0] if 'calculate' in str(w) else n[1])]
        except TimeoutError:
            return ["%s with number_of_steps=%d neither returned nor raised within 60 s" % (func, N)]
        except Exception:
            pass
    finally:
        Pervaporation.calculate_partial_fluxes = real_cpf
        Pervaporation.get_partial_fluxes_from_permeate_composition = real_gpf
    return []


def proc_corpus(seed, n):
    """process runs that drive the flux solver into its error exits: both permeate parameters given, a permeate pressure the
    feed runs down to, a permeate temperature just below the feed temperature"""
    from . import procs
    rng = random.Random(seed + 17); out = []
    base = procs.corpus(seed, n)
    for i, c in enumerate(base):
        c = dict(c)
        k = i % 4
        if k == 0: c.update(mode='both', Tp=rng.uniform(250, 290), pp=rng.uniform(0.1, 2.0))
        elif k == 1: c.update(mode='pressure', pp=rng.uniform(2.0, 15.0), N=rng.randint(10, 40), dt=10 ** rng.uniform(-1, 0), A=10 ** rng.uniform(-1, 0.5), m0=10 ** rng.uniform(-1, 0.5))
        elif k == 2: c.update(mode='temperature', Tp=c['T0'] - rng.uniform(0.2, 6.0), N=rng.randint(5, 20))
        out.append(dict(proc=c))
    return out


def check(case):
    if 'proc' in case: return check_proc(case['proc'])
    from pyvaporation.pervaporation import Pervaporation
    pv, mix, feed, T, P1, P2, prec, Tp, pp, model = c02.setup(case)
    real = Pervaporation.get_partial_fluxes_from_permeate_composition
    n = [0]
    def counted(self, *a, **k):
        n[0] += 1
        if n[0] > LIMIT: raise Watchdog()
        return real(self, *a, **k)
    Pervaporation.get_partial_fluxes_from_permeate_composition = counted
    try:
        try:
            pv.calculate_partial_fluxes(T, feed, prec, Tp, pp, P1, P2, model)
        except Watchdog:
            return ["calculate_partial_fluxes made more than %d driving-force evaluations without returning or raising (2-cycle?)" % LIMIT]
        except (ValueError, ZeroDivisionError, FloatingPointError):
            pass
    finally:
        Pervaporation.get_partial_fluxes_from_permeate_composition = real
    return []


KNOWN_CYCLES = [
    dict(builtin='EtOH_ETBE', model='UNIQUAC', mode='temperature', T=361.37, x=0.2668, Tp=313.54, P1=3.52e-3, P2=4.11e-6, prec=5e-5),
]


def corpus(seed, n):
    """known cycling input of the pinned snapshot + random near-equilibrium states (permeate temperature just below the feed
    temperature, large permeance ratios), where the fixed-point map loses contractivity"""
    rng = random.Random(seed); out = list(KNOWN_CYCLES)
    names = [k for k, _ in builtin_mixtures()]
    while len(out) < n:
        T = rng.uniform(295, 395)
        near = rng.random() < 0.7
        out.append(dict(builtin=rng.choice(names), model=rng.choice(['NRTL', 'UNIQUAC', 'UNIQUAC']), mode='temperature', x=rng.uniform(0.02, 0.98), T=T,
                        P1=10 ** rng.uniform(-4, 0), P2=10 ** rng.uniform(-6, -1), prec=10 ** rng.uniform(-8, -4),
                        Tp=rng.uniform(T - 12, T - 0.3) if near else rng.uniform(T - 60, T - 1)))
    return out
