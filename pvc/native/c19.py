"""native checker for C19: invalid specifications must raise at every entry point"""
from . import procs
from .objs import builtin_mixtures, builtin_components


def expect_raise(fails, label, fn):
    try:
        r = fn()
        fails.append("%s returned %s instead of raising" % (label, type(r).__name__))
    except (ValueError, KeyError, AttributeError, TypeError, AssertionError, IndexError) as e:
        if not isinstance(e, ValueError): fails.append("%s raised %s (expected ValueError)" % (label, type(e).__name__))


def check(case):
    from pyvaporation.mixtures import Composition, Mixture, get_partial_pressures
    from pyvaporation.mixtures.mixture import calculate_activity_coefficients
    from pyvaporation.permeance import Permeance
    from pyvaporation.diffusion_curve import DiffusionCurve
    from pyvaporation.membrane import Membrane
    from pyvaporation.experiments import IdealExperiment, IdealExperiments
    import attr
    fails = []
    c = dict(func='ideal_isothermal_process', mode='both', N=3)
    pv, mix, mem, dcs, cond, func, kw = procs.build(c)
    x = Composition(0.3, 'weight'); P1, P2 = Permeance(0.02), Permeance(0.001)
    expect_raise(fails, "get_partial_fluxes_from_permeate_composition", lambda: pv.get_partial_fluxes_from_permeate_composition(P1, P2, Composition(0.9, 'weight'), x, 333.15, 280.0, 1.0))
    expect_raise(fails, "calculate_partial_fluxes", lambda: pv.calculate_partial_fluxes(333.15, x, 5e-5, 280.0, 1.0))
    expect_raise(fails, "calculate_partial_fluxes(precision>1)", lambda: pv.calculate_partial_fluxes(333.15, x, 2.0, 280.0, 1.0, P1, P2))
    expect_raise(fails, "calculate_permeate_composition", lambda: pv.calculate_permeate_composition(333.15, x, 5e-5, 280.0, 1.0))
    expect_raise(fails, "calculate_separation_factor", lambda: pv.calculate_separation_factor(333.15, x, 280.0, 1.0))
    expect_raise(fails, "ideal_diffusion_curve", lambda: pv.ideal_diffusion_curve(333.15, [x, Composition(0.5, 'weight')], 280.0, 1.0))
    for f in procs.FUNCS:
        pv2, mix2, mem2, dcs2, cond2, func2, kw2 = procs.build(dict(c, func=f))
        expect_raise(fails, f, lambda: getattr(pv2, f)(**kw2))
    expect_raise(fails, "non_ideal_diffusion_curve", lambda: pv.non_ideal_diffusion_curve(diffusion_curve_set=dcs, feed_temperature=333.15, initial_feed_composition=x, delta_composition=0.05, number_of_steps=3,
                                                                                         permeate_temperature=280.0, permeate_pressure=1.0, n_first=1, n_second=1, m_first=1, m_second=1))
    expect_raise(fails, "get_estimated_pure_component_flux", lambda: mem.get_estimated_pure_component_flux(333.15, mix.first_component, 280.0, 1.0))
    expect_raise(fails, "DiffusionCurve from fluxes", lambda: DiffusionCurve(mixture=mix, membrane_name='m', feed_temperature=333.15, feed_compositions=[x], partial_fluxes=[(0.1, 0.01)], permeate_temperature=280.0, permeate_pressure=1.0))
    expect_raise(fails, "DiffusionCurve without fluxes and permeances", lambda: DiffusionCurve(mixture=mix, membrane_name='m', feed_temperature=333.15, feed_compositions=[x]))
    expect_raise(fails, "Mixture without parameters", lambda: Mixture(name='m', first_component=mix.first_component, second_component=mix.second_component))
    m_nr = attr.evolve(mix, nrtl_params=None); m_uq = attr.evolve(mix, uniquac_params=None)
    m_uc = attr.evolve(mix, second_component=attr.evolve(mix.second_component, uniquac_constants=None))
    for label, m, model in (("NRTL without parameters", m_nr, 'NRTL'), ("UNIQUAC without parameters", m_uq, 'UNIQUAC'), ("UNIQUAC without component constants", m_uc, 'UNIQUAC')):
        for comp in (Composition(0.3, 'molar'), x, Composition(0.0, 'molar'), Composition(1.0, 'molar'), Composition(1.0, 'weight'), Composition(0.0, 'weight')):
            expect_raise(fails, label + " (activity coefficients)", lambda: calculate_activity_coefficients(333.15, m, comp, model))
            expect_raise(fails, label + " (partial pressures)", lambda: get_partial_pressures(333.15, m, comp, model))
    one = Membrane(name='m', ideal_experiments=IdealExperiments([IdealExperiment(name='a', temperature=323.15, component=mix.first_component, permeance=P1)]))
    expect_raise(fails, "single experiment without activation energy (calculate_activation_energy)", lambda: one.calculate_activation_energy(mix.first_component))
    expect_raise(fails, "single experiment without activation energy (get_permeance)", lambda: one.get_permeance(333.15, mix.first_component))
    return fails


def corpus(seed, n): return [dict()]
