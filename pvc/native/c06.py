"""native checker for C06: relabelling the two components (and exchanging every per-component input) exchanges the results.
Used to replay refuted C06 obligations on the real code and as the fallback corpus.  The corpus uses NRTL only: the UNIQUAC swap
asymmetry of the pinned tree is the recorded known finding K1 (DESIGN 6) and is decided symbolically."""
import random
from .objs import builtin_mixtures, mixture, rel

PREC = 1e-8


def relabel(mix):
    from pyvaporation.mixtures import Mixture
    from pyvaporation.utils import NRTLParameters, UNIQUACParameters
    n = mix.nrtl_params; u = mix.uniquac_params
    nn = None
    if n is not None:
        two = n.alpha21 is not None
        nn = NRTLParameters(g12=n.g21, g21=n.g12, alpha12=n.alpha21 if two else n.alpha12, alpha21=n.alpha12 if two else None, a12=n.a21, a21=n.a12)
    uu = None
    if u is not None:
        uu = UNIQUACParameters(alpha_12=u.alpha_21, alpha_21=u.alpha_12, beta_12=u.beta_21, beta_21=u.beta_12, z=u.z)
    return Mixture(name=mix.name, first_component=mix.second_component, second_component=mix.first_component, nrtl_params=nn, uniquac_params=uu)


def close(a, b, tol): return rel(float(a), float(b), tol)


def outcome(f):
    try: return ('ok', f())
    except (ValueError, ZeroDivisionError, FloatingPointError, OverflowError) as x: return ('raise', type(x).__name__)


def check(case):
    from pyvaporation.mixtures import Composition, get_partial_pressures
    from pyvaporation.mixtures.mixture import calculate_activity_coefficients
    from pyvaporation.membrane import Membrane
    from pyvaporation.pervaporation import Pervaporation
    from pyvaporation.permeance import Permeance
    if 'builtin' in case:
        mix = dict(builtin_mixtures())[case['builtin']]; mixb = relabel(mix)
    else:
        env = case.get('env', {}); nr = case.get('nr', 'one')
        mix = mixture(env, nr=nr); mixb = mixture(env, nr=nr, swapped=True)
    model = case.get('model', 'NRTL'); mode = case.get('mode', 'vacuum')
    x = case.get('x', 0.3); T = case.get('T', 333.15)
    if not (0 < x < 1): x = 0.3
    fails = []
    if (model == 'NRTL' and mix.nrtl_params is None) or (model == 'UNIQUAC' and mix.uniquac_params is None): return []
    # activity coefficients / partial pressures
    for typ in ('molar', 'weight'):
        a = outcome(lambda: calculate_activity_coefficients(T, mix, Composition(x, typ), model))
        b = outcome(lambda: calculate_activity_coefficients(T, mixb, Composition(1 - x, typ), model))
        if a[0] == b[0] == 'ok':
            if not (close(a[1][0], b[1][1], 1e-9) and close(a[1][1], b[1][0], 1e-9)):
                fails.append("activity coefficients (%s, %s input) of the relabelled mixture are not exchanged: %r vs %r" % (model, typ, tuple(map(float, a[1])), tuple(map(float, b[1]))))
        elif a[0] != b[0]: fails.append("activity coefficients: %s vs relabelled %s" % (a, b))
        a = outcome(lambda: get_partial_pressures(T, mix, Composition(x, typ), model))
        b = outcome(lambda: get_partial_pressures(T, mixb, Composition(1 - x, typ), model))
        if a[0] == b[0] == 'ok':
            if not (close(a[1][0], b[1][1], 1e-9) and close(a[1][1], b[1][0], 1e-9)):
                fails.append("partial pressures (%s, %s input) of the relabelled mixture are not exchanged: %r vs %r" % (model, typ, tuple(map(float, a[1])), tuple(map(float, b[1]))))
        elif a[0] != b[0]: fails.append("partial pressures: %s vs relabelled %s" % (a, b))
    # flux solver
    P1, P2 = case.get('P1', 0.02), case.get('P2', 0.0005)
    Tp = case.get('Tp', T - 60.0) if mode == 'temperature' else None
    pp = case.get('pp', 0.8) if mode == 'pressure' else None
    pva = Pervaporation(Membrane(name='m'), mix); pvb = Pervaporation(Membrane(name='m'), mixb)
    un = case.get('units', 'kg/(m2*h*kPa)')
    a = outcome(lambda: pva.calculate_partial_fluxes(T, Composition(x, 'weight'), PREC, Tp, pp, Permeance(P1, un), Permeance(P2, un), model))
    b = outcome(lambda: pvb.calculate_partial_fluxes(T, Composition(1 - x, 'weight'), PREC, Tp, pp, Permeance(P2, un), Permeance(P1, un), model))
    if a[0] == b[0] == 'ok':
        s = abs(a[1][0]) + abs(a[1][1])
        if abs(a[1][0] - b[1][1]) > 1e-5 * s + 1e-12 or abs(a[1][1] - b[1][0]) > 1e-5 * s + 1e-12:
            fails.append("calculate_partial_fluxes (%s, %s mode, explicit permeances in %s): fluxes of the relabelled problem are not exchanged: %r vs %r" % (model, mode, un, tuple(map(float, a[1])), tuple(map(float, b[1]))))
    # diffusion curve built from these fluxes: the permeances it derives (and its selectivity) are exchanged too
    if a[0] == b[0] == 'ok' and model == 'NRTL':
        try:
            from pyvaporation.diffusion_curve import DiffusionCurve
            ca = DiffusionCurve(mixture=mix, membrane_name='m', feed_temperature=T, feed_compositions=[Composition(x, 'weight')], partial_fluxes=[(float(a[1][0]), float(a[1][1]))], permeate_temperature=Tp, permeate_pressure=pp)
            cb = DiffusionCurve(mixture=mixb, membrane_name='m', feed_temperature=T, feed_compositions=[Composition(1 - x, 'weight')], partial_fluxes=[(float(a[1][1]), float(a[1][0]))], permeate_temperature=Tp, permeate_pressure=pp)
            ka, kb = ca.permeances[0], cb.permeances[0]
            if not (close(ka[0].value, kb[1].value, 1e-7) and close(ka[1].value, kb[0].value, 1e-7)):
                fails.append("DiffusionCurve from fluxes (%s mode): permeances of the relabelled curve are not exchanged: %r vs %r" % (mode, (float(ka[0].value), float(ka[1].value)), (float(kb[0].value), float(kb[1].value))))
        except (ValueError, ZeroDivisionError): pass
    # ideal process models
    func = case.get('func')
    if func:
        from . import procs
        from pyvaporation.conditions import Conditions
        pc = dict(case.get('proc', {})); pc.setdefault('mode', mode); pc['func'] = func; pc['model'] = model; pc['prec'] = PREC
        if 'builtin' in case: pc['builtin'] = case['builtin']
        ra = outcome(lambda: run_proc(pc, mix, False)); rb = outcome(lambda: run_proc(pc, mixb, True))
        if ra[0] == rb[0] == 'ok':
            A, B = ra[1], rb[1]
            def cmp(name, fa, fb, tol=1e-5):
                for k, (u, v) in enumerate(zip(fa, fb)):
                    if not close(u, v, tol):
                        fails.append("%s: %s of the relabelled run differs at step %d: %r vs %r" % (func, name, k, float(u), float(v))); return
            if len(A.feed_mass) != len(B.feed_mass): fails.append("%s: relabelled run has a different number of steps" % func)
            cmp('feed_mass', A.feed_mass, B.feed_mass)
            cmp('feed_evaporation_heat', A.feed_evaporation_heat, B.feed_evaporation_heat)
            cmp('permeate_condensation_heat', [h if h is not None else 0.0 for h in A.permeate_condensation_heat], [h if h is not None else 0.0 for h in B.permeate_condensation_heat])
            cmp('feed_temperature', A.feed_temperature, B.feed_temperature)
            cmp('feed_composition (1 - x)', [c.first for c in A.feed_compositions], [c.second for c in B.feed_compositions])
            cmp('partial flux 1 <-> 2', [j[0] for j in A.partial_fluxes], [j[1] for j in B.partial_fluxes])
            cmp('partial flux 2 <-> 1', [j[1] for j in A.partial_fluxes], [j[0] for j in B.partial_fluxes])
        elif ra[0] != rb[0]:
            fails.append("%s: %s vs relabelled %s" % (func, ra if ra[0] == 'raise' else 'returns', rb if rb[0] == 'raise' else 'returns'))
    return fails


def run_proc(pc, mix, swapped):
    """ideal process on `mix`; the relabelled run exchanges the experiments and starts from 1 - x0"""
    from pyvaporation.membrane import Membrane
    from pyvaporation.experiments import IdealExperiment, IdealExperiments
    from pyvaporation.permeance import Permeance
    from pyvaporation.pervaporation import Pervaporation
    from pyvaporation.conditions import Conditions, TemperatureProgram
    from pyvaporation.mixtures import Composition
    P1, P2 = pc.get('P1', 0.03), pc.get('P2', 0.0003); Ea1, Ea2 = pc.get('Ea1', 20000.0), pc.get('Ea2', 60000.0)
    if swapped: P1, P2, Ea1, Ea2 = P2, P1, Ea2, Ea1
    Texp = pc.get('Texp', 323.15)
    exps = [IdealExperiment(name='a', temperature=Texp, component=mix.first_component, permeance=Permeance(P1), activation_energy=Ea1),
            IdealExperiment(name='b', temperature=Texp, component=mix.second_component, permeance=Permeance(P2), activation_energy=Ea2)]
    pv = Pervaporation(Membrane(name='m', ideal_experiments=IdealExperiments(exps)), mix)
    T0 = pc.get('T0', 333.15); x0 = pc.get('x0', 0.15); mode = pc.get('mode', 'vacuum')
    prog = None
    if pc.get('program'): prog = TemperatureProgram(coefficients=[T0 + 4.0, -2.0, 0.1], type='polynomial')
    cond = Conditions(membrane_area=pc.get('A', 0.05), initial_feed_temperature=T0, initial_feed_amount=pc.get('m0', 1.0),
                      initial_feed_composition=Composition(1 - x0 if swapped else x0, 'weight'),
                      permeate_temperature=pc.get('Tp', T0 - 60.0) if mode == 'temperature' else None,
                      permeate_pressure=pc.get('pp', 0.5) if mode == 'pressure' else None, temperature_program=prog)
    return getattr(pv, pc['func'])(conditions=cond, number_of_steps=pc.get('N', 4), delta_hours=pc.get('dt', 0.2), precision=pc.get('prec', PREC), calculation_type=pc.get('model', 'NRTL'))


def corpus(seed, n):
    rng = random.Random(seed); out = []
    names = [k for k, m in builtin_mixtures() if m.nrtl_params is not None]
    i = 0
    while len(out) < n:
        i += 1
        c = dict(builtin=rng.choice(names), model='NRTL', mode=rng.choice(['vacuum', 'temperature', 'pressure']), x=rng.uniform(0.03, 0.97), T=rng.uniform(300, 370),
                 P1=10 ** rng.uniform(-3, -1), P2=10 ** rng.uniform(-5, -2), pp=rng.uniform(0, 1.0), units=rng.choice(['kg/(m2*h*kPa)', 'kg/(m2*h*kPa)', 'SI', 'GPU']))
        c['Tp'] = c['T'] - rng.uniform(30, 90)
        if i % 3 == 0:
            c['func'] = rng.choice(['ideal_isothermal_process', 'ideal_non_isothermal_process'])
            c['proc'] = dict(x0=rng.uniform(0.05, 0.6), T0=c['T'], A=10 ** rng.uniform(-2, 0), m0=10 ** rng.uniform(-1, 1), dt=10 ** rng.uniform(-2, -0.5), N=rng.randint(2, 6),
                             Tp=c['Tp'], pp=c['pp'], program=rng.random() < 0.3 and 'non_isothermal' in c['func'])
        out.append(c)
    return out
