"""native checker for C02 (real flux solver): law, fixed-point contract, exact identities, scaling"""
import random, math
from .objs import mixture, builtin_mixtures


def setup(case):
    from pyvaporation.membrane import Membrane
    from pyvaporation.pervaporation import Pervaporation
    from pyvaporation.mixtures import Composition
    from pyvaporation.permeance import Permeance
    mix = dict(builtin_mixtures())[case['builtin']] if 'builtin' in case else mixture(case.get('env', {}))
    pv = Pervaporation(Membrane(name='m'), mix)
    env = case.get('env', {})
    g = lambda k, d: case.get(k, env.get(k, d))
    x = g('x', 0.3); T = g('T', 333.15); P1 = g('P1', 0.01); P2 = g('P2', 0.001); prec = g('prec', 5e-5)
    if not (0 < x < 1): x = 0.3
    if not (273 <= T <= 400): T = 333.15
    if not (1e-8 < P1 <= 10): P1 = 0.01
    if not (1e-8 < P2 <= 10): P2 = 0.001
    if not (1e-9 <= prec <= 1e-2): prec = 5e-5
    mode = case.get('mode', 'vacuum')
    Tp = pp = None
    if mode == 'temperature':
        Tp = g('Tp', T - 60.0)
        if not (120 <= Tp <= T): Tp = T - 60.0
    if mode == 'pressure':
        pp = g('pp', 1.0)
        if not (0 <= pp <= 100): pp = 1.0
    return pv, mix, Composition(x, case.get('feed_type', 'weight')), T, Permeance(P1), Permeance(P2), prec, Tp, pp, case.get('model', 'NRTL')


def side(mix, y, Tp, pp, model):
    from pyvaporation.mixtures import get_partial_pressures
    if Tp is None and pp is None: return (0.0, 0.0)
    if Tp is not None: return get_partial_pressures(Tp, mix, y, model)
    return (pp * y.first, pp * y.second)


def law(mix, P1, P2, y, feed, T, Tp, pp, model):
    from pyvaporation.mixtures import get_partial_pressures
    pf = get_partial_pressures(T, mix, feed, model); ps = side(mix, y, Tp, pp, model)
    return (P1.value * (pf[0] - ps[0]), P2.value * (pf[1] - ps[1]))


def spec_solver(mix, P1, P2, feed, T, Tp, pp, prec, model, cap=10000):
    """the contract of calculate_partial_fluxes restated: y0 from vacuum fluxes, y <- G(y) while d >= prec, return F(y)"""
    from pyvaporation.mixtures import Composition, get_partial_pressures
    pf = get_partial_pressures(T, mix, feed, model)
    J = (P1.value * pf[0], P2.value * pf[1])
    y = Composition(J[0] / (J[0] + J[1]), 'weight'); d = 1.0; n = 0; prev = None
    while d >= prec:
        n += 1
        if n > cap: return None, None, None
        J = law(mix, P1, P2, y, feed, T, Tp, pp, model)
        yn = Composition(J[0] / (J[0] + J[1]), 'weight')
        d = max(abs(yn.first - y.first), abs(yn.second - y.second)); prev = y; y = yn
    return law(mix, P1, P2, y, feed, T, Tp, pp, model), y, prev


def check(case):
    from pyvaporation.mixtures import Composition, get_partial_pressures
    from pyvaporation.permeance import Permeance
    fails = []
    pv, mix, feed, T, P1, P2, prec, Tp, pp, model = setup(case)
    cl = lambda a, b, t=1e-9: (not (math.isfinite(a) and math.isfinite(b))) or abs(a - b) <= t * max(abs(a), abs(b)) + 1e-300   # non-finite values are outside the real-number model
    for yv in (0.1, 0.5, 0.9):
        y = Composition(yv, 'weight')
        got = pv.get_partial_fluxes_from_permeate_composition(P1, P2, y, feed, T, Tp, pp, model)
        want = law(mix, P1, P2, y, feed, T, Tp, pp, model)
        if not (cl(got[0], want[0]) and cl(got[1], want[1])): fails.append("solution-diffusion law at y=%r: %r, expected %r" % (yv, got, want))
    try:
        want, ystar, yprev = spec_solver(mix, P1, P2, feed, T, Tp, pp, prec, model)
    except ValueError:
        return fails
    if want is None: return fails
    try:
        got = pv.calculate_partial_fluxes(T, feed, prec, Tp, pp, P1, P2, model)
    except ValueError as e:
        fails.append("calculate_partial_fluxes raised %s where the fixed-point contract converges" % e); return fails
    if not (cl(got[0], want[0], 1e-8) and cl(got[1], want[1], 1e-8)): fails.append("fluxes %r differ from the fixed-point contract %r" % (got, want))
    pf = get_partial_pressures(T, mix, feed, model)
    if Tp is None and (pp is None or pp == 0):
        if not (cl(got[0], P1.value * pf[0]) and cl(got[1], P2.value * pf[1])): fails.append("vacuum fluxes are not permeance x feed pressure")
    if pp is not None:
        lhs = got[0] / P1.value + got[1] / P2.value; rhs = pf[0] + pf[1] - pp
        if math.isfinite(lhs) and math.isfinite(rhs) and abs(lhs - rhs) > 1e-9 * max(abs(pf[0] + pf[1]), abs(pp)): fails.append("pressure identity: J1/P1+J2/P2=%r, p_f1+p_f2-p=%r" % (lhs, rhs))
    k = case.get('k', 7.5)
    gk = pv.calculate_partial_fluxes(T, feed, prec, Tp, pp, Permeance(k * P1.value), Permeance(k * P2.value), model)
    if not (cl(gk[0], k * got[0], 1e-9) and cl(gk[1], k * got[1], 1e-9)): fails.append("scaling permeances by %r: %r vs %r" % (k, gk, (k * got[0], k * got[1])))
    if yprev is not None:
        G = lambda yy: (lambda J: J[0] / (J[0] + J[1]))(law(mix, P1, P2, Composition(yy, 'weight'), feed, T, Tp, pp, model))
        ys = ystar.first
        if 0 <= ys <= 1 and 0 <= yprev.first <= 1 and abs(ys - yprev.first) > 0:
            if abs(G(ys) - G(yprev.first)) <= abs(ys - yprev.first):       # hypothesis of the statement
                yr = got[0] / (got[0] + got[1])
                if abs(yr - ys) >= prec: fails.append("returned composition %r differs from the permeate composition used %r by more than the precision" % (yr, ys))
    return fails


def corpus(seed, n):
    rng = random.Random(seed); out = []
    names = [k for k, _ in builtin_mixtures()]
    while len(out) < n:
        mode = rng.choice(['vacuum', 'temperature', 'pressure'])
        T = rng.uniform(290, 390)
        out.append(dict(builtin=rng.choice(names), model=rng.choice(['NRTL', 'UNIQUAC']), mode=mode, x=rng.uniform(0.02, 0.98), T=T,
                        P1=10 ** rng.uniform(-5, 0), P2=10 ** rng.uniform(-5, 0), prec=10 ** rng.uniform(-8, -3), Tp=rng.uniform(200, T - 20), pp=rng.choice([0.0, rng.uniform(0, 3)]),
                        feed_type=rng.choice(['weight', 'molar']), k=10 ** rng.uniform(-2, 2)))
    return out
