"""native checker for C05: non-ideal models follow the fitted functions they return"""
import math, random
from . import procs
R = 8.314462


def close(a, b, tol=1e-8): return abs(a - b) <= tol * max(abs(a), abs(b), 1e-300)


def check(case):
    if case.get('curve'): return check_curve(case)
    if case.get('sanitize'): case = procs.sanitize(case)
    if not case.get('func', '').startswith('non_ideal'): case = dict(case, func='non_ideal_isothermal_process')
    fails = []
    try:
        model, pv, mix, mem, dcs, cond, kw = procs.run(case)
    except ValueError:
        return []
    iso = 'non_isothermal' not in case['func']
    f = model.permeance_fits
    x0 = cond.initial_feed_composition.to_weight(mix).p; T0 = cond.initial_feed_temperature
    FR = [model.permeances[0][i].value / f[i](x0, T0) for i in (0, 1)]
    if not case.get('initial'):
        for i in (0, 1):
            if not close(FR[i], 1.0, 1e-9): fails.append("no initial permeances but factor %d = %r" % (i + 1, FR[i]))
    else:
        if not (close(model.permeances[0][0].value, kw['initial_permeances'][0].value) and close(model.permeances[0][1].value, kw['initial_permeances'][1].value)):
            fails.append("step 0 does not use the supplied initial permeances")
    for k in range(1, len(model.permeances)):
        x = model.feed_compositions[k - 1].p if iso else model.feed_compositions[k].p
        T = model.feed_temperature[k]
        for i in (0, 1):
            want = f[i](x, T) * FR[i]
            if not close(model.permeances[k][i].value, want): fails.append("step %d: permeance %d = %r, fit x factor gives %r" % (k, i + 1, model.permeances[k][i].value, want))
    # provenance of the returned functions
    from pyvaporation.optimizer import Measurements, find_best_fit
    single = len(dcs.diffusion_curves) == 1
    for i, (meas, n, m) in enumerate(((Measurements.from_diffusion_curves_first(dcs), kw['n_first'], kw['m_first']), (Measurements.from_diffusion_curves_second(dcs), kw['n_second'], kw['m_second']))):
        g = find_best_fit(data=meas, n=n, m=0 if single else m, include_zero=False if single else kw.get('include_zero', False), component_index=i)
        if single:
            Tc = dcs.diffusion_curves[0].feed_temperature
            comp = mix.first_component if i == 0 else mix.second_component
            if not (iso and Tc == T0):
                Ea = mem.calculate_activation_energy(comp)
                for xq in (0.2, 0.6):
                    for Tq in (T0, T0 - 11.0):
                        want = g(xq, Tc) * math.exp(-Ea / R * (1 / Tq - 1 / Tc))
                        if not close(f[i](xq, Tq), want, 1e-7): fails.append("single curve: returned fit %d at (%r,%r) = %r, Arrhenius-rescaled best fit gives %r" % (i + 1, xq, Tq, f[i](xq, Tq), want))
                continue
        for xq in (0.2, 0.6):
            if not close(f[i](xq, T0), g(xq, T0), 1e-7): fails.append("returned fit %d differs from find_best_fit of the curve set's measurements" % (i + 1))
    return fails[:8]


def check_curve(case):
    from pyvaporation.mixtures import Composition
    from pyvaporation.permeance import Permeance
    from pyvaporation.optimizer import Measurements, find_best_fit
    case = procs.sanitize(case)
    pv, mix, mem, dcs, cond, func, kw = procs.build(dict(case, func='non_ideal_isothermal_process'))
    x0 = Composition(case.get('x0', 0.15), 'weight')
    if case.get('comp_type') == 'molar': x0 = x0.to_molar(mix)
    T = case.get('T0', 333.15)
    kws = dict(diffusion_curve_set=dcs, feed_temperature=T, initial_feed_composition=x0, delta_composition=0.05, number_of_steps=5, n_first=1, n_second=1, m_first=1, m_second=1)
    if case.get('initial'): kws['initial_permeances'] = (Permeance(0.02), Permeance(0.0004))
    try:
        c = pv.non_ideal_diffusion_curve(**kws)
    except ValueError:
        return []
    fails = []
    xm = x0.to_weight(mix).p
    single = len(dcs.diffusion_curves) == 1
    fits = []
    for i, meas in enumerate((Measurements.from_diffusion_curves_first(dcs), Measurements.from_diffusion_curves_second(dcs))):
        g = find_best_fit(data=meas, n=1, m=0 if single else 1, include_zero=False, component_index=i)
        if single and dcs.diffusion_curves[0].feed_temperature != T:
            Tc = dcs.diffusion_curves[0].feed_temperature; Ea = mem.calculate_activation_energy(mix.first_component if i == 0 else mix.second_component)
            fits.append(lambda x, t, g=g, Tc=Tc, Ea=Ea: g(x, Tc) * math.exp(-Ea / R * (1 / t - 1 / Tc)))
        else: fits.append(g)
    if not close(c.feed_compositions[0].p, xm, 1e-12): fails.append("first curve point %r is not the initial mass fraction %r" % (c.feed_compositions[0].p, xm))
    FR = [c.permeances[0][i].value / fits[i](xm, T) for i in (0, 1)]
    if not case.get('initial'):
        for i in (0, 1):
            if not close(FR[i], 1.0, 1e-7): fails.append("curve: no initial permeances but factor %d = %r" % (i + 1, FR[i]))
    for k in range(1, len(c.permeances)):
        for i in (0, 1):
            want = fits[i](c.feed_compositions[k].p, T) * FR[i]
            if not close(c.permeances[k][i].value, want, 1e-7): fails.append("curve point %d: permeance %d = %r, fit x factor gives %r" % (k, i + 1, c.permeances[k][i].value, want))
    return fails[:8]


def corpus(seed, n):
    out = [c for c in procs.corpus(seed, 24, funcs=procs.FUNCS[2:])][:min(n, 8)]
    out += [dict(curve=True, comp_type=ct, curves=cu, initial=ini) for ct in ('weight', 'molar') for cu in ('one', 'many') for ini in (False, True)][:6]
    return out
