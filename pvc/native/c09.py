"""native checker for C09: curve inversion round trip on the real code"""
import random
from . import procs


def close(a, b, tol): return abs(a - b) <= tol * max(abs(a), abs(b), 1e-300)


def check(case):
    from pyvaporation.mixtures import Composition
    from pyvaporation.permeance import Permeance
    from pyvaporation.diffusion_curve import DiffusionCurve
    fails = []
    mode = case.get('mode', 'vacuum')
    c = procs.sanitize(dict(builtin=case.get('builtin', 'H2O_EtOH'), mode=mode, func='ideal_isothermal_process'))
    pv, mix, mem, dcs, cond, func, kw = procs.build(c)
    T = case.get('T', 333.15); Tp = case.get('Tp', 280.0) if mode == 'temperature' else None; pp = case.get('pp', 1.0) if mode == 'pressure' else None
    P1, P2 = case.get('P1', 0.03), case.get('P2', 0.0003)
    xs = [Composition(x, 'weight') for x in case.get('xs', [0.1, 0.3, 0.6])]
    if case.get('feed_type') == 'molar': xs = [x.to_molar(mix) for x in xs]
    fl = [pv.calculate_partial_fluxes(T, x, 1e-9, Tp, pp, Permeance(P1), Permeance(P2)) for x in xs]
    curve = DiffusionCurve(mixture=mix, membrane_name='m', feed_temperature=T, feed_compositions=xs, partial_fluxes=fl, permeate_temperature=Tp, permeate_pressure=pp)
    for i, p in enumerate(curve.permeances):
        if p[0].units != 'kg/(m2*h*kPa)': fails.append("units %r" % p[0].units)
        if not (close(p[0].value, P1, 1e-5) and close(p[1].value, P2, 1e-5)):
            tag = ""
            if mode == 'pressure':
                # native fingerprint of known finding K2: the reported permeances are J_i / (p_feed_i - pp * MOLE fraction of the permeate)
                try:
                    from pyvaporation.mixtures import get_partial_pressures as _gpp
                    pf = _gpp(T, mix, xs[i]); J = fl[i]
                    y = Composition(J[0] / (J[0] + J[1]), 'weight').to_molar(mix)
                    k2 = (J[0] / (pf[0] - pp * y.first), J[1] / (pf[1] - pp * y.second))
                    if close(p[0].value, k2[0], 1e-9) and close(p[1].value, k2[1], 1e-9): tag = "KNOWN[K2] "
                except Exception: pass
            fails.append(tag + ("molar feed compositions, " if case.get('feed_type') == 'molar' else "") + "%s mode, point %d: curve reports permeances (%r, %r) for fluxes computed with (%r, %r)" % (mode, i, p[0].value, p[1].value, P1, P2))
    # from permeances (all units) and back in vacuum
    from pyvaporation.mixtures import get_partial_pressures
    for units in ('kg/(m2*h*kPa)', 'SI', 'GPU'):
        pk = [(Permeance(P1).convert(units, mix.first_component), Permeance(P2).convert(units, mix.second_component)) for _ in xs]
        c2 = DiffusionCurve(mixture=mix, membrane_name='m', feed_temperature=T, feed_compositions=xs, permeances=pk)
        for i, x in enumerate(xs):
            pf = get_partial_pressures(T, mix, x)
            if c2.permeances[i][0].units != 'kg/(m2*h*kPa)' or not close(c2.permeances[i][0].value, P1, 1e-9) or not close(c2.permeances[i][1].value, P2, 1e-9): fails.append("permeances supplied in %s are not exposed in kg units" % units)
            if not (close(c2.partial_fluxes[i][0], P1 * pf[0], 1e-9) and close(c2.partial_fluxes[i][1], P2 * pf[1], 1e-9)): fails.append("fluxes of a permeance-built curve (%s)" % units)
        c3 = DiffusionCurve(mixture=mix, membrane_name='m', feed_temperature=T, feed_compositions=xs, partial_fluxes=c2.partial_fluxes)
        for i in range(len(xs)):
            if not (close(c3.permeances[i][0].value, P1, 1e-9) and close(c3.permeances[i][1].value, P2, 1e-9)): fails.append("re-inversion in vacuum (%s)" % units)
    # Pervaporation.ideal_diffusion_curve: the package's own composition of solver and inversion reports the membrane's permeances back
    if mode != 'pressure' and case.get('feed_type') != 'molar':       # pressure mode: known finding K2 (covered above with its fingerprint)
        try:
            cv = pv.ideal_diffusion_curve(T, xs, Tp, pp, 1e-9)
            w1 = mem.get_permeance(T, mix.first_component).convert('kg/(m2*h*kPa)', mix.first_component).value
            w2 = mem.get_permeance(T, mix.second_component).convert('kg/(m2*h*kPa)', mix.second_component).value
            for i, p in enumerate(cv.permeances):
                if not (close(p[0].value, w1, 1e-5) and close(p[1].value, w2, 1e-5)):
                    fails.append("ideal_diffusion_curve, %s mode, point %d: curve reports permeances (%r, %r), the membrane has (%r, %r) at %r K" % (mode, i, p[0].value, p[1].value, w1, w2, T)); break
        except (ValueError, ZeroDivisionError, KeyError): pass
    return fails[:6]


def corpus(seed, n):
    rng = random.Random(seed); out = []
    for mode in ('vacuum', 'temperature', 'pressure'):
        for r_ in range(2):
            out.append(dict(mode=mode, feed_type='molar' if r_ else 'weight', builtin=rng.choice(['H2O_EtOH', 'H2O_MeOH']), T=rng.uniform(310, 360), Tp=rng.uniform(250, 290), pp=rng.uniform(0.2, 2.0), P1=10 ** rng.uniform(-3, -1), P2=10 ** rng.uniform(-5, -2)))
    return out
