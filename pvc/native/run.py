"""Native side of pvc (runs under /venv/bin/python with PYTHONPATH=$PVC_REPO): executes the REAL PyVaporation code.

stdin: JSON {"cmd": "call"|"check", ...}     stdout: JSON
  call : [{"func": "Class.method"|"function", "self": tree|null, "args": [tree], "kwargs": {name: tree}}, ...]
  check: {"prop": "C13", "cases": [...]}  -> per case a list of failure strings (pvc/native/cXX.py)
trees: numbers, strings, null, bool, {"__cls__": name, field: tree...}, {"__tuple__": [...]}, {"__list__": [...]}
"""
import sys, json, importlib, math, os, warnings, io, contextlib

warnings.filterwarnings("ignore")
_CLS = {}
PER_CASE = int(os.environ.get('PVC_NATIVE_CASE_TIMEOUT', '90'))


def classes():
    if _CLS: return _CLS
    import pkgutil, inspect
    import pyvaporation
    for m in pkgutil.walk_packages(pyvaporation.__path__, 'pyvaporation.'):
        try: mod = importlib.import_module(m.name)
        except Exception: continue
        for n, c in vars(mod).items():
            if inspect.isclass(c) and getattr(c, '__module__', '').startswith('pyvaporation'): _CLS.setdefault(n, c)
            elif inspect.isfunction(c) and getattr(c, '__module__', '').startswith('pyvaporation'):
                _CLS.setdefault(c.__module__.split('.')[-1] + '.py:' + n, c)
                if ('fn:' + c.__name__) not in _CLS: _CLS['fn:' + c.__name__] = c
                elif _CLS['fn:' + c.__name__] is not c: _CLS['fn!' + c.__name__] = None
    return _CLS


def build(t):
    if isinstance(t, dict):
        if '__tuple__' in t: return tuple(build(x) for x in t['__tuple__'])
        if '__list__' in t: return [build(x) for x in t['__list__']]
        if '__cls__' in t:
            c = classes()[t['__cls__']]
            kw = {k: build(v) for k, v in t.items() if k != '__cls__'}
            if hasattr(c, '__attrs_attrs__'):
                noinit = {a.name for a in c.__attrs_attrs__ if not a.init}
                kw = {k.lstrip('_'): v for k, v in kw.items() if k not in noinit}
            if '__raw__' in kw:        # bypass validators (class invariant deliberately broken by a counterexample)
                raw = kw.pop('__raw__')
                o = c.__new__(c)
                for k, v in kw.items(): object.__setattr__(o, k, v)
                return o
            return c(**kw)
        return {k: build(v) for k, v in t.items()}
    if isinstance(t, list): return [build(x) for x in t]
    return t


def dump(v, depth=0):
    import numpy
    if depth > 12: return "<deep>"
    if v is None or isinstance(v, (bool, str)): return v
    if isinstance(v, (int, float, numpy.floating, numpy.integer)):
        f = float(v)
        return f if math.isfinite(f) else repr(f)
    if isinstance(v, tuple): return {"__tuple__": [dump(x, depth + 1) for x in v]}
    if isinstance(v, (list, numpy.ndarray)): return {"__list__": [dump(x, depth + 1) for x in v]}
    if hasattr(v, '__attrs_attrs__'):
        d = {"__cls__": type(v).__name__}
        for a in v.__attrs_attrs__: d[a.name] = dump(getattr(v, a.name), depth + 1)
        return d
    if isinstance(v, dict): return {str(k): dump(x, depth + 1) for k, x in v.items()}
    return "<%s>" % type(v).__name__


def resolve(name):
    cs = classes()
    if '.' in name and not name.endswith('.py') and ':' not in name:
        c, m = name.split('.')
        return getattr(cs[c], m), cs[c]
    if ':' in name: return cs[name], None
    if cs.get('fn!' + name, 0) is None: raise KeyError("ambiguous function " + name)
    return cs['fn:' + name], None


def do_call(spec):
    f, cls = resolve(spec['func'])
    try:
        with contextlib.redirect_stdout(io.StringIO()):
            self_obj = build(spec.get('self'))
            args = [build(a) for a in spec.get('args', [])]
            kwargs = {k: build(v) for k, v in spec.get('kwargs', {}).items()}
            if self_obj is not None:
                if isinstance(f, property): r = f.fget(self_obj)
                else: r = f(self_obj, *args, **kwargs)
            else:
                r = f(*args, **kwargs)
        return {"return": dump(r), "args_after": [dump(a) for a in args], "self_after": dump(self_obj),
                "kwargs_after": {k: dump(v) for k, v in kwargs.items()}}
    except Exception as x:
        return {"raise": type(x).__name__, "msg": str(x)[:300]}


def main():
    req = json.load(sys.stdin)
    if req['cmd'] == 'call':
        out = [do_call(s) for s in req['calls']]
    elif req['cmd'] == 'check':
        mod = importlib.import_module('pvc.native.' + req['prop'].lower())
        out = []
        import signal
        def _alarm(sig, frm): raise TimeoutError("native case exceeded %ds" % PER_CASE)
        signal.signal(signal.SIGALRM, _alarm)
        for c in req['cases']:
            try:
                signal.alarm(PER_CASE)
                with contextlib.redirect_stdout(io.StringIO()):
                    out.append(mod.check(c))
                signal.alarm(0)
            except Exception as x:
                signal.alarm(0)
                import traceback
                out.append(["CHECKER-EXCEPTION %s: %s %s" % (type(x).__name__, x, traceback.format_exc()[-600:])])
    elif req['cmd'] == 'procs_series':
        from pvc.native import procs as _P
        out = []
        for c in req['cases']:
            try:
                with contextlib.redirect_stdout(io.StringIO()):
                    out.append(_P.series(c))
            except Exception as x:
                out.append({"error": "%s: %s" % (type(x).__name__, x)})
    elif req['cmd'] == 'corpus':
        mod = importlib.import_module('pvc.native.' + req['prop'].lower())
        with contextlib.redirect_stdout(io.StringIO()):
            out = getattr(mod, req.get('fn', 'corpus'))(req.get('seed', 0), req.get('n', 50))
    else:
        out = {"error": "unknown cmd"}
    json.dump(out, sys.stdout)


if __name__ == '__main__':
    main()
