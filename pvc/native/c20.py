"""native bounded stand-in for C20: random call histories on shared objects; every call's result must equal the same call
made first in a fresh state (fresh deep copies), and the shared objects must stay deeply unchanged"""
import copy, random, math
from . import procs
from .objs import builtin_mixtures, builtin_components


def snap(o, depth=0):
    import numpy
    if depth > 14: return '<deep>'
    if o is None or isinstance(o, (bool, str, int)): return o
    if isinstance(o, (float, numpy.floating)): return float(o).hex() if math.isfinite(float(o)) else repr(float(o))
    if isinstance(o, (list, tuple, numpy.ndarray)): return [snap(x, depth + 1) for x in o]
    # private attributes (caches) are not part of an object's value: what a cache does wrong shows as a RESULT that depends on the history
    if hasattr(o, '__attrs_attrs__'): return {a.name: snap(getattr(o, a.name), depth + 1) for a in o.__attrs_attrs__ if not a.name.startswith('_')}
    if hasattr(o, '__dict__'): return {k: snap(v, depth + 1) for k, v in vars(o).items() if not k.startswith('_')}
    if isinstance(o, dict): return {str(k): snap(v, depth + 1) for k, v in o.items()}
    return repr(type(o))


def world(case):
    from pyvaporation.mixtures import Composition
    from pyvaporation.permeance import Permeance
    from pyvaporation.optimizer.optimizer import Measurement, Measurements
    c = procs.sanitize(dict(builtin=case.get('builtin', 'H2O_EtOH'), func='ideal_isothermal_process', N=3, mode=case.get('mode', 'temperature'), comp_type='molar', curves=case.get('curves', 'one'), curve_type=case.get('curve_type', 'weight')))
    pv, mix, mem, dcs, cond, func, kw = procs.build(c)
    comps = [Composition(p, 'molar') for p in (0.0, 0.25, 0.6, 1.0)] + [Composition(0.3, 'weight')]
    perms = (Permeance(0.02), Permeance(1e-7, 'SI'))
    ms = Measurements([Measurement(x=0.1 + 0.15 * i, t=T, p=0.02 * math.exp(0.5 * i * 0.1)) for T in (313.15, 333.15) for i in range(3)])
    import attr as _attr
    mix2 = _attr.evolve(mix, first_component=_attr.evolve(mix.first_component, molecular_weight=mix.first_component.molecular_weight * 2.5))      # same name, other molar mass
    return dict(pv=pv, mix=mix, mem=mem, dcs=dcs, cond=cond, comps=comps, perms=perms, ms=ms, mix2=mix2)


def calls():
    from pyvaporation.optimizer import fit, find_best_fit, Measurements
    from pyvaporation.mixtures import get_partial_pressures
    def flux(model, i, T): return lambda w: w['pv'].calculate_partial_fluxes(T, w['comps'][i], 5e-5, w['cond'].permeate_temperature, w['cond'].permeate_pressure, calculation_type=model)
    L = []
    def flux_given(model, i, T, k): return lambda w: w['pv'].calculate_partial_fluxes(T, w['comps'][i], 5e-5, w['cond'].permeate_temperature, w['cond'].permeate_pressure,
                                                                                          Permeance(0.02 * k), Permeance(0.0003 * k), model)
    from pyvaporation.permeance import Permeance
    for model in ('NRTL', 'UNIQUAC'):
        for i in range(5):
            L.append(('flux %s comp%d' % (model, i), flux(model, i, 323.15 + 3 * i)))
        for k in (1.0, 3.0):          # same feed state, explicit permeances of different size
            L.append(('flux %s comp1 explicit permeances x%g' % (model, k), flux_given(model, 1, 323.15 + 3, k)))
        L.append(('pressures %s' % model, lambda w, model=model: [get_partial_pressures(330.0, w['mix'], c, model) for c in w['comps']]))
        L.append(('permeate composition %s' % model, lambda w, model=model: w['pv'].calculate_permeate_composition(333.15, w['comps'][1], 5e-5, w['cond'].permeate_temperature, w['cond'].permeate_pressure, model)))
        L.append(('ideal curve %s' % model, lambda w, model=model: w['pv'].ideal_diffusion_curve(333.15, w['comps'][1:4], w['cond'].permeate_temperature, w['cond'].permeate_pressure, 5e-5, model)))
    L.append(('separation factor', lambda w: w['pv'].calculate_separation_factor(333.15, w['comps'][2], w['cond'].permeate_temperature, w['cond'].permeate_pressure)))
    L.append(('convert', lambda w: [w['perms'][1].convert('kg/(m2*h*kPa)', w['mix'].first_component).value, w['perms'][0].convert('SI', w['mix'].second_component).value]))
    L.append(('conversions against a second mixture of the same name', lambda w: [w['comps'][4].to_molar(w['mix2']).p, w['comps'][1].to_weight(w['mix2']).p]))
    L.append(('convert without component', lambda w: _try(lambda: w['perms'][0].convert('SI').value)))
    L.append(('ideal isothermal', lambda w: w['pv'].ideal_isothermal_process(3, 0.2, w['cond'])))
    L.append(('ideal non-isothermal', lambda w: w['pv'].ideal_non_isothermal_process(w['cond'], 3, 0.2)))
    L.append(('non-ideal isothermal', lambda w: w['pv'].non_ideal_isothermal_process(w['cond'], w['dcs'], 3, 0.2, n_first=1, n_second=1, m_first=1, m_second=1, include_zero=True)))
    L.append(('non-ideal non-isothermal', lambda w: w['pv'].non_ideal_non_isothermal_process(w['cond'], w['dcs'], 3, 0.2, n_first=1, n_second=1, m_first=1, m_second=1)))
    L.append(('non-ideal curve', lambda w: w['pv'].non_ideal_diffusion_curve(w['dcs'], 333.15, w['comps'][1], 0.05, 3, n_first=1, n_second=1, m_first=1, m_second=1)))
    L.append(('fit zero', lambda w: fit(w['ms'], n=1, m=0, include_zero=True, component_index=1)))
    L.append(('find_best_fit zero', lambda w: find_best_fit(w['ms'], include_zero=True, component_index=0, n=1, m=0)))
    L.append(('measurements', lambda w: Measurements.from_diffusion_curves_first(w['dcs'])))
    L.append(('activation energy', lambda w: _try(lambda: w['mem'].calculate_activation_energy(w['mix'].first_component))))
    L.append(('permeance', lambda w: w['mem'].get_permeance(341.0, w['mix'].second_component).value))
    return L


def _try(f):
    try: return f()
    except (ValueError, KeyError) as e: return 'raised ' + type(e).__name__


def strip(o):
    s = snap(o)
    def drop(x):
        if isinstance(x, dict): return {k: drop(v) for k, v in x.items() if k not in ('comments',)}
        if isinstance(x, list): return [drop(v) for v in x]
        return x
    return drop(s)


def check(case):
    rng = random.Random(case.get('seed', 0))
    w = world(case); pristine = copy.deepcopy(w)
    base = strip({k: v for k, v in w.items()})
    builtins0 = strip([m for _, m in builtin_mixtures()] + [c for _, c in builtin_components()])
    L = calls()
    fails = []
    hist = []
    forced = list(case.get('force', []))
    byname = dict(L)
    for step in range(max(case.get('length', 6), len(forced))):
        name, f = (forced[step], byname[forced[step]]) if step < len(forced) else rng.choice(L)
        hist.append(name)
        try: got = strip(f(w))
        except (ValueError, KeyError) as e: got = 'raised ' + type(e).__name__
        now = strip({k: v for k, v in w.items()})
        if now != base:
            diff = [k for k in base if now[k] != base[k]]
            fails.append("after %s: shared argument objects modified (%s)" % (hist, diff)); break
        fresh = copy.deepcopy(pristine)
        try: want = strip(f(fresh))
        except (ValueError, KeyError) as e: want = 'raised ' + type(e).__name__
        if got != want:
            fails.append("call '%s' after history %s differs from the same call in a fresh state" % (name, hist[:-1])); break
    if case.get('fresh_interpreter') and not fails and hist:
        # module-level state survives copy.deepcopy of the argument objects: the reference for the LAST call of the history is computed
        # in a new interpreter (the property's own wording)
        import subprocess, sys, json, os
        one = dict(case, force=[hist[-1]], length=1, fresh_interpreter=False, print_result=True)
        p_ = subprocess.run([sys.executable, '-m', 'pvc.native.c20', json.dumps(one)], capture_output=True, text=True, timeout=300, env=dict(os.environ), cwd=os.path.dirname(os.path.dirname(os.path.dirname(os.path.abspath(__file__)))))
        if p_.returncode == 0 and p_.stdout.strip():
            want = json.loads(p_.stdout.strip().splitlines()[-1])
            if json.loads(json.dumps(got, default=str)) != want:
                fails.append("call '%s' after history %s differs from the same call made first in a fresh interpreter" % (hist[-1], hist[:-1]))
    if case.get('print_result'):
        import json
        print(json.dumps(got, default=str))
    if strip([m for _, m in builtin_mixtures()] + [c for _, c in builtin_components()]) != builtins0: fails.append("built-in mixtures/components modified by %s" % hist)
    return fails


def corpus(seed, n):
    rng = random.Random(seed)
    out = [dict(seed=seed * 1000 + i, length=rng.randint(2, 12) if i else 8, mode=rng.choice(['vacuum', 'temperature', 'pressure']), curves=rng.choice(['one', 'many']),
                curve_type='molar' if i % 3 == 2 else 'weight') for i in range(n)]
    # forced histories: every model that takes a curve set, twice, on a curve set given in mole fractions (and on one in mass fractions)
    forced = [dict(seed=seed * 1000 + 400, length=2, mode='temperature', curves='one', force=['flux NRTL comp1 explicit permeances x1', 'flux NRTL comp1 explicit permeances x3']),
              dict(seed=seed * 1000 + 401, length=4, mode='pressure', curves='one', force=['flux NRTL comp1', 'flux UNIQUAC comp1', 'flux UNIQUAC comp2', 'flux NRTL comp2'])]
    forced += [dict(seed=seed * 1000 + 402, length=2, mode='vacuum', curves='one', fresh_interpreter=True, force=['convert', 'convert without component']),
               dict(seed=seed * 1000 + 403, length=2, mode='vacuum', curves='one', fresh_interpreter=True, force=['pressures NRTL', 'conversions against a second mixture of the same name'])]
    for ct in ('molar', 'weight'):
        for curves in ('one', 'many'):
            for nm in ('non-ideal isothermal', 'non-ideal non-isothermal', 'non-ideal curve'):
                forced.append(dict(seed=seed * 1000 + 500 + len(forced), length=3, mode='vacuum', curves=curves, curve_type=ct, force=[nm, 'measurements', nm]))
    out += forced[:6 if n < 6 else 16]
    return out


if __name__ == '__main__':
    import sys, json, io, contextlib
    case_ = json.loads(sys.argv[1])
    buf = io.StringIO()
    check(case_)
