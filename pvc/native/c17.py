"""native bounded check for C17: save / load round trips of the real persistence code in temporary directories"""
import math, os, random, tempfile, shutil, hashlib
from pathlib import Path
from . import procs


def close(a, b, tol=1e-9):
    if a is None or b is None or (isinstance(a, float) and math.isnan(a)) or (isinstance(b, float) and math.isnan(b)):
        return (a is None or (isinstance(a, float) and math.isnan(a))) and (b is None or (isinstance(b, float) and math.isnan(b)))
    return abs(float(a) - float(b)) <= tol * max(abs(float(a)), abs(float(b)), 1e-300)


def tree_digest(root):
    out = {}
    for d, _, fs in os.walk(root):
        for f in fs:
            p = os.path.join(d, f); out[os.path.relpath(p, root)] = hashlib.md5(open(p, 'rb').read()).hexdigest()
    return out


def check(case):
    from pyvaporation.diffusion_curve import DiffusionCurve, DiffusionCurveSet
    from pyvaporation.optimizer import PervaporationFunction
    from pyvaporation.conditions import Conditions
    from pyvaporation.process import ProcessModel
    from pyvaporation.mixtures import Composition
    from pyvaporation.permeance import Permeance
    import pyvaporation.process.process as PM
    fails = []
    tmp = tempfile.mkdtemp(prefix='pvc_c17_')
    try:
        c = procs.sanitize(dict(case, sanitize=True))
        kind = case.get('kind', 'process')
        pv, mix, mem, dcs, cond, func, kw = procs.build(c)
        if kind == 'curve':
            T = cond.initial_feed_temperature
            xs = [Composition(x, 'weight') for x in (0.05, 0.3, 0.62)]
            if case.get('comp_type') == 'molar': xs = [x.to_molar(mix) for x in xs]
            scale = case.get('scale', 1.0)
            curve = pv.ideal_diffusion_curve(T, xs, cond.permeate_temperature, cond.permeate_pressure)
            if scale != 1.0:
                curve = DiffusionCurve(mixture=mix, membrane_name='m', feed_temperature=T, feed_compositions=xs, permeate_temperature=cond.permeate_temperature, permeate_pressure=cond.permeate_pressure,
                                       partial_fluxes=[(a * scale, b * scale) for a, b in curve.partial_fluxes], comments=None)
            p = Path(tmp) / 'curve.csv'
            curve.save(p)
            back = DiffusionCurveSet.load(p).diffusion_curves[0]
            if back.mixture is not mix and back.mixture != mix: fails.append("curve: mixture changed")
            if len(back) != len(curve): fails.append("curve: length %d -> %d" % (len(curve), len(back)))
            if not (close(back.feed_temperature, curve.feed_temperature) and close(back.permeate_temperature, curve.permeate_temperature) and close(back.permeate_pressure, curve.permeate_pressure)):
                fails.append("curve: temperatures / permeate condition changed: %r %r %r" % (back.feed_temperature, back.permeate_temperature, back.permeate_pressure))
            for i in range(min(len(back), len(curve))):
                want = curve.feed_compositions[i].to_weight(mix)
                if back.feed_compositions[i].type != 'weight' or not close(back.feed_compositions[i].p, want.p): fails.append("curve: composition %d re-loads as %r, expected mass fraction %r" % (i, back.feed_compositions[i], want.p))
                for j in (0, 1):
                    if not close(back.partial_fluxes[i][j], curve.partial_fluxes[i][j]): fails.append("curve: flux %d/%d" % (i, j))
                    if not close(back.permeances[i][j].value, curve.permeances[i][j].value) or back.permeances[i][j].units != curve.permeances[i][j].units: fails.append("curve: permeance %d/%d %r vs %r" % (i, j, back.permeances[i][j], curve.permeances[i][j]))
            return fails[:6]
        if kind == 'function':
            rng = random.Random(case.get('seed', 0))
            f = PervaporationFunction(n=2, m=1, alpha=10 ** rng.uniform(-9, 3), a=[rng.uniform(-3, 3), rng.uniform(-1e-9, 1e-9)], b=[rng.uniform(-5e3, 5e3), rng.uniform(-1e3, 1e3)])
            f.save(Path(tmp) / 'f.pv'); g = PervaporationFunction.load(Path(tmp) / 'f.pv')
            f.safe_save(Path(tmp) / 'f.json'); h = PervaporationFunction.safe_load(Path(tmp) / 'f.json')
            for nm, o in (('binary', g), ('json', h)):
                if o.n != f.n or o.m != f.m or not close(o.alpha, f.alpha) or len(o.a) != len(f.a) or len(o.b) != len(f.b) or not all(close(x, y) for x, y in zip(list(o.a) + list(o.b), list(f.a) + list(f.b))):
                    fails.append("permeance function (%s) does not load back unchanged: %r vs %r" % (nm, o, f))
            cond.safe_save(Path(tmp) / 'c.json'); c2 = Conditions.safe_load(Path(tmp) / 'c.json')
            for nm in ('membrane_area', 'initial_feed_temperature', 'initial_feed_amount', 'permeate_temperature', 'permeate_pressure'):
                if not close(getattr(c2, nm), getattr(cond, nm)): fails.append("conditions.%s: %r -> %r" % (nm, getattr(cond, nm), getattr(c2, nm)))
            if c2.initial_feed_composition != cond.initial_feed_composition: fails.append("conditions: composition %r -> %r" % (cond.initial_feed_composition, c2.initial_feed_composition))
            return fails[:6]
        # process model
        try:
            model = getattr(pv, func)(**kw)
        except ValueError:
            return []
        mdir = Path(tmp) / 'membrane'
        mdir.mkdir()
        old = ProcessModel._generate_process_path.__func__ if hasattr(ProcessModel._generate_process_path, '__func__') else ProcessModel._generate_process_path
        for safe in (False, True):
            before = tree_digest(mdir)
            for attempt in range(6):          # the real code names the directory by a 4-character clock hash: an accidental collision raises (by design)
                try:
                    model.save(mdir, is_safe=safe); break
                except FileExistsError:
                    if tree_digest(mdir) != before: fails.append("a colliding save modified the existing directory")
                    import time as _t; _t.sleep(0.01)
            after = tree_digest(mdir)
            for k, v in before.items():
                if after.get(k) != v: fails.append("saving a process altered a previously saved file %s" % k)
            new_dirs = sorted({k.split(os.sep)[1] for k in after if k not in before and k.startswith('results' + os.sep)})
            if len(new_dirs) != 1: fails.append("a save created %d new process directories" % len(new_dirs)); continue
            back = ProcessModel.load(mdir / 'results' / new_dirs[0], is_safe=safe)
            n = len(model.time)
            for nm in ('time', 'feed_mass', 'feed_temperature', 'feed_evaporation_heat', 'permeate_condensation_heat'):
                a, b = list(getattr(model, nm)), list(getattr(back, nm))
                if len(a) != len(b): fails.append("process(%s): len(%s) %d -> %d" % (safe, nm, len(a), len(b))); continue
                for i, (u, v) in enumerate(zip(a, b)):
                    if not close(u, v): fails.append("process(%s): %s[%d] %r -> %r" % (safe, nm, i, u, v)); break
            if back.mixture.name != model.mixture.name: fails.append("process: mixture")
            for i in range(n):
                if back.feed_compositions[i].type != 'weight' or not close(back.feed_compositions[i].p, model.feed_compositions[i].p): fails.append("process(%s): feed composition %d" % (safe, i)); break
                if not close(back.permeate_composition[i].p, model.permeate_composition[i].p): fails.append("process(%s): permeate composition %d" % (safe, i)); break
                for j in (0, 1):
                    if not close(back.partial_fluxes[i][j], model.partial_fluxes[i][j]): fails.append("process(%s): flux %d/%d" % (safe, i, j)); break
                    if not close(back.permeances[i][j].value, model.permeances[i][j].value) or back.permeances[i][j].units != model.permeances[i][j].units: fails.append("process(%s): permeance %d/%d" % (safe, i, j)); break
            pt = back.permeate_temperature; ppv = back.permeate_pressure
            if not close(pt, model.permeate_temperature[0]) or not close(ppv, model.permeate_pressure[0]): fails.append("process(%s): permeate condition %r/%r vs %r/%r" % (safe, pt, ppv, model.permeate_temperature[0], model.permeate_pressure[0]))
            ic = back.initial_conditions
            if ic is None or not close(ic.initial_feed_amount, cond.initial_feed_amount) or not close(ic.membrane_area, cond.membrane_area): fails.append("process(%s): initial conditions" % safe)
            if model.permeance_fits is not None and back.permeance_fits is not None:
                for u, v in zip(model.permeance_fits, back.permeance_fits):
                    if not close(u.alpha, v.alpha) or not all(close(x, y) for x, y in zip(list(u.a) + list(u.b), list(v.a) + list(v.b))): fails.append("process(%s): permeance fits" % safe)
        # forced directory-name collision: a second save with the same generated name must not write into the existing directory
        import datetime as _dt
        class FixedNow(_dt.datetime):
            @classmethod
            def now(cls, tz=None): return _dt.datetime(2020, 1, 1, 12, 0, 0)
        saved_dt = PM.datetime
        PM.datetime = FixedNow
        try:
            model.save(mdir)
            before = tree_digest(mdir)
            try:
                import attr as _attr
                other = _attr.evolve(model, feed_mass=[m * 1.5 + 0.25 for m in model.feed_mass], feed_temperature=[t + 1.0 for t in model.feed_temperature], comments='second model')
                other.save(mdir)
                after = tree_digest(mdir)
                for k, v in before.items():
                    if after.get(k) != v: fails.append("name collision: a second save overwrote %s of an existing process directory" % k)
            except FileExistsError:
                after = tree_digest(mdir)
                if after != before: fails.append("name collision: the failed save modified the existing directory")
        finally:
            PM.datetime = saved_dt
        return fails[:8]
    finally:
        shutil.rmtree(tmp, ignore_errors=True)


def corpus(seed, n):
    rng = random.Random(seed); out = []
    for ct in ('weight', 'molar'):
        for mode in ('vacuum', 'temperature', 'pressure'):
            out.append(dict(kind='curve', comp_type=ct, mode=mode, builtin=rng.choice(['H2O_EtOH', 'H2O_MeOH']), scale=rng.choice([1.0, 1e-9, 1e3])))
    out.append(dict(kind='function', seed=seed)); out.append(dict(kind='function', seed=seed + 1, mode='temperature'))
    for c in procs.corpus(seed, 8 if n <= 60 else 32): out.append(dict(c, kind='process', N=3))
    return out
