"""native checker for C12 (real Membrane.get_permeance / calculate_activation_energy / selectivity / pure flux)"""
import random, math
from .objs import builtin_components
R = 8.314462


def _membrane(case):
    from pyvaporation.membrane import Membrane
    from pyvaporation.experiments import IdealExperiment, IdealExperiments
    from pyvaporation.permeance import Permeance
    comps = dict(builtin_components())
    exps = []
    for cname in case['components']:
        c = comps[cname]
        for i, (T, P, Ea) in enumerate(case['experiments'][cname]):
            exps.append(IdealExperiment(name="e%d" % i, temperature=T, component=c, permeance=Permeance(value=P, units=case.get('units', 'kg/(m2*h*kPa)')).convert('kg/(m2*h*kPa)', c) if case.get('convert_first') else Permeance(value=P, units=case.get('units', 'kg/(m2*h*kPa)')), activation_energy=Ea))
    rng = random.Random(case.get('shuffle', 0)); rng.shuffle(exps)
    return Membrane(name='m', ideal_experiments=IdealExperiments(experiments=exps)), comps


def check(case):
    from pyvaporation.permeance import Permeance
    fails = []
    mem, comps = _membrane(case)
    units = case.get('units', 'kg/(m2*h*kPa)')
    for cname in case['components']:
        c = comps[cname]
        ex = case['experiments'][cname]
        fkg = {'kg/(m2*h*kPa)': 1.0, 'SI': 3600 * c.molecular_weight, 'GPU': 3.35e-10 * 3600 * c.molecular_weight}[units]
        stated = ex[0][2] is not None
        if not stated and len(ex) < 2:
            try:
                mem.get_permeance(ex[0][0] + 7.0, c); fails.append("one experiment without Ea accepted")
            except ValueError: pass
            continue
        if not stated:
            xs = [1 / e[0] for e in ex]; ys = [math.log(e[1]) for e in ex]
            n = len(xs); mx, my = sum(xs) / n, sum(ys) / n
            slope = sum((x - mx) * (y - my) for x, y in zip(xs, ys)) / sum((x - mx) ** 2 for x in xs)
            ea_want = -slope * R
            ea = mem.calculate_activation_energy(c)
            if abs(ea - ea_want) > 1e-6 * max(1.0, abs(ea_want)): fails.append("regressed Ea %r, least squares of ln P vs 1/T gives %r" % (ea, ea_want))
            if 'line_Ea' in case and abs(ea - case['line_Ea']) > 1e-5 * max(1.0, abs(case['line_Ea'])): fails.append("Arrhenius-line data: Ea %r not recovered (%r)" % (case['line_Ea'], ea))
        for Tq in case['queries']:
            d = [abs(e[0] - Tq) for e in ex]
            i = d.index(min(d))
            if sorted(d)[0] == sorted(d)[1 if len(d) > 1 else 0] and len(d) > 1: continue      # exact tie: excluded by the property
            Te, Pe, Ea = ex[i]
            got = mem.get_permeance(Tq, c)
            if got.units != 'kg/(m2*h*kPa)': fails.append("units %r" % got.units)
            if Te == Tq: want = Pe * fkg
            else:
                e_ = Ea if stated else mem.calculate_activation_energy(c)
                want = Pe * fkg * math.exp(-e_ / R * (1 / Tq - 1 / Te))
            if abs(got.value - want) > 1e-9 * max(abs(want), 1e-300): fails.append("get_permeance(%r): %r, Arrhenius law of the nearest experiment gives %r" % (Tq, got.value, want))
            if 'line_Ea' in case:
                law = math.exp(case['line_c0'] - case['line_Ea'] / (R * Tq)) * fkg
                if abs(got.value - law) > 1e-6 * law: fails.append("Arrhenius-line data: permeance at %r is %r, the line gives %r" % (Tq, got.value, law))
    if len(case['components']) == 2:
        a, b = [comps[n] for n in case['components']]
        Tq = case['queries'][0]
        try:
            sw = mem.get_ideal_selectivity(Tq, a, b, 'weight'); sm = mem.get_ideal_selectivity(Tq, a, b, 'molar')
            if abs(sm - sw * b.molecular_weight / a.molecular_weight) > 1e-9 * abs(sm): fails.append("molar selectivity %r != weight %r * M2/M1" % (sm, sw))
        except (ValueError, ZeroDivisionError): pass       # a zero permeance in the denominator is a legitimate error exit
    c = comps[case['components'][0]]
    if case['experiments'][case['components'][0]][0][2] is not None or len(case['experiments'][case['components'][0]]) > 1:
        Tq = case['queries'][0]; P = mem.get_permeance(Tq, c).value
        for kw, side in (({}, 0.0), (dict(permeate_temperature=Tq - 40), c.get_vapor_pressure(Tq - 40)), (dict(permeate_pressure=0.7), 0.7)):
            f = mem.get_estimated_pure_component_flux(Tq, c, **kw)
            if abs(f - P * (c.get_vapor_pressure(Tq) - side)) > 1e-9 * abs(f) + 1e-300: fails.append("pure flux %r with %r" % (f, kw))
        try:
            mem.get_estimated_pure_component_flux(Tq, c, permeate_temperature=300.0, permeate_pressure=1.0); fails.append("both permeate conditions accepted by pure flux")
        except ValueError: pass
    return fails


def corpus(seed, n):
    rng = random.Random(seed); out = []
    names = [k for k, _ in builtin_components()]
    while len(out) < n:
        cs = rng.sample(names, 2)
        stated = rng.random() < 0.5
        line = (not stated) and rng.random() < 0.5
        exps = {}
        Ea0, c0 = rng.uniform(-60e3, 120e3), rng.uniform(-10, 5)
        for c in cs:
            k = rng.randint(1 if stated else 2, 6)
            Ts = rng.sample([273.0 + 2.5 * i for i in range(50)], k)
            if line: exps[c] = [(T, math.exp(c0 - Ea0 / (R * T)), None) for T in Ts]
            else: exps[c] = [(T, 10 ** rng.uniform(-6, 0), rng.uniform(-60e3, 120e3) if stated else None) for T in Ts]
        if stated and rng.random() < 0.35:
            for c in cs: exps[c] = [(T, P, 0.0) for (T, P, Ea) in exps[c]]          # a stated activation energy of exactly 0 is a stated one
        case = dict(components=cs, experiments=exps, units=rng.choice(['kg/(m2*h*kPa)', 'SI', 'GPU']) if not line else 'kg/(m2*h*kPa)', shuffle=rng.randint(0, 99),
                    queries=[rng.uniform(260, 420) for _ in range(3)] + [exps[cs[0]][0][0]])
        if line: case.update(line_Ea=Ea0, line_c0=c0)
        out.append(case)
    return out
