"""native checker for C14 (real Permeance.convert)"""
import random
from .objs import component, builtin_components
U = ['kg/(m2*h*kPa)', 'SI', 'GPU']


def check(case):
    from pyvaporation.permeance import Permeance
    fails = []
    M = case.get('M', 46.0)
    if M <= 0: return fails
    c = dict(builtin_components())[case['builtin']] if 'builtin' in case else component(dict(M1=M), '1')
    M = c.molecular_weight
    f = {'kg/(m2*h*kPa)': 1 / (3600 * M), 'SI': 1.0, 'GPU': 3.35e-10}
    v, v2, k = max(case['v'], 0.0), max(case.get('v2', 1.0), 0.0), max(case.get('k', 2.0), 0.0)
    cl = lambda a, b: abs(a - b) <= 1e-9 * max(abs(a), abs(b)) + 1e-300
    if Permeance(value=-abs(case['v']) - 1).value < 0: fails.append("negative permeance value stored")
    for a in U:
        p = Permeance(value=v, units=a)
        if p.convert(a, c) is not p: fails.append("%s->%s is not the identity object" % (a, a))
        for b in U:
            if a == b: continue
            q = p.convert(b, c)
            if q.units != b: fails.append("units after %s->%s: %r" % (a, b, q.units))
            if not cl(q.value, v * f[a] / f[b]): fails.append("%s->%s: %r, expected %r" % (a, b, q.value, v * f[a] / f[b]))
            if not cl(q.convert(a, c).value, v): fails.append("%s->%s->%s: %r != %r" % (a, b, a, q.convert(a, c).value, v))
            lin = Permeance(value=k * v + v2, units=a).convert(b, c).value
            if not cl(lin, k * q.value + Permeance(value=v2, units=a).convert(b, c).value): fails.append("%s->%s not linear" % (a, b))
            for d in U:
                if d in (a, b): continue
                if not cl(q.convert(d, c).value, p.convert(d, c).value): fails.append("%s->%s->%s differs from %s->%s" % (a, b, d, a, d))
            if 'kg/(m2*h*kPa)' in (a, b):
                try:
                    r = p.convert(b, None); fails.append("%s->%s without component returned %r" % (a, b, r))
                except (ValueError, KeyError):
                    pass
        for bad in ('furlong',):
            for x, y in ((a, bad), (bad, a)):
                try:
                    r = Permeance(value=v, units=x).convert(y, c); fails.append("%s->%s returned %r" % (x, y, r))
                except (ValueError, KeyError):
                    pass
    return fails


def corpus(seed, n):
    rng = random.Random(seed); out = []
    for name, _ in builtin_components(): out.append(dict(builtin=name, v=10 ** rng.uniform(-12, 6), v2=rng.random(), k=rng.random() * 5))
    out.append(dict(v=0.0, M=18.0))
    while len(out) < n: out.append(dict(v=10 ** rng.uniform(-12, 6), v2=10 ** rng.uniform(-6, 3), k=rng.uniform(0, 10), M=10 ** rng.uniform(0.5, 3)))
    return out
