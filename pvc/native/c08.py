"""native checker for C08: all entry points agree (real code)"""
import random
from . import procs
from .objs import builtin_mixtures


def close(a, b, tol=1e-9): return abs(a - b) <= tol * max(abs(a), abs(b), 1e-300)


def check(case):
    from pyvaporation.mixtures import Composition
    fails = []
    model = case.get('model', 'NRTL'); mode = case.get('mode', 'vacuum')
    c = procs.sanitize(dict(builtin=case.get('builtin', 'H2O_EtOH'), mode=mode, model=model, func='ideal_isothermal_process', N=3, **{k: v for k, v in case.get('env', {}).items() if k in ('T0', 'x0', 'Tp', 'pp', 'A', 'm0', 'dt')}))
    c['prec'] = 5e-5
    if case.get('exp_units'): c['exp_units'] = case['exp_units']; c['T0'] = c.get('Texp', 323.15); c['Texp'] = c['T0']
    pv, mix, mem, dcs, cond, func, kw = procs.build(c)
    T = cond.initial_feed_temperature; Tp, pp = cond.permeate_temperature, cond.permeate_pressure
    xw = cond.initial_feed_composition.to_weight(mix)
    for comp in ((xw, xw.to_molar(mix)) if case.get('typ', 'weight') == 'weight' else (xw.to_molar(mix), xw)):
        J = pv.calculate_partial_fluxes(T, comp, 5e-5, Tp, pp, calculation_type=model)
        y = J[0] / (J[0] + J[1])
        pc = pv.calculate_permeate_composition(T, comp, 5e-5, Tp, pp, calculation_type=model)
        if not close(pc.p, y) or pc.type != 'weight': fails.append("calculate_permeate_composition(%s, %s) = %r, standalone fluxes give %r" % (model, comp.type, pc.p, y))
        sf = pv.calculate_separation_factor(T, comp, Tp, pp, 5e-5, model)
        want = (y / (1 - y)) / (xw.p / (1 - xw.p))
        if not close(sf, want, 1e-8): fails.append("calculate_separation_factor(%s, %s feed) = %r, (y1/y2)/(x1/x2) in mass fractions = %r" % (model, comp.type, sf, want))
        curve = pv.ideal_diffusion_curve(T, [comp], Tp, pp, 5e-5, model)
        if not (close(curve.partial_fluxes[0][0], J[0]) and close(curve.partial_fluxes[0][1], J[1])): fails.append("one-point ideal curve (%s) %r differs from standalone %r" % (model, curve.partial_fluxes[0], J))
        if not close(curve.permeate_composition[0].p, y): fails.append("curve permeate composition")
        if not close(curve.get_separation_factor[0], want, 1e-8): fails.append("curve separation factor (%s feed) %r vs %r" % (comp.type, curve.get_separation_factor[0], want))
    # NRTL and UNIQUAC must differ for a non-ideal mixture unless the models coincide
    J = pv.calculate_partial_fluxes(T, xw, 5e-5, Tp, pp, calculation_type=model)
    for f in procs.FUNCS:
        cc = dict(c, func=f)
        try:
            m, pv2, mix2, mem2, dcs2, cond2, kw2 = procs.run(cc)
        except ValueError:
            continue
        for k in range(len(m.partial_fluxes)):
            P = m.permeances[k]
            Jk = pv2.calculate_partial_fluxes(m.feed_temperature[k], m.feed_compositions[k], 5e-5, Tp, pp, P[0], P[1], model)
            if not (close(Jk[0], m.partial_fluxes[k][0], 1e-8) and close(Jk[1], m.partial_fluxes[k][1], 1e-8)):
                fails.append("%s step %d: fluxes %r differ from the standalone calculation at the reported state %r" % (f, k, m.partial_fluxes[k], Jk)); break
            yk = m.partial_fluxes[k][0] / sum(m.partial_fluxes[k])
            if not close(m.permeate_composition[k].p, yk): fails.append("%s step %d: permeate composition" % (f, k)); break
        if f.startswith('ideal'):
            if not (close(m.partial_fluxes[0][0], J[0], 1e-8) and close(m.partial_fluxes[0][1], J[1], 1e-8)): fails.append("%s step 0 %r differs from the standalone call %r" % (f, m.partial_fluxes[0], J))
        sfs = m.get_separation_factor
        for k in range(len(sfs)):
            y, x = m.permeate_composition[k].p, m.feed_compositions[k].p
            if not close(sfs[k], (y / (1 - y)) / (x / (1 - x)), 1e-9): fails.append("process separation factor"); break
    return fails[:8]


def corpus(seed, n):
    rng = random.Random(seed); out = []
    for model in ('NRTL', 'UNIQUAC'):
        for mode in ('vacuum', 'temperature', 'pressure'):
            out.append(dict(model=model, mode=mode, typ=rng.choice(['weight', 'molar']), builtin=rng.choice(['H2O_EtOH', 'H2O_MeOH']), env=dict(T0=rng.uniform(310, 360), x0=rng.uniform(0.1, 0.5))))
    out = out[:max(2, min(n, 6))]
    out.append(dict(model='NRTL', mode='vacuum', typ='weight', builtin='H2O_EtOH', env={}, exp_units='SI'))
    out.append(dict(model='UNIQUAC', mode='temperature', typ='weight', builtin='H2O_EtOH', env={}, exp_units='GPU'))
    return out
