"""native checker for C15 (real Composition)"""
import random
from .objs import mixture, builtin_mixtures


def check(case):
    try:
        return _check(case)
    except ValueError as e:
        return ["a conversion raised for an admissible composition: %s (case %r)" % (e, case)]


def _check(case):
    from pyvaporation.mixtures import Composition
    fails = []
    if 'builtin' in case: mix = dict(builtin_mixtures())[case['builtin']]
    else: mix = mixture(dict(M1=case['M1'], M2=case['M2']))
    M1, M2 = mix.first_component.molecular_weight, mix.second_component.molecular_weight
    p, p2 = case['p'], case.get('p2', 0.5)
    for bad in (-1e-9, 1 + 1e-9, -3.0, 7.0):
        try:
            Composition(p=bad, type='weight'); fails.append("Composition(p=%r) accepted" % bad)
        except ValueError:
            pass
    if not (0 <= p <= 1) or not (0 <= p2 <= 1) or M1 <= 0 or M2 <= 0: return fails
    tol = 1e-9
    for a, b, t in (('to_molar', 'to_weight', 'weight'), ('to_weight', 'to_molar', 'molar')):
        c = Composition(p=p, type=t)
        y = getattr(c, a)(mix)
        back = getattr(y, b)(mix)
        if abs(back.p - p) > tol: fails.append("%s->%s round trip: %r -> %r -> %r" % (a, b, p, y.p, back.p))
        if back.type != t: fails.append("round trip type %r" % back.type)
        if abs(y.first + y.second - 1) > 1e-12: fails.append("first+second != 1")
        if getattr(c, b)(mix) is not c: fails.append("%s on own type is not the identity" % b)
        for v in (0.0, 1.0):
            if getattr(Composition(p=v, type=t), a)(mix).p != v: fails.append("%s does not fix %r" % (a, v))
        lo, hi = sorted((p, p2))
        if lo < hi and not getattr(Composition(p=lo, type=t), a)(mix).p < getattr(Composition(p=hi, type=t), a)(mix).p:
            if hi - lo > 1e-9: fails.append("%s not strictly increasing on %r < %r" % (a, lo, hi))
        if 1e-6 < p < 1 - 1e-6:           # the ratio is ill-conditioned within rounding of the end points
            ratio = (y.p / (1 - y.p)) / (p / (1 - p))
            want = M2 / M1 if a == 'to_molar' else M1 / M2
            if abs(ratio - want) > 1e-7 * want: fails.append("%s ratio law: %r vs %r" % (a, ratio, want))
    return fails


def corpus(seed, n):
    rng = random.Random(seed); out = []
    for name, _ in builtin_mixtures():
        for p in (0.0, 1e-12, 0.3, 1 - 1e-12, 1.0): out.append(dict(builtin=name, p=p, p2=rng.random()))
    while len(out) < n:
        M1 = 10 ** rng.uniform(0.5, 2.5); out.append(dict(p=rng.random(), p2=rng.random(), M1=M1, M2=M1 * 10 ** rng.uniform(-3, 3)))
    return out
