"""Replay of refuted obligations against the real code (DESIGN 2.9).

    python3-vt -m pvc.replay <replay file>     re-runs the stored failing input natively and prints the failures

write_replay(): called by pvc.check for every refuted obligation.  The property module maps the solver's model to a
concrete case (`replay_case(result)`), the native checker of the property (pvc/native/cXX.py, real PyVaporation under
/venv/bin/python) decides whether the case violates the property; if not, the native corpus of the property is tried.
If nothing fails natively the file still records obligation + solver output and the VIOLATION line ends with
`no-failing-input-found`.
"""
import os, json, sys, importlib, time
from .nativeio import native, HERE
from .source import Unsupported


_CORPUS = {}


def _clean(x):
    if isinstance(x, dict): return {str(k): _clean(v) for k, v in x.items() if not isinstance(k, tuple)}
    if isinstance(x, (list, tuple)): return [_clean(v) for v in x]
    if isinstance(x, (int, float, str, bool)) or x is None: return x
    return str(x)


def write_replay(prop, r, src, cx):
    d = os.path.join(HERE, 'replays', prop)
    os.makedirs(d, exist_ok=True)
    safe = "".join(c if c.isalnum() or c in '._-' else '_' for c in r['name'])[:120]
    path = os.path.join(d, safe + '.json')
    doc = dict(property=prop, obligation=r['name'], function=r.get('meta', {}).get('function'),
               statement=r.get('meta', {}).get('statement'), repo=src.repo,
               solver=dict(backend=r.get('backend'), status=r['status'], detail=r.get('detail'), time=r.get('time')),
               model=_clean(r.get('model')), model_callee_results=_clean(r.get('model_apps')),
               failing_input=None, native_failures=None, command=None)
    if r.get('native_case') is not None:          # violation found natively by a bounded stand-in
        doc['failing_input'] = r['native_case']; doc['native_failures'] = r.get('native_failures')
        r['replayed'] = True
    else:
        try:
            mod = importlib.import_module('pvc.props.' + prop.lower())
            cases = []
            if hasattr(mod, 'replay_case'):
                c = mod.replay_case(r)
                if c is not None: cases.extend(c if isinstance(c, list) else [c])
            tried = 0
            if cases:
                out = native(dict(cmd='check', prop=prop, cases=cases))
                tried += len(cases)
                for c, fails in zip(cases, out):
                    if fails and not any(str(f).startswith('CHECKER-EXCEPTION') for f in fails):
                        doc['failing_input'] = c; doc['native_failures'] = fails; doc['source'] = 'solver model'
                        break
            if doc['failing_input'] is None and _has_native(prop):
                if prop not in _CORPUS:          # one native corpus run per check run
                    corpus = native(dict(cmd='corpus', prop=prop, seed=getattr(cx, 'seed', 0), n=60 if cx.tier == 'quick' else 400))
                    out = native(dict(cmd='check', prop=prop, cases=corpus))
                    hit = None
                    for c, fails in zip(corpus, out):
                        if fails and not any(str(f).startswith('CHECKER-EXCEPTION') for f in fails):
                            hit = (c, fails); break
                    _CORPUS[prop] = (len(corpus), hit)
                n_, hit = _CORPUS[prop]
                tried += n_
                if hit is not None:
                    doc['failing_input'], doc['native_failures'] = hit; doc['source'] = 'native corpus'
            doc['native_cases_tried'] = tried
            r['replayed'] = doc['failing_input'] is not None
        except Exception as x:
            doc['replay_error'] = "%s: %s" % (type(x).__name__, x)
            r['replayed'] = False
    if doc['failing_input'] is not None:
        doc['command'] = "python3-vt -m pvc.replay %s" % os.path.relpath(path, HERE)
    else:
        doc['note'] = "no-failing-input-found: the obligation is refuted by the solver (model above) but no concrete input reproduced it natively"
    with open(path, 'w') as f: json.dump(doc, f, indent=1, default=str)
    return os.path.relpath(path, HERE)


def _has_native(prop):
    return os.path.exists(os.path.join(HERE, 'pvc', 'native', prop.lower() + '.py'))


def main(argv=None):
    argv = argv or sys.argv[1:]
    if not argv:
        print(__doc__); return 2
    p = argv[0]
    if not os.path.isabs(p): p = os.path.join(HERE, p)
    doc = json.load(open(p))
    print("replay %s obligation=%s" % (doc['property'], doc['obligation']))
    if doc.get('failing_input') is None:
        print("no concrete failing input stored (no-failing-input-found); solver output:")
        print(json.dumps(doc.get('solver'), indent=1)); print(json.dumps(doc.get('model'), indent=1))
        return 0
    out = native(dict(cmd='check', prop=doc['property'], cases=[doc['failing_input']]))
    print("input:", json.dumps(doc['failing_input']))
    if out[0]:
        for f in out[0]: print("FAIL:", f)
        return 1
    print("the stored input does not fail on the current tree")
    return 0


if __name__ == '__main__':
    sys.exit(main())
