"""Replay of refuted obligations against the real code (DESIGN 2.9).

    python3-vt -m pvc.replay <replay file>     re-runs the stored failing input natively and prints the failures

write_replay(): called by pvc.check for every refuted obligation.  The property module maps the solver's model to a
concrete case (`replay_case(result)`), the native checker of the property (pvc/native/cXX.py, real PyVaporation under
/venv/bin/python) decides whether the case violates the property; if not, the native corpus of the property is tried.
If nothing fails natively the file still records obligation + solver output and the VIOLATION line ends with
`no-failing-input-found`.
"""
import os, json, sys, importlib, time
from .nativeio import native, HERE
from .source import Unsupported


_CORPUS = {}


def _clean(x):
    if isinstance(x, dict): return {str(k): _clean(v) for k, v in x.items() if not isinstance(k, tuple)}
    if isinstance(x, (list, tuple)): return [_clean(v) for v in x]
    if isinstance(x, (int, float, str, bool)) or x is None: return x
    return str(x)


def write_replays(prop, refuted, src, cx):
    """one native interpreter run for the model-derived cases of all refuted obligations, one for the corpus fallback"""
    mod = None
    try: mod = importlib.import_module('pvc.props.' + prop.lower())
    except Exception: pass
    cases = {}      # index of r -> list of cases
    err = {}
    for i, r in enumerate(refuted):
        if r.get('native_case') is not None or mod is None or not hasattr(mod, 'replay_case'): continue
        try:
            c = mod.replay_case(r)
            if c is not None: cases[i] = c if isinstance(c, list) else [c]
        except Exception as x:
            err[i] = "%s: %s" % (type(x).__name__, x)
    flat = [(i, c) for i, cs in cases.items() for c in cs]
    outs = {}
    if flat:
        # distinct cases only, at most 24 native runs per check (expensive models); obligations with equal cases share the result
        key = lambda c: json.dumps(c, sort_keys=True, default=str)
        uniq = {}
        for i, c in flat:
            if key(c) not in uniq and len(uniq) < 24: uniq[key(c)] = c
        try:
            ks = list(uniq)
            out = native(dict(cmd='check', prop=prop, cases=[uniq[k] for k in ks]), timeout=3600)
            res = dict(zip(ks, out))
            for (i, c) in flat:
                fails = res.get(key(c))
                if fails:
                    from .check import split_known_native
                    fails, _k = split_known_native(prop, fails)
                if fails and not any(str(f).startswith('CHECKER-EXCEPTION') for f in fails) and i not in outs: outs[i] = (c, fails)
        except Exception as x:
            for i in cases: err[i] = "%s: %s" % (type(x).__name__, x)
    paths = []
    for i, r in enumerate(refuted):
        paths.append(_write_one(prop, r, src, cx, outs.get(i), len(cases.get(i, [])), err.get(i)))
    return paths


def _write_one(prop, r, src, cx, hit, tried, error):
    d = os.path.join(HERE, 'replays', prop)
    os.makedirs(d, exist_ok=True)
    safe = "".join(c if c.isalnum() or c in '._-' else '_' for c in r['name'])[:120]
    path = os.path.join(d, safe + '.json')
    doc = dict(property=prop, obligation=r['name'], function=r.get('meta', {}).get('function'),
               statement=r.get('meta', {}).get('statement'), repo=src.repo,
               solver=dict(backend=r.get('backend'), status=r['status'], detail=r.get('detail'), time=r.get('time')),
               model=_clean(r.get('model')), model_callee_results=_clean(r.get('model_apps')),
               failing_input=None, native_failures=None, command=None)
    if error: doc['replay_error'] = error
    if r.get('native_case') is not None:          # violation found natively by a bounded stand-in
        doc['failing_input'] = r['native_case']; doc['native_failures'] = r.get('native_failures'); doc['source'] = 'native search'
        if r.get('native_prop'): doc['native_prop'] = r['native_prop']
    elif hit is not None:
        doc['failing_input'], doc['native_failures'] = hit; doc['source'] = 'solver model'
    elif _has_native(prop) or r.get('meta', {}).get('kind') == 'frame' or r.get('meta', {}).get('history'):
        try:
            # a failed frame obligation (write to state that outlives the call) is replayed by the history checker of C20: call
            # sequences on shared objects compared with fresh-state executions
            np_ = 'C20' if (r.get('meta', {}).get('kind') == 'frame' or r.get('meta', {}).get('history')) else prop
            key_ = prop if np_ == prop else prop + '/frame'
            if key_ not in _CORPUS:          # one native corpus run per check run
                corpus = native(dict(cmd='corpus', prop=np_, seed=getattr(cx, 'seed', 0), n=(60 if cx.tier == 'quick' else 400) if np_ == prop else 12))
                out = native(dict(cmd='check', prop=np_, cases=corpus), timeout=3600)
                h = None
                from .check import split_known_native
                for c, fails in zip(corpus, out):
                    fails, _k = split_known_native(np_, fails)
                    if fails and not any(str(f).startswith('CHECKER-EXCEPTION') for f in fails):
                        h = (c, fails); break
                _CORPUS[key_] = (len(corpus), h)
            n_, h = _CORPUS[key_]
            tried += n_
            if h is not None:
                doc['failing_input'], doc['native_failures'] = h; doc['source'] = 'native corpus' if np_ == prop else 'native history replay (checker of C20)'
                if np_ != prop: doc['native_prop'] = np_
        except Exception as x:
            doc['replay_error'] = "%s: %s" % (type(x).__name__, x)
    doc['native_cases_tried'] = tried
    r['replayed'] = doc['failing_input'] is not None
    if doc['failing_input'] is not None:
        doc['command'] = "python3-vt -m pvc.replay %s" % os.path.relpath(path, HERE)
    else:
        doc['note'] = "no-failing-input-found: the obligation is refuted by the solver (model above) but no concrete input reproduced it natively"
    with open(path, 'w') as f: json.dump(doc, f, indent=1, default=str)
    return os.path.relpath(path, HERE)


def _has_native(prop):
    return os.path.exists(os.path.join(HERE, 'pvc', 'native', prop.lower() + '.py'))


def main(argv=None):
    argv = argv or sys.argv[1:]
    if not argv:
        print(__doc__); return 2
    p = argv[0]
    if not os.path.isabs(p): p = os.path.join(HERE, p)
    doc = json.load(open(p))
    print("replay %s obligation=%s" % (doc['property'], doc['obligation']))
    if doc.get('failing_input') is None:
        print("no concrete failing input stored (no-failing-input-found); solver output:")
        print(json.dumps(doc.get('solver'), indent=1)); print(json.dumps(doc.get('model'), indent=1))
        return 0
    out = native(dict(cmd='check', prop=doc.get('native_prop', doc['property']), cases=[doc['failing_input']]))
    print("input:", json.dumps(doc['failing_input']))
    if out[0]:
        for f in out[0]: print("FAIL:", f)
        return 1
    print("the stored input does not fail on the current tree")
    return 0


if __name__ == '__main__':
    sys.exit(main())
