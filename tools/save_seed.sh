#!/bin/bash
# save_seed.sh <cNN> <suffix> : copies /tmp/wt3_<cNN>/{seeded.patch,demo_seeded.py} to seeded/<ID>-<suffix>/ and runs the target check against the worktree
p=$1; sfx=$2; wt=${3:-/tmp/wt3_$p}; P=${p^^}; d=/verif/seeded/$P-$sfx
mkdir -p $d; cp $wt/seeded.patch $d/patch.diff; cp $wt/demo_seeded.py $d/
cd /verif; PVC_REPO=$wt python3-vt -m pvc.check $P --evidence /tmp/ev_seed_$p.json 2>&1 | grep -E "VIOLATION|^pvc|UNSUPP|CHECKER|UNDEC" | cut -c1-230 | head -${4:-6}
