#!/usr/bin/env python3
"""writes seeded/<id>/meta.json and seeded/MATRIX.md from the confirmation logs and the check matrix (/tmp/seedmx/<id>.txt)"""
import json, os, re, sys
HERE = os.path.dirname(os.path.dirname(os.path.abspath(__file__)))
MX = sys.argv[1] if len(sys.argv) > 1 else '/tmp/seedmx'

DESC = {
 'C01-a': ("non_ideal_non_isothermal_process: initial feed composition no longer converted (a no-op `c.to_weight()` loop replaces the conversion)",
           "molar initial feed composition + the non-ideal non-isothermal process kind"),
 'C02-a': ("get_partial_fluxes_from_permeate_composition: calculation_type dropped from the permeate-side get_partial_pressures call (permeate side always NRTL)",
           "calculation_type='UNIQUAC' together with a permeate temperature"),
 'C03-a': ("non-isothermal models: feed temperature profile precomputed from the programme, so step 0 runs at program(0) instead of the initial feed temperature",
           "a temperature programme whose value at t=0 differs from the initial feed temperature"),
 'C04-a': ("Composition.to_molar memoises its result in a private field and ignores the mixture on later calls",
           "one weight Composition object converted against two mixtures with different molar masses (call sequence)"),
 'C05-a': ("non_ideal_non_isothermal_process, single curve: Arrhenius rescale of the fitted functions skipped when the curve temperature equals the initial feed temperature",
           "single-curve set + non-isothermal model + initial temperature exactly equal to the curve temperature"),
 'C06-a': ("NRTL: `if alpha21 is None` replaced by `if not alpha21` (alpha21 == 0 treated as unset)",
           "a mixture whose relabelled twin has alpha21 == 0 (e.g. H2O/MeOH relabelled)"),
 'C07-a': ("non_ideal_non_isothermal_process: facilitation rates evaluated at conditions.initial_feed_composition.first instead of the mass fraction",
           "molar initial feed + composition-dependent curve set + at least 2 steps"),
 'C08-a': ("calculate_permeate_composition passes calculation_type positionally again (lands in the permeance slot)",
           "a non-default activity model passed to the permeate-composition / separation-factor helpers"),
 'C09-a': ("DiffusionCurve inversion in permeate-temperature mode evaluates the permeate-side pressures at the FEED compositions",
           "curve built from fluxes + permeate temperature + selective membrane"),
 'C10-a': ("calculate_partial_fluxes: iteration cap replaced by exact 2-cycle detection", "near-equilibrium inputs whose iteration is periodic/aperiodic but not an exact 2-cycle"),
 'C11-a': ("non_ideal_non_isothermal_process: membrane area dropped from the sensible-cooling part of the condensation heat",
           "non-ideal non-isothermal model + permeate temperature + area != 1"),
 'C12-a': ("Membrane.get_permeance: nearest experiment located with numpy.searchsorted (assumes ascending temperatures)", "experiments listed out of ascending temperature order"),
 'C13-a': ("Component.get_cooling_heat reorders its arguments with max/min (returns |integral|)", "a reversed interval (t0 < t1) or a split point outside the interval"),
 'C14-a': ("Permeance.convert uses a module-level conversion dict and writes the kg entry into it", "a conversion with a component followed by a conversion from kg units without one"),
 'C15-a': ("Composition.to_weight denominator refactored to m2 + p (m1 - m2) (differs from the original only in floating point)", "molar fraction exactly 1 with molar masses 18.02/60.05 or 18.02/60.1"),
 'C16-a': ("fit(): private copy of the data replaced by copy(data) again (shallow)", "include_zero=True"),
 'C17-a': ("DiffusionCurve.save writes mass-converted compositions but keeps the original composition_type column", "a curve with molar feed compositions saved and re-loaded"),
 'C18-a': ("non_ideal_non_isothermal_process: the two admissibility guards merged with `or` instead of `and`", "a coarse step that drives the temperature negative while the mass stays positive, as the last reported step"),
 'C19-a': ("DiffusionCurve.__attrs_post_init__: `is None` tests replaced by truthiness tests", "both a permeate temperature and permeate_pressure == 0"),
 'C20-a': ("UNIQUAC end-point clamp assigns composition.p in place instead of creating a new Composition", "UNIQUAC + a molar Composition with p exactly 0 or 1 shared between calls"),
 'C01-b': ("ideal_isothermal_process: time axis built with numpy.arange(0, N*dt, dt) instead of [dt*k for k in range(N)]",
           "(number_of_steps, delta_hours) pairs for which numpy.arange(0, N*dt, dt) yields N+1 points or points differing from k*dt by rounding"),
 'C02-b': ("calculate_partial_fluxes iterates on the flux pair and stops on a flux difference below `precision`; returns the last iterate instead of F(y*)",
           "a permeate side (temperature or pressure mode) with small fluxes, where |dJ| < precision long before the composition has settled"),
 'C03-b': ("non_ideal_non_isothermal_process: the programme is evaluated with .polynomial(...) instead of .program(...)", "a temperature programme of a non-polynomial type"),
 'C04-b': ("NRTL: the two activity-coefficient expressions factored into one nested helper that pairs tau with the wrong alpha when two alphas are given",
           "a mixture with alpha12 != alpha21 (both stated)"),
 'C05-b': ("non_ideal_non_isothermal_process: the second component's permeance is scaled by the FIRST component's facilitation rate", "composition-dependent curve set whose two fitted functions differ + at least 2 steps"),
 'C06-b': ("ideal_non_isothermal_process: the second component's permeate cooling heat is taken from the initial feed temperature instead of the current one",
           "non-isothermal ideal model + permeate temperature + a feed that has cooled (step >= 1)"),
 'C07-b': ("Measurements.from_diffusion_curve_second: feed composition no longer converted to mass fraction", "a diffusion curve given in mole fractions"),
 'C08-b': ("Membrane.get_permeance: returns the raw experiment permeance instead of the unit-converted one when no activation energy is stated", "an experiment stated in non-default units (GPU / SI) without activation energy"),
 'C09-b': ("DiffusionCurve.__attrs_post_init__: conversion of given permeances to kg/(m2 h kPa) removed", "a curve constructed from permeances in GPU or SI units"),
 'C10-b': ("non_ideal_isothermal_process: the flux call is wrapped in a retry loop that coarsens the precision up to 1e-2 and retries for ever on ValueError",
           "a step where the flux solver raises for a reason other than precision (both permeate parameters given; feed running down to the permeate pressure)"),
 'C11-b': ("ideal_isothermal_process: composition update divides by feed_mass[k+1] + 1e-6", "any run; the error is of relative size 1e-6/mass, visible for small feed amounts"),
 'C12-b': ("Membrane.get_permeance: `activation_energy is None` replaced by truthiness (Ea == 0 treated as unstated)", "an experiment whose stated activation energy is exactly 0, queried at a temperature other than the experiment's"),
 'C13-b': ("Component.get_vapor_pressure: Antoine constant c > 0 is shifted by -273.15 (get_vaporisation_heat unchanged)", "a component whose Antoine c is positive"),
 'C14-b': ("Permeance converter clamps every value <= sys.float_info.epsilon to 0 (was: only negative values)", "a non-negative permeance value below 2.2e-16, e.g. SI-unit magnitudes"),
 'C15-b': ("Composition.to_molar takes M2/M1 from a module-level cache keyed by the mixture NAME", "two mixtures with the same name and different molar masses converted one after the other (history)"),
 'C16-b': ("find_best_fit: component_index no longer passed on to fit() (every fit uses the first component's default)", "fitting the second component (component_index=1)"),
 'C17-b': ("ProcessModel._generate_process_path: process directory created with exist_ok=True", "two saves that generate the same directory name (forced clock collision)"),
 'C18-b': ("ideal_non_isothermal_process: the positive-temperature guard is skipped when a temperature programme is given", "a temperature programme that goes non-positive within the run (e.g. coefficients [333.15, -400], dt = 1 h)"),
 'C19-b': ("get_partial_pressures: pure-component shortcut returns Psat*x without the activity model (and without validating the model name)", "composition with p exactly 0 or 1 together with an activity model whose parameters/constants are missing (should be rejected)"),
 'C20-b': ("fit(): private Measurements copy replaced by a shallow copy(data) (shares the measurement list)", "include_zero=True on data reused afterwards"),
 'C02-c': ("calculate_partial_fluxes memoises its result in a per-instance dict keyed by feed state, permeate condition, precision and model - but not by the explicitly passed permeances",
           "a second call on the same Pervaporation object with the same feed state and different explicit permeances (call history)"),
 'C03-c': ("non_ideal_non_isothermal_process: feed_temperature[0] = programme(time[0]) when a programme is given (the seeding agents for C01 and C03 both produced this change; kept once)",
           "the non-ideal non-isothermal model + a temperature programme whose value at t=0 differs from the initial feed temperature"),
 'C05-c': ("non_ideal_non_isothermal_process, single curve: the Arrhenius re-scaling of the fits is skipped when the curve temperature equals the initial feed temperature (a restructured variant of C05-a)",
           "single-curve set + non-isothermal model + initial temperature exactly equal to the curve temperature"),
 'C07-c': ("non_ideal_isothermal_process: the discarded `c.to_weight(curve.mixture)` is turned into the in-place `c.p = c.to_weight(...).p` (type stays molar)",
           "a curve set given in mole fractions; visible inside the call (measurements converted twice) and on every later use of the caller's curve set"),
 'C08-c': ("feed-side partial pressures cached per Pervaporation instance under a key that omits calculation_type",
           "the same object asked for the same feed state first with one activity model, then with the other (call history)"),
 'C09-c': ("DiffusionCurve.permeate_composition labels the mass-flux ratio with the basis of the feed compositions instead of `weight`",
           "a curve built from fluxes with feed compositions in mole fractions and a permeate temperature or pressure"),
 'C11-c': ("both non-ideal process models: in-place `c.p = c.to_weight(...).p` on the caller's curve compositions (type stays molar)",
           "a molar curve set with composition-dependent permeances reused for a second run (e.g. the scaled run)"),
 'C12-c': ("Membrane.get_permeance takes the activation energy (and the stated/unstated decision) from the FIRST listed experiment instead of the nearest one",
           "experiments of one component with different (or partly missing) activation energies, nearest experiment not listed first"),
 'C14-c': ("Permeance.convert returns self also when the value is 0 (\"zero is zero in any units\")", "a zero (or clamped negative) permeance converted to other units, without a component or to an unknown unit"),
 'C16-c': ("find_best_fit appends the zero points to `data` once before the search and ranks the candidates on the augmented data", "include_zero=True and data for which the zero-point residual changes the ranking"),
 'C18-c': ("Composition validator `not 0 <= value <= 1` rewritten as `value < 0 or value > 1` (lets NaN through)", "a NaN fraction produced inside a model: impermeable membrane (0/0) or a self-cooling step landing at a few tens of kelvin, as the last reported state"),
 'C19-c': ("get_partial_pressures: pure-component shortcut (Raoult) returns before the activity model and its missing-parameter checks are reached", "composition exactly 0 or 1 together with an incompletely specified activity model"),
 'C20-c': ("non-ideal models memoise find_best_fit per Pervaporation instance; the single-curve branches then overwrite b[0] of the cached function in place (shared coefficient lists)",
           "the same object reused: a single-curve set, an earlier call at another temperature or any non-isothermal call, then another non-ideal call"),
 'C04-d': ("NRTL: both ln(gamma) expressions through one helper called twice; the second call exchanges x and tau but passes the alphas in the original order", "a mixture with two different non-randomness factors (alpha21 stated and != alpha12), e.g. H2O/MeOH"),
 'C06-d': ("calculate_partial_fluxes converts explicitly passed permeances to kg units as well - the second one with the FIRST component's molar mass", "explicit permeances stated in SI or GPU units"),
 'C10-d': ("calculate_partial_fluxes: the iteration cap becomes a stall counter that is reset whenever the step shrinks", "an input whose iteration settles on a cycle of period >= 3 (near-equilibrium permeate temperature, UNIQUAC)"),
 'C13-d': ("Component.get_cooling_heat returns 0.0 when numpy.isclose(t0, t1) (default rtol 1e-5)", "two temperatures a few mK apart: additivity with one very short sub-interval, derivative at the start of the interval"),
 'C15-d': ("Composition.p gets a converter that snaps fractions within 1e-9 of 0 or 1 to exactly 0 / 1", "fractions within 1e-9 of an end point, on either side of the bound"),
 'C17-d': ("ProcessModel.save writes feed_temperature as a constant column taken from step 0", "a model whose feed temperature varies (non-isothermal models), saved and re-loaded"),
 'C01-e': ("ideal_non_isothermal_process keeps feed temperature and mass in preallocated numpy arrays (numpy.full / full_like: dtype taken from the fill value)", "an integer-valued initial feed temperature (333 instead of 333.0): the mass series is truncated to whole kilograms"),
 'C02-e': ("calculate_partial_fluxes: the exit tolerance of the fixed-point loop is floored at 1e-6 (max(precision, 1e-6))", "a requested precision below 1e-6 with a slowly converging permeate side"),
 'C03-e': ("non_ideal_non_isothermal_process: per-kg heat capacities renamed to names that the condensation-heat branch overwrites with get_cooling_heat values", "self-cooling (no programme) + a permeate temperature"),
 'C05-e': ("non_ideal_non_isothermal_process: facilitation rates computed from the RAW user-supplied initial permeance value instead of the unit-converted one", "initial permeances given in SI or GPU units"),
 'C07-e': ("DiffusionCurve.get_separation_factor converts the feed points only when the FIRST point is a mole fraction", "a curve whose first point is a mass fraction and a later point a mole fraction (per-point basis)"),
 'C11-e': ("ideal_non_isothermal_process: self-cooling divides by a 'mean hold-up' mass that contains flux x area without the step length", "the area/time trade-off (area x k, step / k) of a self-cooling run"),
 'C12-e': ("Membrane.get_permeance: unstated activation energy -> evaluates the fitted Arrhenius line exp(lnP0 - Ea/(R T)) instead of rescaling the nearest experiment", ">= 3 unstated experiments that do not lie on one Arrhenius line, query between them"),
 'C16-e': ("fit_vle skips a method whose optimiser run reports success=False once any result is held", "method=None and a data set on which the most accurate method reports success=False (COBYLA on MeOH/Toluene)"),
 'C19-e': ("Membrane.calculate_activation_energy tests the TOTAL number of experiments of the membrane instead of the component's", "a component with one unstated experiment in a membrane that also holds experiments of another component"),
 'C20-e': ("Measurements.data gets the mutable default [] (shared by all default-constructed instances) and fit() appends its zero points to such an instance", "a fit with include_zero=True followed by any other fit in the same interpreter"),
 'C01-f': ("ideal_non_isothermal_process: with a temperature programme the temperature series starts at program(time[0]) instead of the stated initial feed temperature",
           "a temperature programme whose value at t=0 differs from the initial feed temperature (ideal non-isothermal model)"),
 'C04-f': ("get_partial_pressures takes the saturation pressures from a dict keyed by component NAME (new helper Mixture.get_saturation_pressures)",
           "a mixture whose two components carry the same name (unnamed components, isomers under one label) and different vapour-pressure constants"),
 'C06-f': ("DiffusionCurve.__attrs_post_init__, permeate-pressure branch: the second component's permeate partial pressure uses the WEIGHT fraction (first keeps the molar one)",
           "a curve built from fluxes with a permeate pressure; derived permeances/selectivity of the relabelled twin"),
 'C08-f': ("calculate_separation_factor: feed converted to weight into a new local, but the return still divides by the ratio of the ORIGINAL composition",
           "a molar feed composition handed to calculate_separation_factor"),
 'C09-f': ("ideal_diffusion_curve: keyword reordering loses permeate_temperature when the DiffusionCurve is constructed (fluxes still solved under it)",
           "ideal_diffusion_curve called with a permeate temperature; each call site looks fine alone"),
 'C13-f': ("Component.get_cooling_heat: exact antiderivative replaced by the trapezoid rule (mean Cp x dT)",
           "a heat-capacity polynomial with curvature; visible only in relations between calls (additivity, derivative)"),
 'C14-f': ("Permeance.convert: the two conversion tables merged and the molar mass read with getattr(component, 'molecular_weight', 1.0)",
           "conversion FROM kg/(m2 h kPa) to SI/GPU without a component (must raise, now returns a number)"),
 'C15-f': ("ideal_isothermal_process switches the attrs validators off around its loop without try/finally",
           "call history: a run that aborts with ValueError (feed exhausted / contradictory permeate spec), then Composition(p=1.5) is accepted process-wide"),
 'C17-f': ("ProcessModel.save writes process_model.csv with float_format='%.12f'",
           "a persisted value below ~5e-4 (second-component permeance ~6e-6): relative error > 1e-9 after re-loading"),
 'C18-f': ("non_ideal_diffusion_curve switches the attrs validators off around its loop without try/finally",
           "two calls: a non_ideal_diffusion_curve call that raises inside its loop, then a process model with a coarse step returns feed fractions outside [0,1]"),
}


def main():
    ids = sorted(d for d in os.listdir(os.path.join(HERE, 'seeded')) if os.path.isdir(os.path.join(HERE, 'seeded', d)))
    rows = []
    for i in ids:
        d = os.path.join(HERE, 'seeded', i)
        prop = i.split('-')[0]
        conf = open(os.path.join(d, 'confirm.log')).read() if os.path.exists(os.path.join(d, 'confirm.log')) else ''
        mx = {}
        p = os.path.join(MX, i + '.txt')
        matrix_from = 'cross-check cells: the machinery at the time this change was first tested (later engine changes were not re-run on them); target cell: final machinery (official_run)'
        if not os.path.exists(p) and os.path.exists(os.path.join(d, 'meta.json')):
            try:
                old = json.load(open(os.path.join(d, 'meta.json')))
                mx = old.get('checks_exit_codes', {}); matrix_from = old.get('matrix_from') or 'an earlier version of the machinery (before the last engine changes); the target check was re-run, see official_run'
            except Exception: pass
        if os.path.exists(p):
            for l in open(p):
                a = l.split()
                if len(a) == 2: mx[a[0]] = int(a[1]) if a[1].isdigit() else a[1]
        official = None
        op = os.path.join(d, 'official_run.txt')
        if os.path.exists(op): official = open(op).read().strip()
        import re as _re
        mo = _re.search(r'exit=(\d)', official or '')
        if mo: mx[prop] = int(mo.group(1))          # the target check was re-run last, with the change applied to /repo itself
        desc, needs = DESC.get(i, ('', ''))
        lines = [l.strip() for l in conf.splitlines()]
        def after(tag):
            for k, l in enumerate(lines):
                if l.startswith(tag) and k + 1 < len(lines): return lines[k + 1] if not lines[k + 1].startswith('patch') else (lines[k + 2] if k + 2 < len(lines) else '')
            return None
        meta = dict(id=i, breaks_property=prop, change=desc, needs_to_manifest=needs, source="independent sub-agent given only the property text and a scratch worktree",
                    confirmation=dict(where="fresh scratch worktree of /repo (tools/confirm_all.sh), removed afterwards",
                                      demo_without_change=after('-- demo without'), suite_with_change=after('-- existing suite'), demo_with_change=after('-- demo with the change')),
                    checks_exit_codes=mx, caught_by=sorted(k for k, v in mx.items() if v == 1), no_verdict=sorted(k for k, v in mx.items() if v in (2, 3)),
                    official_run=official, matrix_from=matrix_from,
                    ran="tools/confirm_all.sh; tools/seed_matrix.sh (every quick check with PVC_REPO=<worktree with the patch applied>); target check also run with the patch applied to /repo (git -C /repo apply; check; git -C /repo checkout -- .)")
        json.dump(meta, open(os.path.join(d, 'meta.json'), 'w'), indent=1)
        rows.append(meta)
    with open(os.path.join(HERE, 'seeded', 'MATRIX.md'), 'w') as f:
        f.write("# Seeded changes vs checks (exit codes of the quick checks: 0 pass, 1 VIOLATION, 2 undecided, 3 no verdict)\n\n")
        f.write("The target check of every change was re-run at the end with the change applied to /repo (`official_run.txt`). The cross-check cells (other checks on the same change) "
                "were produced when the change was first tested and were not all repeated after later engine changes (`matrix_from` in each meta.json); rounds -e were run against their target check only.\n\n")
        f.write("| seeded change | breaks | needs | caught by (exit 1) | no verdict (2/3) |\n|---|---|---|---|---|\n")
        for m in rows:
            f.write("| %s: %s | %s | %s | %s | %s |\n" % (m['id'], m['change'], m['breaks_property'], m['needs_to_manifest'], ' '.join(m['caught_by']) or '-', ' '.join("%s(%s)" % (k, m['checks_exit_codes'][k]) for k in m['no_verdict']) or '-'))
    print("wrote %d meta.json files and MATRIX.md" % len(rows))
    return rows


if __name__ == '__main__':
    main()
