#!/bin/bash
# for every seeded change: git -C /repo apply; run the target property's quick check on /repo; undo; record in seeded/<id>/official_run.txt
cd /verif
git -C /repo status --porcelain | grep -q . && { echo "/repo not clean"; exit 2; }
for id in $(ls seeded | grep -v MATRIX); do
  [ -f seeded/$id/patch.diff ] || continue
  [ -n "$ONLY" ] && ! echo $id | grep -qE -e "$ONLY" && continue
  prop=${id%-*}
  git -C /repo apply /verif/seeded/$id/patch.diff || { echo "$id: patch does not apply"; continue; }
  out=$(python3-vt -m pvc.check $prop --evidence /tmp/official_ev.json 2>&1 | grep -E "^pvc |VIOLATION|UNDECIDED|UNSUPPORTED|CHECKER-ERROR" | cut -c1-420)
  git -C /repo checkout -- .
  code=$(echo "$out" | grep -E "^pvc " | sed 's/.*exit=\([0-9]\).*/\1/')
  nv=$(echo "$out" | grep -c VIOLATION)
  { echo "git -C /repo apply seeded/$id/patch.diff; python3-vt -m pvc.check $prop --tier quick; git -C /repo checkout -- .   ($(date -u +%FT%TZ))"
    echo "exit=$code violations=$nv"; echo "$out" | grep VIOLATION | head -3; } > seeded/$id/official_run.txt
  echo "$id -> $prop exit=$code violations=$nv"
done
git -C /repo status --porcelain | grep -q . && echo "WARNING /repo dirty" || echo "/repo clean"
