#!/bin/bash
# (re)creates one scratch worktree of /repo HEAD per seeded change under /tmp/s/<id> with its patch applied; `tools/seed_worktrees.sh remove` removes them
if [ "$1" = remove ]; then for d in /tmp/s/*; do git -C /repo worktree remove --force $d 2>/dev/null; done; git -C /repo worktree prune; rmdir /tmp/s 2>/dev/null; exit 0; fi
mkdir -p /tmp/s
for id in $(ls /verif/seeded | grep -v MATRIX); do
  [ -d /tmp/s/$id ] && continue
  git -C /repo worktree add -q /tmp/s/$id HEAD && git -C /tmp/s/$id apply /verif/seeded/$id/patch.diff || echo "FAIL $id"
done
