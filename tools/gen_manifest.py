#!/usr/bin/env python3
"""regenerates /verif/MANIFEST.json from the table below (run after adding a property check)"""
import json, os
HERE = os.path.dirname(os.path.dirname(os.path.abspath(__file__)))
props = [json.loads(l) for l in open(os.path.join(HERE, 'properties.jsonl'))]

TB = ("pvc symbolic executor (Python subset, DESIGN 2.2); floats as mathematical reals, division definedness as side condition; "
      "numpy/scipy kernels by assumed contracts; z3 5.1 (primary), z3 4.8.12 / cvc5 (fallback, second opinion in thorough); "
      "exp/log as opaque atoms; ")

CLAIMED = {
    'C13': dict(
        level='proof', ref='DESIGN.md 3/C13',
        text="Clausius-Clapeyron identity (Antoine and Frost) and the four integral laws of the cooling heat are postconditions on the "
             "real Component methods; the terms are obtained by symbolically executing the current source and each identity is one unsat query, "
             "valid for every constant set and temperature (not a sample).",
        note=TB + "ghost differentiation operator cross-checked numerically each run; log(10) one opaque constant",
        technique="contracts on the real functions; VCs from the AST by symbolic execution; z3 (QF_NRA); mechanical differentiation of the extracted ln Psat term"),
    'C15': dict(
        level='proof', ref='DESIGN.md 3/C15',
        text="Constructor rejection outside [0,1], identity on own type, conversion formulas, round trips both ways, fixed points 0 and 1, strict "
             "monotonicity, first+second=1 and the ratio law are postconditions/lemmas on the real Composition constructor, to_molar and to_weight; "
             "each is an unsat query over all fractions and all positive molar masses, including values arbitrarily close to the ends.",
        note=TB + "class invariant 0<=p<=1 relies on an AST scan showing no assignment to .p anywhere in the package and on the obligation attrs.validators-always-run (no writer of the attrs validator switch in the package; native probe when one appears)",
        technique="contracts on the real functions; VCs by symbolic execution of the AST (real attrs validator executed); z3 QF_NRA"),
    'C14': dict(
        level='proof', ref='DESIGN.md 3/C14',
        text="Permeance.convert is executed symbolically for all 16 unit pairs (3 units + an unknown one on either side) x component present/absent with value "
             "and molar mass symbolic: identity object for equal units, value = v*f(from)/f(to), linearity, path independence, invertibility, the raising cases, "
             "and the class invariant value>=0 from the constructor clamp; all discharged for every value and molar mass.",
        note=TB + "3.35e-10 and 3.6e3 are the exact decimals of the source; invariant relies on an AST scan (no assignment to .value)",
        technique="contracts on the real functions; path enumeration over concrete unit strings + z3 on symbolic values"),
    'C04': dict(
        level='proof', ref='DESIGN.md 3/C04',
        text="ln gamma_i is extracted from the real calculate_activity_coefficients (NRTL with one/two alphas, UNIQUAC); Gibbs-Duhem is proved by mechanical "
             "differentiation of that very term for all parameters and 0<x1<1 (UNIQUAC split into tau-free and tau-dependent summands), pure-component limits, "
             "Raoult reduction, the partial-pressure formula and basis independence are further postconditions. The UNIQUAC tau-dependent identity is genuinely "
             "violated by the code (known finding K1, identified by a semantic fingerprint; any other deviation is reported).",
        note=TB + "tau atoms generalised to fresh positive reals; differentiator cross-checked numerically each run; r,q,q'>0, T>0",
        technique="contracts on the real functions; symbolic execution + ghost differentiation; z3 nlsat with hypothesis slicing"),
    'C12': dict(
        level='proof', ref='DESIGN.md 3/C12',
        text="get_penetrant_data for experiment lists of arbitrary length (which list is filtered, with which predicate on a generic element; builtin filter() by contract). get_permeance is executed symbolically on an experiment list of arbitrary symbolic length (element i = (T_i, P_i, Ea_i)) for stated/unstated activation "
             "energies x 3 experiment units: measured value at an experiment's temperature, Arrhenius factor of the nearest experiment elsewhere, result always in kg units; "
             "calculate_activation_energy passes abscissa 1/T_i, ordinate ln P_i and the [x,1] design to lstsq and returns -slope*R; lemmas: data on an Arrhenius line "
             "recover Ea and give the same permeance whichever experiment is nearest; molar selectivity = weight selectivity*M2/M1; pure-component flux branch-wise.",
        note=TB + "assumed contracts: min(range,key=) returns a minimiser; numpy.linalg.lstsq returns the least-squares line (exact line for collinear data); "
                  "get_penetrant_data (filter) verified on all concrete lists up to length 3 (quick) / 5 (thorough) - bounded part, labelled in evidence; uniform stated/unstated lists",
        technique="contracts on the real functions; symbolic-length experiment list with uninterpreted element functions; z3; exp-product normalisation"),
    'C02': dict(
        level='proof', ref='DESIGN.md 3/C02',
        text="get_partial_fluxes_from_permeate_composition is proved against the solution-diffusion law in the three permeate modes; the while loop of "
             "calculate_partial_fluxes is cut at its head: initiation, preservation (next iterate = composition of the law's fluxes at the current iterate, "
             "d = |change|), exit (returned fluxes = law at the final iterate, d < precision) for 3 modes x given/default permeances x both models; the exact "
             "identities (vacuum, p=0, pressure identity), self-consistency under local non-expansiveness and the k-scaling (lock-step relational proof over the loop) are lemmas.",
        note=TB + "frame lemma (no explored path writes to arguments, self, per-instance caches or module state) proved next to the statement, since it relates several calls; get_partial_pressures / Membrane.get_permeance by contract (pure functions); contraction is a hypothesis of the statement; termination is C10",
        technique="contracts + loop invariant at a cut point + lock-step self-composition; VCs from the AST; z3"),
    'C10': dict(
        level='proof', ref='DESIGN.md 3/C10',
        text="A variant (cap - iterations, cap read from the source) is proved to decrease strictly and stay non-negative on every path that returns to the head of the only "
             "while loop of the package, in all 3 modes x given/default permeances, with arbitrary precision; AST scans show there is no other while loop, every for loop "
             "iterates over a range/list its body does not grow, and the call graph is acyclic. If no variant can be established the check searches natively for a "
             "non-terminating input under a call-count watchdog (that is how the original unbounded loop is reported) and is otherwise undecided, never a violation.",
        note=TB + "external calls terminate (assumed); call graph resolved by name with receiver typing from attrs annotations",
        technique="termination contract: variant obligations (linear integer arithmetic) from the real loop body + AST scans; native watchdog replay"),
    'C01': dict(
        level='proof', ref='DESIGN.md 3/C01',
        text="Each of the four process functions is executed symbolically with its step loop run once for a generic step k (recurrence extraction): total-mass and "
             "component-mass balances, mass-fraction reporting, initial amount/composition (converted)/temperature, series lengths = N, time[k]=k*dt and identity of the "
             "returned series with the loop's lists are proved for symbolic N, area, step, feed and every permeate mode / programme / curve-set shape / initial permeances.",
        note=TB + "solver, permeance, fit and programme calls by contract; induction principle for append-only loops trusted (frame checked syntactically); rounding outside the model",
        technique="contracts + loop recurrence extracted from the real body (generic iteration) + induction; z3"),
    'C03': dict(
        level='proof', ref='DESIGN.md 3/C03',
        text="From the recurrence of each process function (generic step k): evaporation heat = sum of permeated mass x each component's own latent heat per kg at T_k "
             "(real get_vaporisation_heat executed), self-cooling step, programme evaluated at (k+1)*dt, isothermal constancy, condensation heat reported iff a permeate "
             "temperature is given and equal to the component-symmetric formula; step-0 lemma: isothermal and non-isothermal models give identical fluxes and heats "
             "(terms compared after substituting k=0 and the prefix values); TemperatureProgram.program against its three closed forms for coefficient lists of ARBITRARY length (the list that is summed has one monomial per coefficient, its generic summand j "
             "is c[j] t^j resp. c[j+1] t^j, the result wraps that sum as the type says; builtin sum() by contract).",
        note=TB + "callees by contract as in C01; programme closed forms additionally unrolled for coefficient lists up to length 4 (quick) / 6 (thorough) as a cross-check; "
                  "three defects of the isothermal models were repaired (fix commits 049e8e4, b53bf42, 77ae1e5)",
        technique="contracts + loop recurrence from the real body + lemmas over the step spec; ring normal form / z3"),
    'C18': dict(
        level='proof', ref='DESIGN.md 3/C18',
        text="Admissibility invariant of the four process recurrences: a normal return means every iteration k<N completed, so the path condition of the generic iteration "
             "holds for every reported step; from it: feed mass > 0 (head guard, or base + tail guard), feed temperature > 0, feed and permeate mass fractions in [0,1] "
             "(constructor validation), for all configurations. On the original tree the mass/temperature obligations are refuted and replayed natively (m=[1,-21,-58,...]).",
        note=TB + "finiteness (NaN/inf, overflow) is outside the real-number model: a labelled bounded native scan (coarse two-step runs landing where the Antoine/Arrhenius exponentials overflow, all modes) "
                  "stands in for it and is not counted as proved; initial temperature of isothermal models admissible by the quantifier; repaired by fix commits 44243de and 0561059",
        technique="inductive invariant over the loop recurrence extracted from the real body; z3; native replay with coarse steps"),
    'C11': dict(
        level='proof', ref='DESIGN.md 3/C11',
        text="Relational (two-run) lemmas proved on the recurrence extracted from each process function: with (area, feed amount) x c and the coupling m'_k = c m_k, every "
             "intensive quantity of step k+1 is unchanged and masses/heats scale by c, and the scaled run satisfies the same path condition; with area x k and step / k "
             "(no programme) every per-step state is unchanged; the step-0 flux term does not mention area, feed amount or step length.",
        note=TB + "frame lemma (no explored path writes to arguments, self, per-instance caches or module state) proved next to the statement, since it relates several calls; coupling at step k is the induction hypothesis, prefix values the base case (induction principle trusted)",
        technique="substitution instances of the extracted recurrence (self-composition) discharged by ring normal form / z3"),
    'C05': dict(
        level='proof', ref='DESIGN.md 3/C05',
        text="For both non-ideal process models and non_ideal_diffusion_curve (mass/molar initial feed, one/many curves, with/without initial permeances, all modes): "
             "provenance of the returned functions (find_best_fit of each component's measurements with the stated n, m, component index; single curve: Arrhenius rescale "
             "followed through the aliased coefficient list), step-0 permeances, permeance of step k+1 = returned fit(state) x constant factor fixed at step 0 (factor 1 when "
             "none supplied), and the Arrhenius lemma f'(x,T) = f(x,Tc) exp(-Ea/R (1/T-1/Tc)) by exponent identity.",
        note=TB + "frame lemma (no explored path writes to arguments, self, per-instance caches or module state) proved next to the statement, since it relates several calls; hypothesis alpha>0 for fitted functions; find_best_fit / measurements / __call__ / activation energy by contract; repaired by fix commit 56213d2 (molar initial feed)",
        technique="contracts + loop recurrence + heap aliasing followed by the executor; ring normal form with exp-product normalisation / z3"),
    'C19': dict(
        level='proof', ref='DESIGN.md 3/C19',
        text="Exceptional postconditions by path enumeration over the real bodies with otherwise arbitrary symbolic arguments: with both a permeate temperature and a "
             "permeate pressure no path of the flux law, the solver (from the loop head: iterate or exit - both raise; also with precision > 1), both helpers, the ideal and "
             "non-ideal curves (2 and n points), all four process models (with/without programme), the pure-component flux and curve construction from fluxes returns normally; "
             "likewise Mixture without parameters, NRTL/UNIQUAC without parameters or component constants (both bases, both thermodynamic functions), a curve with neither "
             "fluxes nor permeances, and a single experiment without activation energy. Sanity obligations show valid specifications are not rejected.",
        note=TB + "callers see callee rejections through the callee contracts (raises clauses proved on the callee bodies here); N>=1, at least one composition",
        technique="exceptional postconditions (raises clauses) checked by solver-pruned path enumeration of the real bodies"),
    'C08': dict(
        level='proof', ref='DESIGN.md 3/C08',
        text="calculate_permeate_composition, calculate_separation_factor, every point of ideal_diffusion_curve and every step of all four process models are proved to use the "
             "same uninterpreted solver application cpf(T, x, precision, permeate condition, permeances, model, mixture) built from the *reported* state, with the selected model "
             "bound exactly as Python binds the call (this is what exposed the positional-argument slip); permeate composition = J1/(J1+J2), separation factors in one basis, "
             "curve/process metrics by definition element-wise; default-permeance lemma by lock-step over the solver loop.",
        note=TB + "frame lemma (no explored path writes to arguments, self, per-instance caches or module state) proved next to the statement, since it relates several calls; calculate_partial_fluxes by contract (pure function of its argument leaves); repaired by fix commits 218ae59, bbb5fa0",
        technique="contracts naming the callee result by an uninterpreted application + congruence; path enumeration; lock-step relational proof"),
    'C09': dict(
        level='proof', ref='DESIGN.md 3/C09',
        text="DiffusionCurve.__attrs_post_init__ is executed symbolically on curves of arbitrary symbolic length (element-wise semantics): from permeances (3 units x 2 "
             "composition bases): permeances exposed in kg units, fluxes = permeance x feed pressure; both supplied: converted/kept; from fluxes produced by the solver's law "
             "at a self-consistent permeate (hypothesis solved for the second permeance): the reported permeances are the original ones in vacuum and temperature mode, and "
             "re-inversion in vacuum returns the permeances of a permeance-built curve; Pervaporation.ideal_diffusion_curve constructs its curve under the very permeate condition, feed temperature and mixture the fluxes were solved for. The permeate-pressure round trip is genuinely violated (known finding K2, semantic fingerprint).",
        note=TB + "frame lemma (no explored path writes to arguments, self, per-instance caches or module state) proved next to the statement, since it relates several calls; get_partial_pressures by contract; self-consistent permeate, non-negative permeances and non-zero driving forces are hypotheses of the statement",
        technique="contracts on the constructor hook; eager element-wise comprehension semantics; ring normal form / z3; fingerprinted known finding"),
    'C06': dict(
        level='proof', ref='DESIGN.md 3/C06',
        text="Bottom-up relabelling lemmas: activity coefficients and partial pressures of the real functions on the relabelled mixture (parameters exchanged, p -> 1-p, both bases, "
             "NRTL one/two alphas; UNIQUAC = known finding K1 with fingerprints); the flux solver by lock-step self-composition over its loop (invariant y_b = 1-y_a, d_b = d_a, "
             "partial-pressure swap lemma applied by rewriting) in 3 modes x given/default permeances; the step recurrences of both ideal process models (fluxes exchanged, mass, "
             "temperature and both heats equal, fractions mirrored) using the solver swap lemma; DiffusionCurve.__attrs_post_init__ on the original and the relabelled mixture (exchanged fluxes, symbolic number of points, 3 modes): derived permeances exchanged; separation factor and ideal selectivity invert.",
        note=TB + "frame lemma (no explored path writes to arguments, self, per-instance caches or module state) proved next to the statement, since it relates several calls; callee swap lemmas are proved from the callee bodies in the same check and applied by rewriting once their argument relation is discharged; ideal curves are element-wise solver calls (C08) followed by the curve constructor, whose relabelling symmetry is proved here",
        technique="relational verification: lock-step self-composition + lemma rewriting over contracts; ring normal form / z3"),
    'C07': dict(
        level='proof', ref='DESIGN.md 3/C07',
        text="Basis lemmas bottom-up: gamma and partial pressures (bodies, both models), flux solver (lock-step over the loop with the partial-pressure basis lemma), "
             "permeate-composition and separation-factor helpers, all four process models and the non-ideal curve (molar vs equivalent mass initial feed: identical prefix and "
             "identical step recurrence, hence identical trajectories; compositions reported as mass fractions), curve separation factor / PSI and the measurement points "
             "extracted for fitting (element-wise on curves of symbolic length, molar vs mass feed points).",
        note=TB + "frame lemma (no explored path writes to arguments, self, per-instance caches or module state) proved next to the statement, since it relates several calls; fitted coefficients compared through their inputs (identical find_best_fit application / identical measurement points); repaired by fix commits 56213d2, c90f218, bbb5fa0",
        technique="relational verification over contracts (two runs with x_molar = to_molar(w)); lock-step; ring normal form / z3"),
    'C16': dict(
        level='proof', ref='DESIGN.md 3/C16',
        text="fit(): frame obligation on the real body (ownership analysis: copy.copy aliases fields; any write to the caller's Measurements or its list is reported) for zero/no-zero "
             "points, both component indices, auto/forced orders; result = from_array(minimize(objective on a private copy, zeros, 'Powell').x). find_best_fit and fit_vle: "
             "min-tracking loop invariant proved on the real loop body for a generic iteration (candidate = fit(data,n',m') / method result, loss = sum over the SUPPLIED data of "
             "(f(x,t)-p)^2 element-wise, strict-< update) + initial state + exit, giving SSE(result) <= SSE(every tried candidate); PervaporationFunction.__call__ against the closed form for coefficient lists of arbitrary length (generic summands a[j] x^(j+1), b[j] x^j; builtin sum() by contract); "
             "from_array + __call__ + (f*c)=c f additionally for every shape n,m <= 3 (quick) / 5 (thorough).",
        note=TB + "assumed contract of scipy.optimize.minimize (terminates, deterministic, does not modify inputs): determinism = proved frames + that assumption; "
                  "closed form unrolled per shape (bounded part, labelled); repaired by fix commit fc3a44d",
        technique="frame/ownership contracts + loop invariant on a generic iteration of the real loop body + per-shape symbolic execution; z3 / ring normal form"),
    'C20': dict(
        level='proof', ref='DESIGN.md 3/C20',
        text="`modifies nothing` frame obligations, proved by the executor's ownership analysis (arguments, caller lists and module-level mutable constants are 'external/global'; "
             "every attribute/item assignment, append/pop on them is recorded) for every modelling entry point: thermodynamic functions at interior and end-point compositions, "
             "conversions (9 unit pairs), flux law, solver (loop cut), helpers, ideal/non-ideal curves, curve construction, all process models (modes, programme, curve-set shapes, curve sets in mass and in mole fractions), "
             "membrane functions, fits and measurement extraction; AST scan: no global/nonlocal, no class-attribute assignment, no setattr. Memo caches (stores into per-instance or "
             "module-level dicts) are modelled rather than forbidden: lookups fork on key equality, cached values escape, and two coherence obligations require that a stored value "
             "depends only on its key (and the owner's other fields). Plus a labelled bounded stand-in: forced and random call histories on shared objects under the real "
             "interpreter compared with fresh-state executions (private attributes are not part of an object's value; module-level state against a fresh interpreter).",
        note=TB + "determinism relies on the assumed purity of numpy/scipy; callee frames are used modularly and proved in the same check; history replay is bounded (2 random + 6 forced sequences quick, 12 + 16 thorough) and not counted as proved; a failed cache-coherence obligation counts only with a native reproduction (else undecided)",
        technique="frame (modifies-nothing) contracts checked by ownership analysis during symbolic execution of the real bodies + AST scans; bounded native history replay"),
    'C17': dict(
        level='proof', ref='DESIGN.md 3/C17, 2.11',
        text="The REAL save/load functions (PervaporationFunction.save/load/safe_save/safe_load, Conditions.safe_save/safe_load, DiffusionCurve.save -> DiffusionCurveSet.load/"
             "from_frame, ProcessModel.save -> load in both storage modes, _generate_process_path) are executed symbolically against a model of pathlib/open/json/joblib/pandas "
             "(pvc/iomodel.py). Proved for series of ARBITRARY length N and arbitrary values: every persisted field is written to a column/key and read back into the same field "
             "(generic element j of every series, both fluxes, both permeances and their units, compositions re-loaded as mass fractions of the stored composition, permeate "
             "condition, mixture identity, initial conditions, both permeance fits with coefficient lists of arbitrary length), lengths are preserved, nothing raises for N >= 1, "
             "the saved object is not modified by curve/function/conditions saves; directory frame on the same model: one save writes into ONE directory created by that call, and "
             "with the generated name forced to collide (clock hash pinned) a second save of a different model neither alters nor adds to the first directory. The libraries themselves (float formatting, pickling, csv parsing) are ASSUMED to round-trip (listed in the evidence) and are exercised by a "
             "labelled bounded native round-trip corpus incl. a forced directory-name collision with a different second model.",
        note=TB + "assumed contracts of pandas.to_csv/read_csv/groupby, json, joblib and pathlib (pvc/iomodel.py ASSUMPTIONS); the numeric 1e-9 agreement through real text formatting is "
                  "only checked on the bounded native corpus (16 objects quick / ~50 thorough), which is not counted as proved",
        technique="symbolic execution of the real save/load bodies against assumed library contracts, post-conditions per field for a generic element index; z3 / ring normal form; "
                  "frame obligations on the modelled file system; bounded native round trips as stand-in for the libraries"),
}

NOT_YET = "check under construction (see DESIGN.md section 7); not claimed until every obligation is in place"


def main():
    checks = []
    for p in props:
        i = p['id']
        if i not in CLAIMED: continue
        c = CLAIMED[i]
        checks.append(dict(property_id=i,
                           quick_cmd="python3-vt -m pvc.check %s --tier quick" % i,
                           thorough_cmd="python3-vt -m pvc.check %s --tier thorough" % i,
                           evidence_file="evidence/%s.json" % i,
                           replay_cmd_template="python3-vt -m pvc.replay {path}",
                           engine="pvc",
                           level_claimed=dict(category=c['level'], text=c['text'], design_ref=c['ref']),
                           level_note=c['note'], technique=c['technique']))
    m = dict(version=1,
             setup_cmd="python3-vt -m compileall -q pvc && python3-vt -c 'import z3, pvc.check' && /venv/bin/python -c 'import attr, numpy'",
             hooks=dict(guard="PYVAPORATION_VERIF",
                        enable="none needed: pvc parses the source text of /repo (or $PVC_REPO) on every run; nothing is compiled into the package",
                        baseline_off_cmd="cd /repo && /venv/bin/python -m pytest -ra -q -p no:cacheprovider --timeout=900 --continue-on-collection-errors",
                        source_commits=[], add_only=True),
             engines=[dict(name="pvc", path="pvc", serves_properties=sorted(CLAIMED),
                           kind_free_text="ast-level symbolic executor + VC generator over the real PyVaporation source with sidecar contracts; "
                                          "z3 5.1 / z3 4.8.12 / cvc5 back ends; native replay under /venv/bin/python")],
             checks=checks,
             not_applicable=[dict(property_id=p['id'], reason=NA.get(p['id'], NOT_YET)) for p in props if p['id'] not in CLAIMED],
             notes="see DESIGN.md; known findings in known_findings.json; fixes committed to /repo are listed there as 'fixed'")
    json.dump(m, open(os.path.join(HERE, 'MANIFEST.json'), 'w'), indent=1)
    print("MANIFEST.json: %d checks, %d not claimed" % (len(checks), len(m['not_applicable'])))


NA = {}

if __name__ == '__main__':
    main()
