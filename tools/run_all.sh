#!/bin/bash
# runs every quick (or $1=thorough) check on $PVC_REPO (default /repo); prints one line per property
tier=${1:-quick}
cd "$(dirname "$0")/.."
for i in 01 02 03 04 05 06 07 08 09 10 11 12 13 14 15 16 17 18 19 20; do
  python3-vt -m pvc.check C$i --tier $tier ${EVDIR:+--evidence $EVDIR/C$i.json} 2>&1 | grep -E "^pvc |VIOLATION|UNDECIDED|UNSUPPORTED|CHECKER-ERROR|KNOWN-FINDING" | cut -c1-180 | tail -4
done
