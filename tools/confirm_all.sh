#!/bin/bash
# confirms every seeded change in a FRESH scratch worktree of /repo (removed afterwards)
for id in $(ls /verif/seeded | grep -v MATRIX); do
  [ -f /verif/seeded/$id/patch.diff ] || continue
  [ -f /verif/seeded/$id/confirm.log ] && continue
  wt=/tmp/cf_$id
  git -C /repo worktree add -q $wt HEAD || continue
  cp /verif/seeded/$id/demo_seeded.py $wt/
  ( cd $wt
    {
    echo "== $id  $(date -u +%FT%TZ)  fresh worktree of /repo HEAD $(git rev-parse --short HEAD)"
    echo "-- demo without the change (expected: all pass)"; /venv/bin/python -m pytest -q -p no:cacheprovider demo_seeded.py 2>&1 | tail -1
    git apply /verif/seeded/$id/patch.diff && echo "patch applied"
    echo "-- existing suite with the change (expected: 102 passed)"; /venv/bin/python -m pytest -q -p no:cacheprovider -n 4 2>&1 | tail -1
    echo "-- demo with the change (expected: failures)"; /venv/bin/python -m pytest -q -p no:cacheprovider demo_seeded.py 2>&1 | tail -1
    } > /verif/seeded/$id/confirm.log 2>&1 )
  git -C /repo worktree remove --force $wt
  echo "$id: $(grep -A1 '^--' /verif/seeded/$id/confirm.log | grep -v '^--' | tr '\n' '|')"
done
