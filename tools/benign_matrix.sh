#!/bin/bash
# every quick check against every harmless change (benign/<id>/patch.diff applied in a scratch worktree of /repo HEAD); expected: all 0
mkdir -p /tmp/s /tmp/benignmx
for b in $(ls /verif/benign | grep -v README | grep -E -e "${ONLY:-.}"); do
  wt=/tmp/s/benign_$b
  [ -d $wt ] || { git -C /repo worktree add -q $wt HEAD && git -C $wt apply /verif/benign/$b/patch.diff || { echo "FAIL $b"; continue; }; }
done
run_one() {
  b=$1; wt=/tmp/s/benign_$b
  ( cd /verif; for i in 01 02 03 04 05 06 07 08 09 10 11 12 13 14 15 16 17 18 19 20; do
      r=$(PVC_REPO=$wt python3-vt -m pvc.check C$i --evidence /tmp/benignmx/ev_${b}_C$i.json 2>&1 | grep -E "^pvc " | sed 's/.*exit=\([0-9]\).*/\1/')
      echo "C$i $r"
    done ) > /tmp/benignmx/$b.txt 2>&1
  echo "done $b: $(tr '\n' ' ' < /tmp/benignmx/$b.txt)"
}
export -f run_one
ls /verif/benign | grep -v README | grep -E -e "${ONLY:-.}" | xargs -P 4 -I{} bash -c 'run_one {}'
