#!/bin/bash
# try_benign.sh <patch> <name> "<checks>": scratch worktree of /repo HEAD + patch, runs the listed quick checks, prints non-zero exits
patch=$1; name=$2; checks=$3; wt=/tmp/s/bn_$name
git -C /repo worktree add -q $wt HEAD 2>/dev/null; git -C $wt checkout -q -- . ; git -C $wt apply $patch || { echo "$name: patch does not apply"; exit 2; }
cd /verif; out=""
for P in $checks; do
  r=$(PVC_REPO=$wt python3-vt -m pvc.check $P --evidence /tmp/ev_bn_$name.json 2>&1 | grep -E "VIOLATION|^pvc |UNSUPP|CHECKER|UNDEC" | cut -c1-230)
  code=$(echo "$r" | grep -E "^pvc " | sed 's/.*exit=\([0-9]\).*/\1/')
  out="$out $P=$code"
  [ "$code" != 0 ] && echo "$name $P: $(echo "$r" | head -2 | tr '\n' ' ')"
done
echo "$name:$out"
git -C /repo worktree remove --force $wt
