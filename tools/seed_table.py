#!/usr/bin/env python3
"""regenerates the seeded-change table of DESIGN.md section 8 from seeded/<id>/meta.json and official_run.txt"""
import json, os, re
HERE = os.path.dirname(os.path.dirname(os.path.abspath(__file__)))
B, E = "<!-- SEED_TABLE_BEGIN -->", "<!-- SEED_TABLE_END -->"


def main():
    rows = []
    for i in sorted(os.listdir(os.path.join(HERE, 'seeded'))):
        d = os.path.join(HERE, 'seeded', i)
        if not os.path.isdir(d): continue
        m = json.load(open(os.path.join(d, 'meta.json')))
        off = open(os.path.join(d, 'official_run.txt')).read() if os.path.exists(os.path.join(d, 'official_run.txt')) else ''
        obs = re.findall(r'obligation=(\S+)( no-failing-input-found)?', off)
        code = re.search(r'exit=(\d)', off)
        nv = re.search(r'violations=(\d+)', off)
        first = "; ".join("`%s`%s" % (o, " (no failing input)" if nf else " (replayed input)") for o, nf in obs[:2])
        others = [c for c in m['caught_by'] if c != m['breaks_property']]
        rows.append("| %s | %s | %s | exit %s, %s violation line(s): %s | %s | %s |" % (
            i, m['change'], m['needs_to_manifest'], code.group(1) if code else '?', nv.group(1) if nv else '?', first or '-',
            ' '.join(others) or '-', ' '.join("%s(%s)" % (k, m['checks_exit_codes'][k]) for k in m['no_verdict']) or '-'))
    txt = [B, "",
           "| id | change | needs | target check on /repo with the change applied | other checks that also report it | other checks without verdict (2 undecided / 3 cannot run) |",
           "|---|---|---|---|---|---|"] + rows + ["", E]
    p = os.path.join(HERE, 'DESIGN.md')
    s = open(p).read()
    if 'SEED_TABLE_PLACEHOLDER' in s: s = s.replace('SEED_TABLE_PLACEHOLDER', B + "\n" + E)
    s = s[:s.index(B)] + "\n".join(txt) + s[s.index(E) + len(E):]
    open(p, 'w').write(s)
    print("DESIGN.md section 8: %d rows" % len(rows))


if __name__ == '__main__':
    main()
