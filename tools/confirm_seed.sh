#!/bin/bash
# confirms a seeded change in its scratch worktree: suite passes with it, demo fails with it, demo passes without it
# usage: confirm_seed.sh <ID e.g. C01-a> <worktree>
id=$1; wt=$2; out=/verif/seeded/$id/confirm.log
cd $wt || exit 2
{
echo "== $id in $wt  $(date -u +%FT%TZ)"
git apply --check -R /verif/seeded/$id/patch.diff && echo "patch is applied in the worktree"
echo "-- suite with the change"; /venv/bin/python -m pytest -q -p no:cacheprovider -n 4 2>&1 | tail -2
echo "-- demo with the change (expected: failures)"; /venv/bin/python -m pytest -q -p no:cacheprovider demo_seeded.py 2>&1 | tail -2
git apply -R /verif/seeded/$id/patch.diff
echo "-- demo without the change (expected: all pass)"; /venv/bin/python -m pytest -q -p no:cacheprovider demo_seeded.py 2>&1 | tail -2
git apply /verif/seeded/$id/patch.diff
} > $out 2>&1
tail -8 $out | tr '\n' ' '; echo
