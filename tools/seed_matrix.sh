#!/bin/bash
# runs every quick check against every seeded worktree (PVC_REPO), 4 worktrees at a time; results in /tmp/seedmx/<id>.txt
mkdir -p /tmp/seedmx
run_one() {
  id=$1; wt=/tmp/s/$id       # scratch worktree of /repo HEAD with seeded/$id/patch.diff applied (created by tools/seed_worktrees.sh, removed afterwards)
  mkdir -p /tmp/seedmx/ev_$id
  ( cd /verif; for i in 01 02 03 04 05 06 07 08 09 10 11 12 13 14 15 16 17 18 19 20; do
      r=$(PVC_REPO=$wt python3-vt -m pvc.check C$i --evidence /tmp/seedmx/ev_$id/C$i.json 2>&1 | grep -E "^pvc " | sed 's/.*exit=\([0-9]\).*/\1/')
      echo "C$i $r"
    done ) > /tmp/seedmx/$id.txt 2>&1
  echo "done $id: $(tr '\n' ' ' < /tmp/seedmx/$id.txt)"
}
export -f run_one
ls /verif/seeded | grep -v MATRIX | grep -E -e "${ONLY:-.}" | xargs -P 5 -I{} bash -c 'run_one {}'
